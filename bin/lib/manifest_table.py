HOOK_COMMITS = ["5c84b24"]
NOTES = ("Every check: TLC model-checks a bounded TLA+ model (spec/mc/MC_*), its behaviours become scenarios, the Rust harness "
         "(harness/, no oracle inside) replays them and seeded random ones on the real public API, and TLC validates the "
         "recorded trace against the L0 specification (spec/trace/Trace_*). Exit 2 = tool error, never a verdict.")
ENGINES = [
    {"name": "tlc", "path": "/opt/veriftools/tla/tla2tools.jar", "serves_properties": [], "kind_free_text": "TLC 1.8.0 explicit-state model checker; exhaustive bounded models and linear trace validation"},
    {"name": "csl-conform", "path": "harness/", "serves_properties": [], "kind_free_text": "Rust conformance harness: replays TLC-generated and seeded random scenarios on the real API and records ndjson traces"},
]
NOT_APPLICABLE = {}
CLAIMED = {
 "C17": {
  "engine": "tlc + csl-conform (spec/sys/MetadataJson.tla, spec/lib/MdTrees.tla, CDDL.tla 'fresh' profile, ConwaySchema.tla; spec/mc/MC_MetadataJson.tla, MC_Codec.tla; spec/trace/Trace_MetadataJson.tla, Trace_Codec.tla; harness json + codec drivers)",
  "technique": "the three metadata schemas, the two datum schemas and the chunking helpers are transcribed as total functions over abstract trees (strings as byte sequences, integers as BigNat, number literals as text) with InSchema / NormalForm written separately; TLC checks on a bounded universe that the conversions are mutually inverse where the property says so and fail exactly outside InSchema, and emits every tree as a scenario; the real conversions are run on them and on seeded random trees, and the trace spec compares every result (value, error, reverse conversion) with the specification's functions; for the generic to_json / from_json the schema interpreter classifies each instance (fresh / retained encoding detail / map not ascending / content the JSON form cannot carry) and demands equality and identical bytes, content equality, or a fresh-form re-encoding accordingly, plus a stable second pass",
  "text": "5146 model cases (all laws hold on the specification) + 2500 (quick) / 20000 random trees = about 33000 conversion events, and about 6200 typed values over 30 types.",
  "note": "Trusted: TLC, MetadataJson.tla (transcribed from the doc comments and cardano-node's schema description; agreement with the code on every generated case is itself evidence), CBOR.tla, serde_json in the harness for text -> tree, harness logging (--selftest alters recorded results). Known finding: the JSON form of a Plutus script drops the language version. Duplicate member names and documents deeper than 3 are not explored.",
 },
 "C01": {
  "engine": "tlc + csl-conform (spec/lib/CDDL.tla, ConwaySchema.tla, CDDLGen.tla, CBOR.tla; spec/mc/MC_Codec.tla; spec/trace/Trace_Codec.tla; harness codec driver)",
  "technique": "the Conway wire format is a schema value in TLA+ (ConwaySchema) with an interpreter (CDDL.tla); TLC enumerates each-choice instances of 20+ typed schemas (one variant / optional field / integer width class / collection size class away from a default, to schema depth 3 or 5) and checks on the model that each conforms; the real decoders take each instance (and typed values constructed first through the API, and every transaction the real builder emitted), and the trace spec demands decode(encode(v)) = v, byte-identical re-encoding, and identical behaviour of the hex entry points, with the encoded bytes parsed by CBOR.tla",
  "text": "About 3000 (quick) / 30000 schema instances over 32 decoder types plus constructed values with integer widths at every CBOR head boundary and text/bytes at the 64-byte chunk boundary, plus about 450 / 3500 built transactions.",
  "note": "Trusted: TLC, CBOR.tla, CDDL.tla + ConwaySchema.tla (transcribed; model-checked Gen => Conforms), the library's PartialEq for value equality (byte identity is checked independently), harness logging (--selftest corrupts recorded re-encodings). Blocks and protocol parameter updates are not generated. A spec-generated instance the decoder refuses is a note, not a failure.",
 },
 "C02": {
  "engine": "tlc + csl-conform (spec/lib/CBOR.tla total parser with error classes, spec/mc/MC_Mutate.tla, spec/trace/Trace_Codec.tla; harness parse driver with abort/resume protocol)",
  "technique": "TLC parses each generated instance with the total TLA+ CBOR parser and emits the span of every node; the harness applies every single structural mutation at every node and hands the result to the real byte / hex / text entry points; every outcome is an event: Err is counted, Panic / process abort is a violation classified by the spec's own parse of the input (well-formed, eof-*, huge-*, reserved-ai, bad-chunk ...), and every Ok must re-serialize to bytes that CBOR.tla parses as exactly one well-formed item; all inputs of length <= 2 are swept for 30 decoders; 42 text entry points get ~45 malformed variants each",
  "text": "About 2.7 million parser calls (quick) on mutations of ~600 instances; exhaustive for inputs of <= 2 bytes; thorough multiplies instances and text variants by 4-10.",
  "note": "Trusted: TLC, CBOR.tla, harness logging and the pending-file protocol that attributes a process death to its input (--selftest corrupts recorded re-serializations). Known finding (dependency cbor_event, not repairable in this repository with a small patch): a string head declaring a huge length aborts / panics in Vec::with_capacity. Nesting deeper than 256 not decided.",
 },
 "C03": {
  "engine": "tlc + csl-conform (spec/lib/CDDL.tla, ConwaySchema.tla, CBOR.tla; spec/trace/Trace_Emit.tla, Trace_Codec.tla; harness builder / sendall / codec drivers)",
  "technique": "TLC is the CDDL validator: every byte string the real library emits (built and signed transactions from the builder, Plutus and send-all drivers; the serialization of every typed value from the codec driver) is parsed by CBOR.tla and matched against ConwaySchema in the write profile: map keys, arities, tags, integer ranges, byte sizes, shortest definite heads, tag 258 and pairwise-distinct elements on sets, canonical asset-map order, positive quantities, no empty optional collections; the first failing path and rule is the signature",
  "text": "About 1100 (quick) / 7000 built transactions and 3000 / 30000 typed values.",
  "note": "Trusted: TLC, CBOR.tla, the ConwaySchema transcription (from memory of the Conway CDDL; rules marked UNSURE are permissive: governance action bodies, parameter updates), harness logging (--selftest rewrites a set tag). Values that keep a non-canonical original encoding are out of scope by the statement.",
 },
 "C04": {
  "engine": "tlc + csl-conform (spec/lib/Encodings.tla, CBOR.tla; spec/mc/MC_FixedTx.tla; spec/trace/Trace_FixedTx.tla; hashlib digest oracle)",
  "technique": "TLC generates, from a tree description of transactions, every single non-canonical encoding choice (and checks on the model that each is well-formed and carries the same data) crossed with add-signature histories; the real FixedTransaction is loaded and signed; the trace spec keeps the original bytes, the touched keys and the added witnesses as state and compares, after every step, the spans of body / auxiliary data / every untouched witness field in the re-serialization with the spans in the input, the touched key-witness fields with original-then-added elements, and the reported hash with Blake2b-256 of the original body span (hashlib); Plutus datums in random non-canonical encodings must re-encode and hash to their input bytes",
  "text": "About 1000 (quick) / 2300 generated transaction scenarios (8 witness-set presence variants x histories; 2 transactions x ~230 single deviations x 4 histories) and 3000 / 30000 random datums.",
  "note": "Trusted: TLC, CBOR.tla, Encodings.tla (model-checked: WellFormed, SameData), hashlib.blake2b, harness logging (--selftest flips a body byte). Block views (FixedTransactionBody / FixedBlock) not exercised yet; only single deviations (pairs planned for thorough).",
 },
 "C16": {
  "engine": "tlc + csl-conform (spec/sys/DedupSets.tla, spec/mc/MC_DedupSets.tla, spec/trace/Trace_DedupSets.tla, Trace_TxBuilder.tla; harness sets + builder drivers)",
  "technique": "L1 TLA+ model of a vector + membership index with three arrival paths, model-checked against L0 (first-occurrence subsequence, no duplicates, index consistent) over all histories; each history is executed on 7 real set types and 3 witness-set setters through new / tagged CBOR / untagged CBOR / JSON constructors and add(); TLC parses the serialized bytes and compares element spans, order, tag 258, len/get/add results with the first-occurrence subsequence; all orders of asset insertion are checked for canonical key order in Value, Mint and the builder's mint field; Build;Build and duplicate-free witness sets are checked on the builder traces",
  "text": "Exhaustive on the model and on the real types for histories of <= 5 arrivals over 3 elements x 4 constructor paths (about 47k collection events), all 48 asset-name orders, plus random longer histories and about 1600 builder scenarios built twice.",
  "note": "Trusted: TLC, CBOR.tla, harness logging (--selftest rotates the recorded constructor list). Two-process comparison of builds (DESIGN) not built: the nondeterminism found was per HashSet instance and shows within one process.",
 },
 "C13": {
  "engine": "tlc + csl-conform (spec/trace/Trace_SendAll.tla, spec/lib/LedgerRules.tla, CBOR.tla, Value.tla; harness sendall driver)",
  "technique": "L0 action CreateSendAll in the trace spec: TLC parses every returned transaction from its bytes and checks that the inputs of the batch partition the supplied outpoints, that every output pays the target address, and per transaction Balanced (values from the scenario environment), fee >= a*len+b of the really signed bytes (signer set recomputed from the spent outputs), size limits and min-ADA of every output",
  "text": "Trace validation of about 1200 (quick) / 12000 random UTxO sets up to 60 entries with many policies, long names, quantities whose sums cross CBOR widths, dust, Byron/Shelley owners and parameter sets that force splitting.",
  "note": "Trusted: TLC, CBOR.tla, LedgerRules.tla, hashlib-checked key table, harness logging (--selftest adds an unspent UTxO to every environment). No TLA+ model of the greedy categorizer. Known finding: with coins_per_utxo_byte < 100 some transactions lose 44 lovelace / are one byte short of the minimum fee (known_findings.json).",
 },
 "C11": {
  "engine": "tlc + csl-conform (spec/sys/Address.tla, spec/mc/MC_Address.tla, spec/trace/Trace_Address.tla; zlib.crc32 digest oracle)",
  "technique": "the address format transcribed as a total classification function in TLA+ (header bits, exact lengths, pointer variable-length naturals over BigNat, Byron CBOR envelope parsed by CBOR.tla); TLC checks totality and ToBytes.Classify = id on the model and enumerates the structural lattice; every case is handed to the strict parser and, embedded in a legacy and a map-form output, to the lenient path of the real code; TLC compares kind, network, credentials, pointer triple, bytes and round trips with its own classification; Byron checksums are evaluated by zlib on the spec-extracted payload",
  "text": "Bounded-exhaustive over 256 headers x lengths 0..80 x 4-6 content fills plus pointer encodings at limb boundaries (about 85k cases quick) and random Shelley/Byron addresses with envelope mutations and all attribute combinations.",
  "note": "Trusted: TLC, Address.tla (from the Shelley CDDL comment in the repository and CIP-19), CBOR.tla, zlib.crc32, harness logging (--selftest). Bech32/Base58 text forms are round-tripped through the library, not predicted. Known finding (not repairable with the suite unedited, see known_findings.json): the lenient embedded path decodes tailed and non-minimal pointer addresses instead of keeping them verbatim.",
 },
 "C09": {
  "engine": "tlc + csl-conform (spec/trace/Trace_TxBuilder.tla ScriptChecks, spec/lib/LedgerRules.tla script rules, CBOR.tla; harness builder driver --plutus; hashlib digest oracle)",
  "technique": "for every transaction built after calc_script_data_hash as last script-related call, TLC assembles the ledger's script-integrity preimage from the emitted witness set (redeemer span, datum span, language views of exactly the versions in use, encoded by the specification incl. the PlutusV1 double encoding and canonical key order) and the auxiliary-data span; Blake2b-256 is uninterpreted in TLA+, each (preimage, digest-found-in-body) pair is evaluated by hashlib; freshness of the hash is state of the trace spec",
  "text": "Trace validation of about 900 (quick) Plutus transactions over all 7 language subsets, array/map redeemers as emitted, witness/inline/reference datums, extra and duplicated datums, plus auxiliary data hashes of the regular scenarios. The stand-alone hash_script_data / hash_auxiliary_data helpers are exercised only through the builder.",
  "note": "Trusted: TLC, CBOR.tla, the language-views transcription in LedgerRules.tla, python hashlib.blake2b, harness logging (--selftest flips a hash byte).",
 },
 "C10": {
  "engine": "tlc + csl-conform (spec/trace/Trace_TxBuilder.tla ScriptChecks, spec/lib/LedgerRules.tla script rules, CBOR.tla; harness builder driver --plutus; hashlib digest oracle)",
  "technique": "each script use carries a redeemer whose data is a unique integer; the harness logs which item it attached it to; TLC finds the redeemer in the emitted witness set and compares (purpose, index) with the position of that item under the ledger's orderings computed from the emitted body (inputs sorted by txid/index, policies sorted, certificate sequence, withdrawals in reward-account order); pointers pairwise distinct; number of redeemers = number of script uses; attachments are state of the trace spec (replaced by later Set* calls)",
  "text": "Trace validation of about 1500 (quick) / 12000 transactions with the additions issued in random order and outpoints spread so that sorted order differs from insertion order.",
  "note": "Trusted: as C09. Vote redeemers: presence/purpose/distinctness only. Mixed key/script reward accounts: a pointer matching raw byte order instead of the ledger's Ord is noted, not failed.",
 },
 "C18": {
  "engine": "tlc + csl-conform (spec/trace/Trace_TxBuilder.tla ScriptChecks, spec/lib/LedgerRules.tla script rules, CBOR.tla; harness builder driver --plutus; hashlib digest oracle)",
  "technique": "for every script use TLC counts the places where the script is available in the emitted transaction (witness-set scripts mapped to hashes through a script table re-checked with hashlib; reference scripts of environment outputs that are among body[18] or spent) and demands exactly one; required datums must be present; full_size() is bracketed by the length of the transaction really signed by the recomputed signer set (signed <= full_size < signed + 101)",
  "text": "Trace validation over the Plutus scenarios (scripts) and all builder scenarios (size bracket) with overlapping key hashes between inputs, collateral, certificates, withdrawals, votes, native-script signers and required signers.",
  "note": "Trusted: as C09. The required signer set is recomputed by the spec from the emitted bytes; the harness signing with another set is a tool error.",
 },
 "C19": {
  "engine": "tlc + csl-conform (spec/trace/Trace_TxBuilder.tla collateral state machine, spec/lib/LedgerRules.tla, Value.tla)",
  "technique": "the collateral fields are a state machine in the L0 trace spec (unset / set by helper / raw setter / failed helper); for every transaction built with helper-set fields TLC sums the collateral inputs from the scenario's UTxO environment and checks, on the emitted bytes, inputs = return + total as whole values, min-ADA of the return output, total*100 >= fee*pct for the percentage helper, and that a failed helper leaves neither field in the body",
  "text": "Trace validation over seeded random histories (about 800 collateral scenarios quick) covering return outputs with assets equal/fewer/more/different than the inputs', totals above/below the inputs, percentages 1..1000, both orders of collateral vs balancing.",
  "note": "Trusted: as C05. Apalache run on the collateral equation (DESIGN) not built. Raw setters are exercised only to move the state machine to 'raw' (no obligation).",
 },
 "C05": {
  "engine": "tlc + csl-conform (spec/lib/LedgerRules.tla, CBOR.tla, Value.tla; spec/sys/TxBuilder.tla; spec/mc/MC_TxBuilder.tla; spec/trace/Trace_TxBuilder.tla; harness builder driver)",
  "technique": "L1 TLA+ model of the builder's accounting model-checked against Balanced for every order of issuing up to 4-5 operations; each model history and seeded random histories are replayed on the real TransactionBuilder; TLC parses the BYTES of every transaction built after a successful balancing call with its own CBOR grammar, values inputs in the scenario's UTxO environment, recomputes deposits/refunds with its own ledger table and checks consumed = produced for lovelace and every asset",
  "text": "Exhaustive on the model over operation orders; trace validation of every built transaction (about 2.7k scenarios quick, 26k thorough) against the ledger's preservation-of-value rule evaluated on emitted bytes. Not a proof for all histories.",
  "note": "Trusted: TLC, CBOR.tla, the ledger rules in LedgerRules.tla, harness logging (--selftest adds one lovelace to every UTxO and must be rejected). Plutus items are covered by the C09/C10/C18 scenarios. When build_tx refuses (fee/balance validation) the unvalidated build_tx_unsafe result is judged as well.",
 },
 "C06": {
  "engine": "tlc + csl-conform (spec/lib/LedgerRules.tla, CBOR.tla, Value.tla; spec/sys/TxBuilder.tla; spec/mc/MC_TxBuilder.tla; spec/trace/Trace_TxBuilder.tla; harness builder driver)",
  "technique": "same traces as C05; the harness attaches real vkey and bootstrap signatures through FixedTransaction; TLC recomputes the required signer set from the emitted body and the environment (tool error if the harness signed otherwise), measures the signed byte length and checks fee >= a*len+b; SetFee/SetMinFee are state of the L0 machine (fixed fee used exactly, requested minimum honoured)",
  "text": "Trace validation of the fee of every transaction built after successful balancing against the linear minimum fee of the really signed bytes, across coin/fee width classes, 1-6 signers with overlaps, Byron witnesses, change layouts none/one/several/burn.",
  "note": "Trusted: as C05 plus the library's Ed25519 signing (only the size matters here) and the key table re-checked with hashlib. Script execution and reference-script fee parts are not yet exercised by these scenarios (no Plutus inputs): planned with C09/C10/C18.",
 },
 "C07": {
  "engine": "tlc + csl-conform (spec/lib/LedgerRules.tla, CBOR.tla, Value.tla; spec/sys/TxBuilder.tla; spec/mc/MC_TxBuilder.tla; spec/trace/Trace_TxBuilder.tla; harness builder driver)",
  "technique": "same traces as C05; for every output of every built transaction TLC measures the serialized output and value spans in the emitted bytes and checks coin >= coins_per_byte*(160+size), value size <= max_value_size, signed size <= max_tx_size, over parameter sets cpb in {0,1,4310,34482}, max_value_size in {200,500,5000}, max_tx_size in {4000,16384}",
  "text": "Trace validation of min-ADA / value-size / transaction-size on every output the builder accepted or created (requested, change incl. multi-output asset change, collateral return set by a helper).",
  "note": "Trusted: as C05. The stand-alone min_ada_for_output bracket (c <= bound at 8-byte coin) is not yet validated separately (planned Trace_MinAda). Raw set_collateral_return is out of scope by DESIGN section 3 C07.",
 },
 "C08": {
  "engine": "tlc + csl-conform (spec/sys/CoinSelection.tla, spec/mc/MC_CoinSelection.tla, spec/trace/Trace_CoinSelection.tla; RNG hook rust/src/verif_hooks.rs)",
  "technique": "L1 TLA+ model of random-improve + fee top-up with every gen_range a nondeterministic choice, model-checked exhaustively against L0 (Sound, NoDoubleCount, Bookkeeping); every model behaviour is replayed through the scriptable RNG hook and compared; independently the harness enumerates ALL draw scripts on the real code depth-first (stateless model checking of the implementation) for model-generated and random scenarios; each leaf is validated by TLC against L0 using the real inputs valued in the scenario's UTxO environment",
  "text": "Exhaustive over all random outcomes for 4 offered UTxOs x 4 coin values x 4 output shapes on the model (about 860k states, F in {0,1}); on the real code all schedules of 180 (quick) scenarios incl. multi-asset and fee-sized amounts (about 17k schedules) plus 6000 replayed model behaviours. Not a proof for all UTxO sets.",
  "note": "Trusted: TLC, the RNG hook (gen_range is the only RNG call), builder getters min_fee/get_total_output (cross-checked by C05/C06), harness logging (--selftest). Largest-first order is judged on the selected SET (top segment, minimal) because insertion order is not observable. Exploration capped at 1500-3000 schedules per scenario (noted when hit).",
 },
 "C20": {
  "engine": "tlc + csl-conform (spec/lib/LedgerRules.tla, spec/sys/Deposits.tla, spec/mc/MC_Deposits.tla, spec/trace/Trace_Deposits.tla)",
  "technique": "ledger deposit/refund table for the 19 certificate kinds in TLA+; TLC model-checks helper table = builder table = ledger table over all histories of certificate/withdrawal/proposal additions and emits each state as a scenario; real bodies and builders are built from them; TLC parses the emitted body bytes with its own CBOR grammar, recomputes deposit and implicit input and validates the four recorded figures (helpers on constructed and decoded body, builder) and that the builder emits the same content",
  "text": "Exhaustive over histories of <= 2 (quick) / 3 (thorough) additions with amounts at the 64-bit boundary on the model and on the real code, plus seeded random lists; figures recomputed by the specification from emitted bytes. Not a proof for all bodies.",
  "note": "Trusted: TLC, the transcription of the Conway deposit table in LedgerRules.tla (from the published ledger spec, from memory), CBOR.tla, harness logging (negative control --selftest). Key-hash credentials only; info-action proposals; pool registrations counted as first registrations.",
 },
 "C14": {
  "engine": "tlc + csl-conform (spec/lib/BigNat.tla, Value.tla, CBOR.tla; spec/sys/Numeric.tla; spec/mc/MC_Numeric.tla, MC_BigNat.tla; spec/trace/Trace_Numeric.tla)",
  "technique": "TLA+ exact semantics of BigNum/Int/BigInt/Value/mint accumulation over base-256 big naturals; TLC enumerates an operand lattice (64-bit edges, -2^64, out-of-range and malformed strings, non-minimal CBOR, a 48-value Value universe) and checks the Value laws on the model; every case and seeded random operands are executed on the real types and each observation (value, accessors, CBOR bytes, decimal and JSON round trips) is validated by TLC",
  "text": "Bounded-exhaustive operand lattice (about 14k cases quick) plus random operands up to 2000 bits, every result compared with the exact mathematical one by TLC; Value laws model-checked on the specification's own operators. Not a proof for all operands.",
  "note": "Trusted: TLC, BigNat.tla (self-tested against native integers by MC_BigNat), the CBOR integer grammar in CBOR.tla, harness logging (negative control --selftest). Division by zero and non-canonical decimal strings are outside the statement (only 'no panic'). Dev profile.",
 },
 "C15": {
  "engine": "tlc + csl-conform (spec/sys/Fees.tla, spec/mc/MC_Fees.tla, spec/trace/Trace_Fees.tla)",
  "technique": "TLA+ definition of the ledger fee functions over base-256 big naturals; TLC checks closed form = tier recursion on a grid; every grid point and seeded random arguments are called on the real functions and the recorded results validated by TLC (floor/ceiling by bracketing)",
  "text": "Bounded-exhaustive on the model (1941 grid points: tier boundaries x price fractions x 64-bit edge operands) and trace validation of every real call against the TLA+ definition; random arguments extend the grid. Not a proof for all arguments.",
  "note": "Trusted: TLC, the transcription of the ledger's tierRefScriptFee / script fee / linear fee in Fees.tla, harness logging (negative control: bin/check C15 --selftest). Sizes bounded at 1 MiB; zero denominators excluded.",
 },
}
