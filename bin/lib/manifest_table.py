HOOK_COMMITS = ["5c84b24"]
NOTES = ("Every check: TLC model-checks a bounded TLA+ model (spec/mc/MC_*), its behaviours become scenarios, the Rust harness "
         "(harness/, no oracle inside) replays them and seeded random ones on the real public API, and TLC validates the "
         "recorded trace against the L0 specification (spec/trace/Trace_*). Exit 2 = tool error, never a verdict.")
ENGINES = [
    {"name": "tlc", "path": "/opt/veriftools/tla/tla2tools.jar", "serves_properties": [], "kind_free_text": "TLC 1.8.0 explicit-state model checker; exhaustive bounded models and linear trace validation"},
    {"name": "csl-conform", "path": "harness/", "serves_properties": [], "kind_free_text": "Rust conformance harness: replays TLC-generated and seeded random scenarios on the real API and records ndjson traces"},
]
NOT_APPLICABLE = {}
CLAIMED = {
 "C15": {
  "engine": "tlc + csl-conform (spec/sys/Fees.tla, spec/mc/MC_Fees.tla, spec/trace/Trace_Fees.tla)",
  "technique": "TLA+ definition of the ledger fee functions over base-256 big naturals; TLC checks closed form = tier recursion on a grid; every grid point and seeded random arguments are called on the real functions and the recorded results validated by TLC (floor/ceiling by bracketing)",
  "text": "Bounded-exhaustive on the model (1941 grid points: tier boundaries x price fractions x 64-bit edge operands) and trace validation of every real call against the TLA+ definition; random arguments extend the grid. Not a proof for all arguments.",
  "note": "Trusted: TLC, the transcription of the ledger's tierRefScriptFee / script fee / linear fee in Fees.tla, harness logging (negative control: bin/check C15 --selftest). Sizes bounded at 1 MiB; zero denominators excluded.",
 },
}
