"""Shared machinery for bin/check: build the harness, run TLC, collect verdicts, write evidence.

No oracle lives here. Every accept/reject decision is taken by a TLA+ module evaluated by
TLC; this file only moves files around, counts what TLC reported and matches failure
signatures against /verif/known_findings.json.
"""
import hashlib
import json
import os
import re
import shutil
import subprocess
import sys
import time
import zlib

VERIF = os.path.dirname(os.path.dirname(os.path.dirname(os.path.abspath(__file__))))
SPEC = os.path.join(VERIF, "spec")
HARNESS = os.path.join(VERIF, "harness")
# Machinery testing only (bin/regress_mutants): VERIF_ALT_REPO names a scratch copy of the repository (with a seeded change applied) and
# VERIF_ALT_TAG a name; the harness is then built against that copy into its own target directory, work files go to work/alt_<tag>/
# and NO evidence is written. The registered commands never set these: they build against /repo's working tree.
ALT_REPO = os.environ.get("VERIF_ALT_REPO")
ALT_TAG = os.environ.get("VERIF_ALT_TAG", "alt")
TARGET = os.path.join(HARNESS, "target_alt_" + ALT_TAG) if ALT_REPO else os.path.join(HARNESS, "target")
BIN = os.path.join(TARGET, "debug", "csl-conform")
JAR = "/opt/veriftools/tla/tla2tools.jar"
CMJAR = "/opt/veriftools/tla/CommunityModules-deps.jar"
TLA_LIB = os.pathsep.join(os.path.join(SPEC, d) for d in ("lib", "sys", "mc", "trace"))


class ToolError(Exception):
    pass


def log(*a):
    print(*a, flush=True)


# --------------------------------------------------------------------------- apalache (inductive invariants over unbounded integers)

def apalache_inductive(module, workdir, inv="IndInv", timeout=900, path=None):
    """Init => inv (length 0) and inv /\\ Next => inv' (length 1, --init=IndInit). Returns (ok, detail)."""
    src = path or os.path.join(SPEC, "apalache", module + ".tla")
    os.makedirs(workdir, exist_ok=True)
    res = []
    for init, length in (("Init", 0), ("IndInit", 1)):
        cmd = ["apalache-mc", "check", "--cinit=ConstInit", "--init=" + init, "--inv=" + inv, "--length=%d" % length, "--out-dir=" + os.path.join(workdir, "apalache_out"), src]
        try:
            p = subprocess.run(cmd, capture_output=True, text=True, timeout=timeout, cwd=os.path.dirname(src))
        except (subprocess.TimeoutExpired, FileNotFoundError) as e:
            raise ToolError("apalache %s: %s" % (module, e))
        out = p.stdout + p.stderr
        if "EXITCODE: OK" in out:
            res.append((init, True))
        elif "EXITCODE: ERROR (12)" in out:
            res.append((init, False))
        else:
            raise ToolError("apalache %s (%s): unexpected outcome\n%s" % (module, init, out[-1500:]))
    return all(ok for _, ok in res), res


# --------------------------------------------------------------------------- harness

def build_harness():
    lock_src = "/repo/rust/Cargo.lock"
    lock_dst = os.path.join(HARNESS, "Cargo.lock")
    if not os.path.exists(lock_dst) and os.path.exists(lock_src):
        shutil.copy(lock_src, lock_dst)
    env = dict(os.environ, CARGO_NET_OFFLINE="true")
    t0 = time.time()
    cmd = ["cargo", "build", "--quiet"]
    if ALT_REPO:
        cmd += ["--config", 'paths=["%s/rust"]' % ALT_REPO, "--target-dir", TARGET]
    p = subprocess.run(cmd, cwd=HARNESS, env=env,
                       stdout=subprocess.PIPE, stderr=subprocess.STDOUT, text=True)
    if p.returncode != 0:
        log(p.stdout[-4000:])
        raise ToolError("harness build failed")
    return time.time() - t0


def run_harness(args, stdin_path=None, out_path=None, timeout=1800, env=None):
    """Run the harness binary; stdout goes to out_path (ndjson trace)."""
    e = dict(os.environ)
    e["RUST_BACKTRACE"] = "0"
    if env:
        e.update(env)
    fin = open(stdin_path, "rb") if stdin_path else subprocess.DEVNULL
    fout = open(out_path, "wb") if out_path else subprocess.PIPE
    try:
        p = subprocess.run([BIN] + [str(a) for a in args], stdin=fin, stdout=fout,
                           stderr=subprocess.PIPE, timeout=timeout, env=e)
    except subprocess.TimeoutExpired:
        raise ToolError("harness timeout: %s" % (args,))
    finally:
        if stdin_path:
            fin.close()
        if out_path:
            fout.close()
    if p.returncode != 0:
        sys.stderr.write(p.stderr.decode(errors="replace")[-3000:])
        raise ToolError("harness failed rc=%d: %s" % (p.returncode, args))
    return p


# --------------------------------------------------------------------------- TLC

class TlcResult:
    def __init__(self):
        self.rc = None
        self.out = ""
        self.generated = 0
        self.distinct = 0
        self.depth = 0
        self.emits = []       # decoded "@@{json}" prints
        self.wall = 0.0
        self.invariant_violated = None
        self.postcondition_failed = False
        self.error = None

    def by(self, tag):
        return [e for e in self.emits if e.get("t") == tag]


_EMIT = re.compile(r'^"@@(.*)"$')


def _decode_emit(line):
    m = _EMIT.match(line)
    if not m:
        return None
    # TLC prints a TLA+ string with \" and \\ escapes: undo them, then parse JSON
    try:
        inner = json.loads('"' + m.group(1) + '"')
        return json.loads(inner)
    except Exception:
        return None


def tlc(module, cfg=None, workdir=None, workers=1, env=None, timeout=900, deque=False,
        simulate=None, depth=None, seed=None, coverage=False, xmx="4g", defines=None, fp=None):
    """Run TLC on spec/<..>/<module>.tla. Returns TlcResult. Raises ToolError on crashes."""
    path = find_module(module)
    cfgpath = cfg if cfg and os.path.isabs(cfg) else os.path.join(os.path.dirname(path), cfg or (module + ".cfg"))
    workdir = workdir or os.path.join(VERIF, "work", "tlc")
    os.makedirs(workdir, exist_ok=True)
    meta = os.path.join(workdir, "meta_%s_%d" % (module, os.getpid()))
    shutil.rmtree(meta, ignore_errors=True)
    java = ["java", "-Xss1g", "-Xmx" + xmx, "-XX:+UseParallelGC", "-DTLA-Library=" + TLA_LIB]
    if deque:
        java.append("-Dtlc2.tool.queue.IStateQueue=StateDeque")
    java += ["-cp", JAR + os.pathsep + CMJAR, "tlc2.TLC"]
    args = ["-workers", str(workers), "-config", cfgpath, "-metadir", meta, "-noGenerateSpecTE", "-nowarning"]
    if simulate:
        args += ["-simulate", "num=%d" % simulate]
        if depth:
            args += ["-depth", str(depth)]
    if seed is not None:
        args += ["-seed", str(seed)]
    if fp is not None:
        args += ["-fp", str(fp)]
    if coverage:
        args += ["-coverage", "1"]
    args.append(path)
    e = dict(os.environ)
    e.pop("JAVA_TOOL_OPTIONS", None)
    if env:
        e.update({k: str(v) for k, v in env.items()})
    r = TlcResult()
    t0 = time.time()
    try:
        p = subprocess.run(["timeout", str(timeout)] + java + args, cwd=workdir, env=e,
                           stdout=subprocess.PIPE, stderr=subprocess.STDOUT, text=True)
    finally:
        shutil.rmtree(meta, ignore_errors=True)
    r.wall = time.time() - t0
    r.rc = p.returncode
    r.out = p.stdout
    if p.returncode == 124:
        raise ToolError("TLC timeout (%ds) on %s" % (timeout, module))
    for line in p.stdout.splitlines():
        if line.startswith('"@@'):
            d = _decode_emit(line)
            if d is not None:
                r.emits.append(d)
            continue
        m = re.match(r"^(\d+) states generated, (\d+) distinct states found", line)
        if m:
            r.generated, r.distinct = int(m.group(1)), int(m.group(2))
        m = re.match(r"^The depth of the complete state graph search is (\d+)", line)
        if m:
            r.depth = int(m.group(1))
        m = re.match(r"^Error: Invariant (\S+) is violated", line)
        if m:
            r.invariant_violated = m.group(1)
        if "Error: The postcondition" in line or ("POSTCONDITION" in line and "violated" in line):
            r.postcondition_failed = True
    if simulate:
        m = re.search(r"(\d+) states checked", p.stdout)
        if m:
            r.generated = int(m.group(1))
    fatal = None
    if p.returncode not in (0, 12, 13):
        fatal = "rc=%d" % p.returncode
    if re.search(r"Parsing or semantic analysis failed|TLC threw an unexpected exception|"
                 r"StackOverflowError|OutOfMemoryError|Error: TLC encountered|evaluating the nested", p.stdout):
        fatal = "TLC error"
    if fatal and not (r.invariant_violated or r.postcondition_failed):
        r.error = fatal
        tail = "\n".join(l for l in p.stdout.splitlines() if not l.startswith('"@@'))[-3000:]
        raise ToolError("TLC failed on %s (%s):\n%s" % (module, fatal, tail))
    return r


def find_module(module):
    for d in ("mc", "trace", "sys", "lib"):
        p = os.path.join(SPEC, d, module + ".tla")
        if os.path.exists(p):
            return p
    raise ToolError("no such module " + module)


# --------------------------------------------------------------------------- traces

def read_ndjson(path):
    out = []
    with open(path) as f:
        for line in f:
            line = line.strip()
            if line:
                out.append(json.loads(line))
    return out


def write_ndjson(path, recs):
    with open(path, "w") as f:
        for r in recs:
            f.write(json.dumps(r, separators=(",", ":")) + "\n")


def shard_by_scenario(recs, nshards, key="sc"):
    """Split a trace into nshards lists, never splitting a scenario (runs of equal sc)."""
    groups = []
    cur, cur_sc = [], object()
    for r in recs:
        sc = r.get(key)
        if sc != cur_sc and cur:
            groups.append(cur)
            cur = []
        cur_sc = sc
        cur.append(r)
    if cur:
        groups.append(cur)
    shards = [[] for _ in range(max(1, nshards))]
    sizes = [0] * len(shards)
    for g in groups:
        i = sizes.index(min(sizes))
        shards[i].extend(g)
        sizes[i] += len(g)
    return [s for s in shards if s]


def validate(module, trace_path, workdir, cfg=None, shards=1, timeout=1200, env=None, xmx="3g"):
    """Run a Trace_* validator over an ndjson trace (optionally sharded over parallel JVMs).
    Returns (emits, consumed_all, stats). The validator is linear (one worker, depth-first queue)."""
    workdir = os.path.abspath(workdir)
    os.makedirs(workdir, exist_ok=True)
    recs = read_ndjson(trace_path)
    if not recs:
        raise ToolError("empty trace " + trace_path)
    parts = shard_by_scenario(recs, shards)
    procs = []
    from concurrent.futures import ThreadPoolExecutor
    results = [None] * len(parts)

    def run(i):
        sp = os.path.join(workdir, "shard_%s_%d.ndjson" % (module, i))
        write_ndjson(sp, parts[i])
        e = {"TRACE": sp}
        if env:
            e.update(env)
        wd = os.path.join(workdir, "v_%s_%d" % (module, i))
        results[i] = tlc(module, cfg=cfg, workdir=wd, workers=1, env=e, timeout=timeout, deque=True, xmx=xmx)

    with ThreadPoolExecutor(max_workers=min(16, len(parts))) as ex:
        list(ex.map(run, range(len(parts))))
    emits, ok, gen, dist, wall = [], True, 0, 0, 0.0
    for i, r in enumerate(results):
        emits.extend(r.emits)
        done = r.by("DONE")
        if not done or done[-1].get("n") != len(parts[i]) or r.rc != 0:
            ok = False
            tail = "\n".join(l for l in r.out.splitlines() if not l.startswith('"@@'))[-2500:]
            raise ToolError("validator %s did not consume shard %d (%s of %d lines):\n%s" %
                            (module, i, done[-1].get("n") if done else "?", len(parts[i]), tail))
        gen += r.generated
        dist += r.distinct
        wall = max(wall, r.wall)
    return emits, ok, {"states": dist, "transitions": gen, "wall": wall, "events": len(recs), "shards": len(parts)}


# --------------------------------------------------------------------------- digests (uninterpreted H)

def digest(alg, data):
    b = bytes(data)
    if alg == "blake2b256":
        return list(hashlib.blake2b(b, digest_size=32).digest())
    if alg == "blake2b224":
        return list(hashlib.blake2b(b, digest_size=28).digest())
    if alg == "crc32":
        return list(zlib.crc32(b).to_bytes(4, "big"))
    if alg == "sha512":
        return list(hashlib.sha512(b).digest())
    if alg == "sha3_256":
        return list(hashlib.sha3_256(b).digest())
    raise ToolError("unknown digest " + alg)


# --------------------------------------------------------------------------- verdicts

def load_known():
    p = os.path.join(VERIF, "known_findings.json")
    if not os.path.exists(p):
        return {"findings": [], "fixed": []}
    return json.load(open(p))


class Verdict:
    """Collects FAIL emits of validators, matches them against known findings, prints the
    interface lines and decides the exit status."""

    def __init__(self, pid, workdir):
        self.pid = pid
        self.workdir = workdir
        self.known = [k for k in load_known().get("findings", []) if k["property"] == pid]
        self.fails = {}      # signature -> list of fail records
        self.notes = []

    def add_fail(self, sig, sc=None, detail=None, replay=None):
        self.fails.setdefault(sig, []).append({"sc": sc, "detail": detail, "replay": replay})

    def take(self, emits, replay_of=None):
        """Consume FAIL/NOTE emits for this property. replay_of(sc) -> dict to store as replay."""
        for e in emits:
            if e.get("t") == "FAIL" and e.get("p") == self.pid:
                rp = replay_of(e.get("sc")) if replay_of else None
                self.add_fail(e.get("sig", "?"), e.get("sc"), e.get("d"), rp)
            elif e.get("t") == "NOTE" and e.get("p") in (self.pid, None):
                self.notes.append(e)

    def finish(self):
        """Print KNOWN-FINDING / VIOLATION lines. Returns (exit_code, n_violations, known_hit)."""
        viol, known_hit = 0, []
        os.makedirs(os.path.join(VERIF, "replays", *(["alt_" + ALT_TAG] if ALT_REPO else [])), exist_ok=True)
        for sig, items in sorted(self.fails.items()):
            k = next((k for k in self.known if k["signature"] == sig), None)
            if k:
                known_hit.append(sig)
                log("KNOWN-FINDING: property=%s %s (%s; %d occurrence(s))" % (self.pid, sig, k.get("what", "")[:110], len(items)))
                continue
            viol += 1
            rp = os.path.join(VERIF, "replays", *(["alt_" + ALT_TAG] if ALT_REPO else []), "%s_%s.json" % (self.pid, re.sub(r"[^A-Za-z0-9_.-]+", "_", sig)[:80]))
            first = items[0]
            json.dump({"property": self.pid, "signature": sig, "occurrences": len(items), "first": first,
                       "others": [i["sc"] for i in items[1:20]]}, open(rp, "w"), indent=1)
            log("FAIL-DETAIL: %s sc=%s detail=%s" % (sig, first["sc"], json.dumps(first["detail"])[:600]))
            log("VIOLATION property=%s replay=%s" % (self.pid, rp))
        return (1 if viol else 0), viol, known_hit


# --------------------------------------------------------------------------- evidence

def write_evidence(pid, tier, seed, coverage, wall, violations, assumptions, level="model_checking"):
    if ALT_REPO:
        return None                 # a run against a scratch copy is not evidence
    os.makedirs(os.path.join(VERIF, "evidence"), exist_ok=True)
    ev = {"property_id": pid, "tier": tier, "seed": int(seed), "level": level, "coverage": coverage,
          "assumptions": assumptions, "wall_s": round(wall, 2), "violations": int(violations)}
    p = os.path.join(VERIF, "evidence", pid + ".json")
    json.dump(ev, open(p, "w"), indent=1)
    return p
