"""Per-property pipelines. Each check_<ID>(ctx) runs MC model(s), drivers and validators.
All accept/reject decisions come from TLC (FAIL emits of Trace_* modules)."""
import json
import time
import os
import random

import vlib
from vlib import log, ToolError


class Ctx:
    def __init__(self, pid, tier, seed, work, replay=None, selftest=False):
        self.pid, self.tier, self.seed, self.work = pid, tier, seed, work
        self.replay, self.selftest = replay, selftest
        self.selftest_ok = True
        self.verdict = vlib.Verdict(pid, work)
        self.mc_runs = []          # dicts per MC run
        self.val_runs = []
        self.events = 0
        self.scenarios_run = 0
        self.shapes = set()
        self.samples = []
        self.assumptions = []
        self.notes = {}
        self.extra = {}
        self.exhaustive = True
        self.thorough = tier == "thorough"
        self._replay_of = None
        self.selftest_hash_fail = False

    # ---- step 2: bounded model
    def mc(self, module, cfg=None, workers=8, timeout=900, env=None, coverage=False, xmx="6g", simulate=None, depth=None):
        r = vlib.tlc(module, cfg=cfg, workdir=os.path.join(self.work, "mc_" + module), workers=workers,
                     timeout=timeout, env=env, coverage=coverage, xmx=xmx, simulate=simulate, depth=depth,
                     seed=self.seed if simulate else None)
        if r.invariant_violated or r.rc != 0:
            tail = "\n".join(l for l in r.out.splitlines() if not l.startswith('"@@'))[-3000:]
            raise ToolError("model %s: invariant %s violated on the MODEL (rc=%s) - the committed model is "
                            "inconsistent, not a verdict about the code\n%s" % (module, r.invariant_violated, r.rc, tail))
        self.mc_runs.append({"module": module, "cfg": cfg or module + ".cfg", "states": r.distinct,
                             "transitions": r.generated, "depth": r.depth, "wall_s": round(r.wall, 1),
                             "scenarios": len(r.by("SCN")), "mode": "simulate" if simulate else "exhaustive"})
        if simulate:
            self.exhaustive = False
        log("[%s] model %s: %d distinct states, %d generated, %d scenarios, %.1fs" %
            (self.pid, module, r.distinct, r.generated, len(r.by("SCN")), r.wall))
        return r

    def write_scn(self, emits, name="scn.ndjson"):
        p = os.path.join(self.work, name)
        vlib.write_ndjson(p, emits)
        return p

    # ---- step 3: harness
    def drive(self, driver, scn=None, n=0, flags=(), name=None, timeout=1800):
        name = name or driver
        trace = os.path.join(self.work, "trace_%s.ndjson" % name)
        dump = os.path.join(self.work, "dump_%s.ndjson" % name)
        args = [driver, "--seed", self.seed, "--n", n, "--dump", dump] + list(flags)
        if scn:
            args += ["--scn", scn]
        vlib.run_harness(args, out_path=trace, timeout=timeout)
        return {"driver": driver, "flags": list(flags), "trace": trace, "dump": dump}

    # ---- step 4/5: validate and collect
    def validate(self, module, run, shards=8, cfg=None, timeout=1500, env=None, corrupt=None, xmx="3g"):
        trace = run["trace"]
        if self.selftest:
            if corrupt is None:
                return
            recs = vlib.read_ndjson(trace)
            ok = corrupt(recs, random.Random(self.seed))
            if not ok:
                raise ToolError("selftest: nothing to corrupt in " + trace)
            trace = trace + ".corrupt"
            vlib.write_ndjson(trace, recs)
        emits, ok, st = vlib.validate(module, trace, self.work, cfg=cfg, shards=shards, timeout=timeout, env=env, xmx=xmx)
        self.val_runs.append(dict(st, module=module))
        self.events += st["events"]
        dump_index = None

        def replay_of(sc):
            nonlocal dump_index
            if dump_index is None:
                dump_index = {}
                if os.path.exists(run["dump"]):
                    for s in vlib.read_ndjson(run["dump"]):
                        dump_index[s.get("sc")] = s
            s = dump_index.get(sc)
            return {"driver": run["driver"], "flags": run["flags"], "validator": module, "scn": [s] if s else []}

        self._replay_of = replay_of
        if self.selftest:
            nf = sum(1 for e in emits if e.get("t") == "FAIL" and e.get("p") == self.pid)
            nf += sum(1 for e in emits if e.get("t") == "HASHCHK" and e.get("p") == self.pid and vlib.digest(e["alg"], e["pre"]) != e["expect"])
            log("[%s] selftest %s: %d FAIL emit(s) on corrupted trace" % (self.pid, module, nf))
            if nf == 0:
                self.selftest_ok = False
            return emits
        self.verdict.take(emits, replay_of)
        for e in emits:
            if e.get("t") == "OBL" and e.get("p") == self.pid:
                self.shapes.add(json.dumps(e.get("shape"), sort_keys=True))
            if e.get("t") == "NOTE" and e.get("p") == self.pid:
                self.notes[e.get("what")] = self.notes.get(e.get("what"), 0) + 1
        recs = vlib.read_ndjson(trace)
        scs = set(r.get("sc") for r in recs)
        self.scenarios_run += len(scs)
        if len(self.samples) < 4:
            for r in recs[:1] + recs[len(recs) // 2: len(recs) // 2 + 1] + recs[-1:]:
                s = json.dumps(r)
                self.samples.append(json.loads(s) if len(s) < 1500 else {"truncated_event": s[:1500]})
        log("[%s] validator %s: %d events in %d scenario(s), %d shard(s), %.1fs" %
            (self.pid, module, st["events"], len(scs), st["shards"], st["wall"]))
        return emits

    def standard(self, mc_module, driver, trace_module, n_random, flags=(), shards=8, corrupt=None,
                 mc_kw=None, scn_filter=None):
        """MC model -> scenarios -> harness (+ random) -> validator. Replay mode runs only the stored scenario."""
        if self.replay:
            return self.run_replay()
        r = self.mc(mc_module, **(mc_kw or {}))
        scn = r.by("SCN")
        if scn_filter:
            scn = scn_filter(scn)
        p = self.write_scn(scn)
        run = self.drive(driver, scn=p, n=n_random, flags=flags)
        self.validate(trace_module, run, shards=shards, corrupt=corrupt)
        return run

    def run_replay(self):
        rp = json.load(open(self.replay))
        first = rp.get("first", {}).get("replay") or rp
        scn = first.get("scn") or []
        if not scn:
            raise ToolError("replay file has no scenario")
        # create_send_all is not a function of its arguments alone (hash-set iteration order inside the categorizer): the recorded
        # scenario is run 40 times in one process, every run under another order
        if first.get("driver") == "sendall":
            scn = [dict(x) for _ in range(40) for x in scn]
        p = self.write_scn(scn, "replay_scn.ndjson")
        run = self.drive(first["driver"], scn=p, n=0, flags=[f for f in first.get("flags", ()) if f not in ("--plutus", "--minada")])
        em = self.validate(first["validator"], run, shards=1)
        if em is not None:
            _take_hashchk(self, em)
        return run

    def coverage(self):
        states = sum(m["states"] for m in self.mc_runs) + sum(v["states"] for v in self.val_runs)
        trans = sum(m["transitions"] for m in self.mc_runs) + sum(v["transitions"] for v in self.val_runs)
        cov = {
            "states": states, "transitions": trans,
            "traces_validated_against_impl": self.scenarios_run,
            "samples": self.samples[:4] or [{"note": "no events"}],
            "evaluations": self.events,
            "distinct_nontrivial": len(self.shapes),
            "rule": RULES.get(self.pid, ""),
            "model_runs": self.mc_runs,
            "validator_runs": self.val_runs,
            "exhaustive": bool(self.exhaustive and self.mc_runs),
            "notes": self.notes,
        }
        cov.update(self.extra)
        return cov


RULES = {}
CHECKS = {}


def prop(pid, rule):
    def deco(f):
        CHECKS[pid] = f
        RULES[pid] = rule
        return f
    return deco


# ------------------------------------------------------------------------------- C15

def _corrupt_value(recs, rnd, key="r", sub="v_n"):
    idx = [i for i, r in enumerate(recs) if isinstance(r.get(key), dict) and r[key].get("ok") and r[key].get(sub)]
    if not idx:
        return False
    i = rnd.choice(idx)
    v = recs[i][key][sub]
    v[-1] = (v[-1] + 1) % 256
    return True


@prop("C15", "scenario = one call of a stand-alone fee function; TLC grid (MC_Fees: tier boundaries x price "
             "fractions x 64-bit edge units) plus seeded random arguments; a case is non-trivial when the call "
             "returned a value that the validator compared with the ledger definition; distinct = distinct "
             "(function, tier count or operand widths, result width) shapes counted from the validator's OBL emits")
def check_C15(ctx):
    ctx.assumptions += ["price fractions with denominator 0 are outside the domain (not a ledger value); skipped with a note",
                        "reference-script sizes are bounded at 1 MiB (41 tiers) in the TLA+ definition; the ledger caps a "
                        "transaction's reference scripts at 200 KiB",
                        "TLC, CommunityModules Json/IOUtils"]
    ctx.standard("MC_Fees", "fees", "Trace_Fees", n_random=20000 if ctx.thorough else 1500,
                 shards=16 if ctx.thorough else 8, corrupt=_corrupt_value, mc_kw={"workers": 4})


# ------------------------------------------------------------------------------- C14

def _corrupt_numeric(recs, rnd):
    idx = [i for i, r in enumerate(recs) if r.get("ty") == "BigNum" and isinstance(r.get("r"), dict) and r["r"].get("ok") and r["r"].get("v_n")]
    if not idx:
        return False
    v = recs[rnd.choice(idx)]["r"]["v_n"]
    v[-1] = (v[-1] + 1) % 256
    return True


@prop("C14", "scenario = one public operation of BigNum / Int / BigInt / Value / MintBuilder with its operands; TLC operand "
             "lattice (13 unsigned x 32 signed edge values, out-of-range and malformed strings, non-minimal CBOR) plus seeded "
             "random operands (big integers up to 2000 bits, overlapping/disjoint/empty asset sets); non-trivial = the "
             "validator compared an observed result with the exact mathematical one; distinct = (type, operation, expected "
             "kind, ok/err) and operand-shape classes from OBL emits")
def check_C14(ctx):
    ctx.assumptions += ["division by zero (BigNum::div_floor, BigInt::div_*) is outside the statement and not exercised",
                        "non-canonical decimal strings ('+5', '05', ' 1') are only required not to panic",
                        "dev profile (overflow checks on), as the test suite"]
    cfg = "MC_Numeric_thorough.cfg" if ctx.thorough else "MC_Numeric.cfg"
    if not ctx.replay:
        ctx.mc("MC_BigNat", workers=1)      # self-test of the base-256 arithmetic against TLC's native integers
    ctx.standard("MC_Numeric", "numeric", "Trace_Numeric", n_random=40000 if ctx.thorough else 4000,
                 shards=16 if ctx.thorough else 8, corrupt=_corrupt_numeric, mc_kw={"workers": 4, "cfg": cfg})


# ------------------------------------------------------------------------------- C20

@prop("C20", "scenario = a history of additions of certificates (19 kinds, explicit amounts small / 2^64-1), withdrawals and "
             "proposals (every reachable state of MC_Deposits, <= MaxOps additions) plus seeded random lists; executed as a real "
             "TransactionBody (helpers, also after decoding) and a real TransactionBuilder; non-trivial = the validator computed "
             "the ledger figures from the emitted bytes and compared; distinct = (list sizes, certificate kinds in the body, "
             "whether each total fits 64 bits)")
def check_C20(ctx):
    ctx.assumptions += ["pool registrations are counted as first registrations (as the statement says)",
                        "script-credential certificates need witnesses in the builder and are exercised under C10/C18; here credentials are key hashes",
                        "proposals are info actions (the deposit field is action-independent)"]
    def corrupt(recs, rnd):
        idx = [i for i, r in enumerate(recs) if isinstance(r.get("h_dep"), dict) and r["h_dep"].get("ok") and r["h_dep"].get("v_n")]
        if not idx:
            return False
        v = recs[rnd.choice(idx)]["h_dep"]["v_n"]
        v[-1] = (v[-1] + 1) % 256
        return True
    cfg = "MC_Deposits_thorough.cfg" if ctx.thorough else "MC_Deposits.cfg"
    ctx.standard("MC_Deposits", "deposits", "Trace_Deposits", n_random=20000 if ctx.thorough else 1500,
                 shards=16 if ctx.thorough else 8, corrupt=corrupt, mc_kw={"workers": 8, "cfg": cfg})


# ------------------------------------------------------------------------------- C08

@prop("C08", "scenario = offered UTxOs + previous inputs + outputs + strategy; each leaf = one complete outcome of the random "
             "choices. (a) every terminated behaviour of the L1 model MC_CoinSelection is replayed through the RNG hook; "
             "(b) for every initial state of the model and for seeded random scenarios (4 strategies, assets, fee-sized units) "
             "ALL draw scripts are enumerated depth-first on the real code; non-trivial = a leaf whose outcome the validator "
             "judged; distinct = (strategy, #offered, #previous, #added or err, #draws)")
def check_C08(ctx):
    ctx.assumptions += ["the thread RNG is replaced by the scripted RNG of rust/src/verif_hooks.rs (cfg csl_verif); gen_range(0..n) is the only RNG call of the strategies",
                        "builder inputs are read back by building a body from a clone of the builder with fee 0",
                        "minimum fee and total output are the builder's own getters (cross-checked under C06/C05)",
                        "exploration of a scenario is cut at max_leaves schedules (noted as exploration-truncated; such scenarios are not counted exhaustive)"]
    if ctx.replay:
        return ctx.run_replay()
    r = ctx.mc("MC_CoinSelection", cfg="MC_CoinSelection.cfg", workers=8)
    ctx.mc("MC_CoinSelection", cfg="MC_CoinSelection_F1.cfg", workers=8)
    scn = r.by("SCN")
    replay = [s for s in scn if s["mode"] == "replay"]
    explore = [s for s in scn if s["mode"] == "explore"]
    import random
    rnd = random.Random(ctx.seed)
    if not ctx.thorough:
        replay = rnd.sample(replay, min(len(replay), 6000))
        explore = rnd.sample(explore, min(len(explore), 120))
    p = ctx.write_scn(replay + explore)
    run = ctx.drive("select", scn=p, n=6000 if ctx.thorough else 900)

    def corrupt(recs, rnd):
        idx = [i for i, r in enumerate(recs) if r.get("ev") == "Reset" and r["utxo"]]
        if not idx:
            return False
        for i in idx:          # every offered UTxO loses a lovelace-unit: some successful leaf is no longer covered
            for u in recs[i]["utxo"]:
                v = u["value"]["coin_n"]
                if v:
                    v[0] = max(0, v[0] - 1) if len(v) > 1 else 0
        return True
    em = ctx.validate("Trace_CoinSelection", run, shards=16, corrupt=corrupt)
    if em is not None:
        ctx.extra["model_behaviours_replayed"] = len(replay)
        ctx.extra["model_behaviours_conforming"] = sum(1 for e in em if e.get("t") == "CONF")
        ctx.extra["scenarios_explored_exhaustively"] = sum(1 for e in em if e.get("t") == "EXH")
        ctx.extra["schedules_walked_on_real_code"] = sum(e.get("leaves", 0) for e in em if e.get("t") == "EXH")


# ------------------------------------------------------------------------------- builder family (C05 C06 C07 ...)

def _check_key_table(trace):
    """The key table of every Reset event maps vkey -> key hash; re-check it with hashlib (independent of the library)."""
    seen = set()
    for r in vlib.read_ndjson(trace):
        if r.get("ev") == "Reset":
            for k in r.get("keys", []):
                t = (bytes(k["vkey"]), bytes(k["hash"]))
                if t in seen:
                    continue
                seen.add(t)
                if vlib.digest("blake2b224", k["vkey"]) != k["hash"]:
                    raise ToolError("key table entry %s: hash is not blake2b-224(vkey)" % k["k"])
    return len(seen)


def _check_tables(trace):
    """Key and script tables of Reset events are library output: re-check every hash with hashlib (independent of cryptoxide)."""
    seen = set()
    for r in vlib.read_ndjson(trace):
        if r.get("ev") != "Reset":
            continue
        for k in r.get("keys", []):
            t = (bytes(k["vkey"]), bytes(k["hash"]))
            if t not in seen:
                seen.add(t)
                if vlib.digest("blake2b224", k["vkey"]) != k["hash"]:
                    raise ToolError("key table entry %s: hash is not blake2b-224(vkey)" % k["k"])
        for sc in r.get("scripts", []):
            t = (bytes(sc["bytes"]), bytes(sc["hash"]))
            if t not in seen:
                seen.add(t)
                pre = [sc["lang"]] + sc["bytes"]          # script hash = blake2b-224(language tag byte ++ script bytes)
                if vlib.digest("blake2b224", pre) != sc["hash"]:
                    raise ToolError("script table entry %s/%s: hash is not blake2b-224(tag ++ bytes)" % (sc["kind"], sc["id"]))
    return len(seen)


def _take_hashchk(ctx, em):
    """HASHCHK emits: the specification assembled a preimage from emitted bytes and names the digest found in the body;
    H is uninterpreted in TLA+, its graph is evaluated here with hashlib. A mismatch is a FAIL of that property."""
    n = 0
    for e in em:
        if e.get("t") == "HASHCHK":
            n += 1
            if vlib.digest(e["alg"], e["pre"]) != e["expect"]:
                if e.get("p") == ctx.pid:
                    ctx.verdict.add_fail(e["sig"], e.get("sc"), {"preimage_len": len(e["pre"]), "expect": e["expect"]}, ctx._replay_of(e.get("sc")) if ctx._replay_of else None)
                if ctx.selftest and e.get("p") == ctx.pid:
                    ctx.selftest_hash_fail = True
    return n


def builder_family(ctx, n_random, mc_sample, n_plutus=0, flags=(), corrupt=None, extra_scn=None):
    if ctx.replay:
        return ctx.run_replay()
    import random
    cfg = "MC_TxBuilder_thorough.cfg" if ctx.thorough else "MC_TxBuilder.cfg"
    r = ctx.mc("MC_TxBuilder", cfg=cfg, workers=8)
    scn = r.by("SCN")
    rnd = random.Random(ctx.seed)
    if mc_sample is not None and len(scn) > mc_sample:
        scn = rnd.sample(scn, mc_sample)
        ctx.exhaustive = False
        ctx.extra["model_scenarios_sampled"] = mc_sample
    if extra_scn:
        scn = scn + extra_scn
    runs = []
    if scn or n_random:
        p = ctx.write_scn(scn)
        runs.append(ctx.drive("builder", scn=p, n=n_random, flags=flags))
    if n_plutus:
        runs.append(ctx.drive("builder", n=n_plutus, flags=["--plutus"], name="builder_plutus"))
    nt = 0
    nh = 0
    for run in runs:
        nt += _check_tables(run["trace"])
        em = ctx.validate("Trace_TxBuilder", run, shards=16, corrupt=corrupt)
        if em is not None:
            tf = [e for e in em if e.get("t") == "TOOLFAIL"]
            if tf and not ctx.selftest:
                raise ToolError("harness/spec disagreement (not a verdict): %s" % json.dumps(tf[0])[:400])
            nh += _take_hashchk(ctx, em)
    ctx.extra["table_entries_rechecked_with_hashlib"] = nt
    ctx.extra["digests_evaluated_with_hashlib"] = nh
    return runs


def _corrupt_env_coin(recs, rnd):
    """negative control: one lovelace is added to every environment entry - balanced transactions stop balancing"""
    n = 0
    for r in recs:
        if r.get("ev") == "Reset":
            for u in r["utxo"]:
                v = u["value"]["coin_n"]
                if v:
                    v[-1] = (v[-1] + 1) % 256
                    n += 1
    return n > 0


def _corrupt_fee(recs, rnd):
    """negative control: protocol parameter b raised by 100000 in every scenario - the recorded fees become insufficient"""
    n = 0
    for r in recs:
        if r.get("ev") == "Reset":
            r["pp"]["b"] += 100000
            n += 1
    return n > 0


def _corrupt_cpb(recs, rnd):
    n = 0
    for r in recs:
        if r.get("ev") == "Reset":
            r["pp"]["cpb"] = r["pp"]["cpb"] * 3 + 5000
            n += 1
    return n > 0


_BUILDER_ASSUME = ["the UTxO environment of a scenario is valid ledger state: no zero quantities, inputs exist, values fit 64 bits",
                   "deposits and refunds are computed by LedgerRules.tla from the certificates in the emitted body (C20 table)",
                   "signatures are attached by the harness through FixedTransaction; the validator recomputes the required signer set "
                   "from the emitted body and the environment and aborts (exit 2) when the harness signed with a different set",
                   "key hashes of the scenario's keys are re-checked with hashlib.blake2b by the orchestrator",
                   "Plutus execution-unit and reference-script fee parts are exercised under C09/C10/C18 scenarios"]


@prop("C05", "scenario = UTxO environment + parameters + a history of builder calls ending in a balancing call and Build; all orders of "
             "<= 4 (quick) / 5 operations from MC_TxBuilder's pool plus seeded random histories (assets up to 40 per UTxO, amounts in every "
             "CBOR width class, certificates of all kinds, withdrawals, mint/burn, donation, selection strategies); non-trivial = a "
             "transaction built after balancing was reported successful, whose consumed and produced values the validator summed from "
             "the bytes; distinct = (#inputs, #outputs, cert/withdrawal/mint/donation/collateral presence, fee width)")
def check_C05(ctx):
    ctx.assumptions += _BUILDER_ASSUME
    if not ctx.replay:
        # the accounting core of the L1 model for ALL natural amounts (Apalache, inductive invariant); under --selftest a seeded slip
        # of the balancing step must be refuted
        ok, res = vlib.apalache_inductive("TxBalanceInd", os.path.join(ctx.work, "apalache"))
        log("[C05] apalache TxBalanceInd: inductive invariant IndInv %s %s" % ("holds" if ok else "FAILS", res))
        if not ok:
            raise ToolError("apalache: IndInv of spec/apalache/TxBalanceInd.tla is not inductive - the committed model is inconsistent, not a verdict about the code")
        ctx.extra["apalache_inductive_invariant"] = "TxBalanceInd.IndInv (Init => IndInv; IndInv /\\ Next => IndInv'), unbounded amounts"
        if ctx.selftest:
            bad, _ = vlib.apalache_inductive("TxBalanceIndBad", os.path.join(ctx.work, "apalache_bad"))
            log("[C05] selftest apalache variant TxBalanceIndBad refuted = %s" % (not bad))
            if bad:
                ctx.selftest_ok = False
    builder_family(ctx, n_random=20000 if ctx.thorough else 1500, mc_sample=20000 if ctx.thorough else 1200, corrupt=_corrupt_env_coin)


@prop("C06", "as C05; every built transaction is really signed (vkey and bootstrap witnesses) and the fee in the body is compared with "
             "a*len(signed bytes)+b computed by the validator; fee requests (SetFee / SetMinFee) are tracked as state; non-trivial = a "
             "signed transaction after successful balancing; distinct = (shape, #vkey witnesses, #bootstrap witnesses, fee width)")
def check_C06(ctx):
    ctx.assumptions += _BUILDER_ASSUME
    builder_family(ctx, n_random=20000 if ctx.thorough else 1200, mc_sample=20000 if ctx.thorough else 800, n_plutus=6000 if ctx.thorough else 600, corrupt=_corrupt_fee)


@prop("C07", "as C05; every output of every built transaction is checked for coin >= cpb*(160+size) and value size <= max, the signed "
             "transaction for size <= max; stand-alone min_ada_for_output calls are validated by Trace_MinAda over an output lattice; "
             "distinct = transaction shapes and output shapes")
def check_C07(ctx):
    ctx.assumptions += _BUILDER_ASSUME
    builder_family(ctx, n_random=20000 if ctx.thorough else 1500, mc_sample=20000 if ctx.thorough else 1200, n_plutus=6000 if ctx.thorough else 700, corrupt=_corrupt_cpb)


def _corrupt_collateral(recs, rnd):
    """negative control: every environment entry gains an asset nobody returns - the collateral equation breaks"""
    n = 0
    for r in recs:
        if r.get("ev") == "Reset":
            for u in r["utxo"]:
                u["value"]["assets"].append({"p": [9] * 28, "n": [1], "q_n": [1]})
                n += 1
    return n > 0


@prop("C19", "as C05 with collateral: collateral inputs (pure lovelace or asset-carrying) and one of the three helpers (explicit return "
             "with assets equal / fewer / more / different than the inputs', explicit total, percentage helper), issued before or after "
             "balancing; the collateral fields are a small state machine (unset / helper / raw / failed) in the trace spec; non-trivial = a "
             "built transaction whose collateral fields were set by a helper (equation, min-ADA, percentage checked on the bytes) or after "
             "a failed helper (neither field may be present)")
def check_C19(ctx):
    ctx.assumptions += _BUILDER_ASSUME + ["a helper that fails after collateral fields were already set by an earlier call is not judged (the statement speaks of a failed attempt leaving neither field set; only attempts from the unset state are checked)"]
    builder_family(ctx, n_random=25000 if ctx.thorough else 2500, mc_sample=None if ctx.thorough else 300, corrupt=_corrupt_collateral)


def _corrupt_redeemer_index(recs, rnd):
    """negative control: in every built transaction one redeemer index byte is bumped (map key [tag, index] or array element)"""
    n = 0
    for r in recs:
        if r.get("ev") == "Built":
            tx = r["tx"]
            # find the pattern 0x82 tag ix 0x82 (map-form key followed by the value array) and bump ix
            for i in range(len(tx) - 4):
                if tx[i] == 0x82 and tx[i + 1] in (0, 1, 2, 3) and tx[i + 2] < 0x17 and tx[i + 3] == 0x82 and tx[i + 4] in (0x18, 0x19) :
                    tx[i + 2] += 1
                    n += 1
                    break
    return n > 0


def _corrupt_sdh(recs, rnd):
    """negative control: one cost-model parameter differs (langs list of CalcScriptDataHash events is shifted) - digests no longer match"""
    n = 0
    for r in recs:
        if r.get("ev") == "Built":
            tx = r["tx"]
            for i in range(len(tx) - 34):
                if tx[i] in (0x0b, 0x07) and tx[i + 1] == 0x58 and tx[i + 2] == 0x20:      # body key 11 / key 7, bytes(32)
                    tx[i + 3] ^= 1
                    n += 1
                    break
    return n > 0


@prop("C09", "scenario = Plutus spends / mints / certificates / withdrawals / votes with witness, inline or reference scripts and datums, "
             "extra and duplicated datums, in a random order of the additions, script data hash computed last; and auxiliary data of "
             "1..60 bytes; for every built transaction TLC assembles the script-integrity preimage from the EMITTED witness set (redeemer "
             "span, datum span, language views of the versions in use, encoded by the spec) and the auxiliary-data span, hashlib evaluates "
             "Blake2b-256; distinct = (language set, #redeemers, #datums) and auxiliary sizes")
def check_C09(ctx):
    ctx.assumptions += _BUILDER_ASSUME + ["Blake2b is uninterpreted in TLA+; the digest of each spec-assembled preimage is evaluated by hashlib (HASHCHK records)",
                                          "cost models are 6-parameter vectors fixed by a rule shared with the spec; V1/V2/V3 by script id"]
    builder_family(ctx, n_random=4000 if ctx.thorough else 500, mc_sample=0, n_plutus=8000 if ctx.thorough else 900, corrupt=_corrupt_sdh)
    if ctx.replay or ctx.selftest:
        return
    # the stand-alone helpers: lattice of redeemers x datums x cost models from MC_Hashes (whose invariants check the language-view encoding itself),
    # plus auxiliary data / datum instances of the schema generator
    r = ctx.mc("MC_Hashes", cfg="MC_Hashes.cfg", workers=4, timeout=900)
    scn = r.by("SCN")
    for s in ctx.mc("MC_Codec", cfg="MC_Codec_hashes.cfg", workers=4, timeout=900).by("SCN"):
        if s.get("type") == "auxiliary_data":
            scn.append({"kind": "aux", "aux": s["bytes"]})
        elif s.get("type") == "plutus_data":
            scn.append({"kind": "pd", "pd": s["bytes"]})
    p = ctx.write_scn(scn, name="scn_hashes.ndjson")
    run = ctx.drive("hashes", scn=p, n=0)
    em = ctx.validate("Trace_Hashes", run, shards=8)
    if em is not None:
        ctx.extra["helper_digest_checks"] = _take_hashchk(ctx, em)


@prop("C10", "as C09; each script use carries a redeemer whose datum is a unique integer; TLC locates every redeemer in the emitted "
             "witness set and checks (purpose, index) against the ledger's position of the attached item: inputs sorted by (txid, index), "
             "policy ids sorted, certificate sequence, withdrawals in reward-account order, voters in the ledger's voter order, proposal sequence; pointers pairwise distinct; as many redeemers "
             "as script uses; outpoints are spread over 41 transaction ids so that sorted order differs from insertion order; distinct = "
             "sets of (purpose, expected index)")
def check_C10(ctx):
    ctx.assumptions += _BUILDER_ASSUME + ["reward-account and voter orders are the ledger's derived Ord (network / voter kind, script-hash before key-hash credential, hash bytes), transcribed in LedgerRules.tla"]
    builder_family(ctx, n_random=0, mc_sample=0, n_plutus=12000 if ctx.thorough else 1500, corrupt=_corrupt_redeemer_index)


def _corrupt_full_size(recs, rnd):
    n = 0
    for r in recs:
        if r.get("ev") == "Built" and isinstance(r.get("full_size"), dict) and r["full_size"].get("ok"):
            r["full_size"]["n"] -= 70
            n += 1
    return n > 0


@prop("C18", "as C09 plus the regular builder scenarios; for every script use TLC counts where the script is available (witness-set "
             "scripts mapped to hashes through the hashlib-checked script table, reference scripts of outputs that are among body[18] or "
             "spent) and demands exactly one; datums of spent Plutus outputs with a datum hash must be in the witness set or inline at a "
             "reference input; the builder's full_size() is bracketed by the really signed size: signed <= full_size < signed + 101; "
             "distinct = transaction shapes x witness counts")
def check_C18(ctx):
    ctx.assumptions += _BUILDER_ASSUME + ["each script id is consistently provided either by witness or by one reference UTxO within a scenario (a caller who supplies "
                                          "the same script both ways asks for two copies)",
                                          "101 bytes = one key witness [vkey(32), signature(64)] with its CBOR heads"]
    builder_family(ctx, n_random=15000 if ctx.thorough else 1200, mc_sample=None if ctx.thorough else 400, n_plutus=8000 if ctx.thorough else 900, corrupt=_corrupt_full_size)


# ------------------------------------------------------------------------------- C11

@prop("C11", "scenario = one byte string handed to the strict address parser and, embedded in a legacy and a map-form output, to the "
             "lenient path; all 256 header bytes x lengths 0..80 x 4 (quick) / 6 content fills and pointer triples over limb-boundary "
             "values in minimal / non-minimal / overflowing / unterminated / trailing encodings from MC_Address, plus seeded random "
             "Shelley addresses and Byron addresses (5 protocol magics) with envelope mutations; non-trivial = the validator classified "
             "the bytes itself and compared every reported field; distinct = (header type, length, verdict, reason)")
def check_C11(ctx):
    ctx.assumptions += ["CRC32 is uninterpreted in TLA+; Byron acceptance is decided from the spec-extracted payload and checksum evaluated by zlib.crc32 (CRCCHK records)",
                        "Bech32 / Base58 text forms are checked by round trip through the library, not predicted (DESIGN AddressText not built)",
                        "a non-minimally encoded pointer natural is neither required to be accepted nor rejected by the strict parser; embedded it must be written back unchanged"]
    if ctx.replay:
        run = ctx.run_replay()
        return
    cfg = "MC_Address_thorough.cfg" if ctx.thorough else "MC_Address.cfg"
    r = ctx.mc("MC_Address", cfg=cfg, workers=8)
    p = ctx.write_scn(r.by("SCN") + [{"bytes": a} for a in byron_recrc_addresses()])
    run = ctx.drive("address", scn=p, n=40000 if ctx.thorough else 4000)

    def corrupt(recs, rnd):
        idx = [i for i, r in enumerate(recs) if isinstance(r.get("strict"), dict) and r["strict"].get("ok") and "net" in r["strict"]]
        if not idx:
            return False
        for i in idx[:50]:
            recs[i]["strict"]["net"] = (recs[i]["strict"]["net"] + 1) % 16
        return True
    em = ctx.validate("Trace_Address", run, shards=16, corrupt=corrupt)
    if em is not None and not ctx.selftest:
        import zlib
        n = 0
        for e in em:
            if e.get("t") == "CRCCHK":
                n += 1
                crc_ok = list(zlib.crc32(bytes(e["pre"])).to_bytes(4, "big")) == e["crc"]
                if e["accepted"] and not crc_ok:
                    ctx.verdict.add_fail("Strict/byron-accepted-with-wrong-checksum", e["sc"], {"addr": e["addr"]}, ctx._replay_of(e["sc"]))
                if crc_ok and e.get("known", True) and not e["accepted"]:
                    ctx.verdict.add_fail("Strict/byron-rejected-valid-address", e["sc"], {"addr": e["addr"]}, ctx._replay_of(e["sc"]))
        ctx.extra["byron_checksums_evaluated_with_zlib"] = n


# ------------------------------------------------------------------------------- C13

@prop("C13", "scenario = (a) every UTxO set of <= 3 outputs over three assets in two policies and three lovelace levels from MC_SendAll (TLC "
             "checks Partition / TxOk / Bookkeeping on the L1 model of the categorizer for every candidate order), under four limit classes, "
             "sampled in the quick tier; (b) a random UTxO set (1-60 entries; pure ADA, up to 4 policies, up to 30 assets per entry, 32-byte names, shared asset ids whose "
             "summed quantities cross CBOR width boundaries, dust, Byron / pointer / base / enterprise owners with shared keys, empty-but-present "
             "asset bundles) + target address + parameters (cpb 1..34482, max value 150..5000, max tx 1000..16384); every transaction of the "
             "returned batch is really signed; non-trivial = a successful batch judged on all obligations; distinct = (#utxos, #transactions, "
             "inputs/outputs per transaction)")
def check_C13(ctx):
    ctx.assumptions += ["mock witnesses of the returned transactions are replaced by real signatures over the returned body (FixedTransaction::new_from_body_bytes)",
                        "the required signer set (payment keys / Byron addresses of the spent outputs) is recomputed by the validator; a harness that signs otherwise is a tool error",
                        "L1 model of the greedy categorizer (spec/sys/SendAll.tla) with abstract sizes: TLC checks Partition / TxOk / Bookkeeping on every order in which the "
                        "HashSet-held candidates can be tried, for every UTxO set of <= 3 outputs; each of its initial states is replayed on the real create_send_all under "
                        "four limit classes; the number of transactions the real code returns is not compared with the model (sizes are abstract)"]
    if ctx.replay:
        ctx.run_replay()
        return
    import random
    ctx.exhaustive = False
    scn = []
    for cfg in ("MC_SendAll.cfg", "MC_SendAll_tight.cfg"):
        r = ctx.mc("MC_SendAll", cfg=cfg, workers=8, timeout=1500)
        scn += r.by("SCN")
    if ctx.selftest:
        # the seeded slips of the model must each violate an invariant (the invariants are not vacuous)
        for v in ("topup-stays-free", "asset-placed-again", "size-before-topup"):
            r = vlib.tlc("MC_SendAll", cfg="MC_SendAll_%s.cfg" % v, workdir=os.path.join(ctx.work, "mc_L1_" + v), workers=4, timeout=900)
            log("[C13] selftest model variant %s: invariant violated = %s" % (v, r.invariant_violated))
            if not r.invariant_violated:
                ctx.selftest_ok = False
    # both configurations emit the same UTxO sets: keep one copy of each (scenario = UTxO set x limit class)
    seen = set()
    uniq = []
    for x in scn:
        k = json.dumps([x["pp"], x["utxo"]], sort_keys=True)
        if k not in seen:
            seen.add(k)
            uniq.append(x)
    rnd = random.Random(ctx.seed)
    want = 8000 if ctx.thorough else 1500
    if len(uniq) > want:
        uniq = rnd.sample(uniq, want)
        ctx.extra["model_scenarios_sampled"] = want
    run = ctx.drive("sendall", scn=ctx.write_scn(uniq), n=12000 if ctx.thorough else 1200)
    _check_tables(run["trace"])

    def corrupt(recs, rnd):
        n = 0
        for r in recs:
            if r.get("ev") == "Reset" and r["utxo"]:
                r["utxo"].append({"txid": [250] * 32, "ix": 9, "addr": r["utxo"][0]["addr"], "value": {"coin_n": [1], "assets": [], "ma": False}})
                n += 1
        return n > 0
    em = ctx.validate("Trace_SendAll", run, shards=16, corrupt=corrupt)
    if em is not None and not ctx.selftest:
        tf = [e for e in em if e.get("t") == "TOOLFAIL"]
        if tf:
            raise ToolError("harness/spec disagreement (not a verdict): %s" % json.dumps(tf[0])[:400])


# ------------------------------------------------------------------------------- C16

@prop("C16", "(a) every arrival history of MC_DedupSets (constructor list of <= 3 elements through new / tagged CBOR / untagged CBOR / JSON, "
             "then <= 2..5 add() calls, 3 distinct elements) on 7 set types + 3 witness-set setters, plus random longer histories; (b) all "
             "24 orders of four asset names of lengths 0,1,1,2 under two policies, and random bundles, through MultiAsset, MintBuilder and "
             "the builder's mint field; (c) Build;Build on builder scenarios incl. Plutus ones with several reference inputs, and no datum / "
             "script twice in a built witness set; distinct = (type, path, |init|, |adds|, |distinct|), name-length orders, transaction shapes")
def check_C16(ctx):
    ctx.assumptions += ["two builds are compared inside one process and one builder instance (each HashMap/HashSet instance has its own random state, which is what made the reference inputs differ)",
                        "JSON arrival is the container's from_json over an array of the elements' own JSON forms"]
    if ctx.replay:
        ctx.run_replay()
        return
    r = ctx.mc("MC_DedupSets", workers=4)
    p = ctx.write_scn(r.by("SCN"))
    run = ctx.drive("sets", scn=p, n=6000 if ctx.thorough else 600)

    def corrupt(recs, rnd):
        n = 0
        for r in recs:
            # negative control: the recorded constructor list loses its first element - the serialized order no longer matches
            if r.get("ev") == "Set" and isinstance(r.get("r"), dict) and r["r"].get("ok") and len(set(r["init"])) >= 2:
                r["init"] = r["init"][1:] + r["init"][:1]
                n += 1
        return n > 0
    ctx.validate("Trace_DedupSets", run, shards=16, corrupt=corrupt)
    if not ctx.selftest:
        builder_family(ctx, n_random=6000 if ctx.thorough else 600, mc_sample=None if ctx.thorough else 300, n_plutus=6000 if ctx.thorough else 700)


# ------------------------------------------------------------------------------- C04

@prop("C04", "scenario = a transaction in one encoding + an add-signature history: 8 witness-set variants (each key absent / present / "
             "present-but-empty) x all histories of <= 2 (quick) / 3 operations over {vkey 1, vkey 2, bootstrap 1}, and every single "
             "non-canonical encoding choice (Encodings!Deviations: wider heads, indefinite containers, chunked strings, swapped / duplicated "
             "map entries, dropped set tags) of two transactions with auxiliary data x 4 histories; plus random Plutus datums in non-canonical "
             "encodings; non-trivial = an accepted encoding whose serialization TLC compared span by span; distinct = (deviation, length) / "
             "(operation kind, touched keys, added counts) / datum shapes")
def check_C04(ctx):
    ctx.assumptions += ["Blake2b-256 is uninterpreted in TLA+; hashlib evaluates it on the spec-extracted original body span / datum bytes",
                        "added witnesses are recomputed by the harness with make_vkey_witness / make_icarus_bootstrap_witness over the reported hash (Ed25519 is deterministic)",
                        "elements of a TOUCHED key-witness field are compared as data (the statement protects untouched fields byte for byte)",
                        "read-only views (FixedTransactionBody alone, inside FixedBlock / FixedVersionedBlock): original bytes = span in the input, hash = H(span); FixedBlock.block_hash() is not judged (no listed property speaks about it)"]
    if ctx.replay:
        run = ctx.run_replay()
        return
    # L1: the cache / collection state machine of the byte-preserving witness set satisfies L0 on the model (spec/sys/FixedTx.tla);
    # under --selftest the seeded variants of the model must each violate an invariant (the invariants are not vacuous)
    ctx.mc("MC_FixedTxL1", cfg="MC_FixedTxL1_thorough.cfg" if ctx.thorough else "MC_FixedTxL1.cfg", workers=8, timeout=1500)
    if ctx.selftest:
        for v in ("invalidate-other-cache", "length-from-collections", "no-dedup"):
            r = vlib.tlc("MC_FixedTxL1", cfg="MC_FixedTxL1_%s.cfg" % v, workdir=os.path.join(ctx.work, "mc_L1_" + v), workers=4, timeout=900)
            log("[C04] selftest model variant %s: invariant violated = %s" % (v, r.invariant_violated))
            if not r.invariant_violated:
                ctx.selftest_ok = False
    cfg = "MC_FixedTx_thorough.cfg" if ctx.thorough else "MC_FixedTx.cfg"
    r = ctx.mc("MC_FixedTx", cfg=cfg, workers=8)
    p = ctx.write_scn(r.by("SCN"))
    run = ctx.drive("fixedtx", scn=p, n=30000 if ctx.thorough else 3000)

    def corrupt(recs, rnd):
        n = 0
        for r in recs:
            if r.get("ev") == "Load" and isinstance(r.get("r"), dict) and r["r"].get("ok"):
                b = r["r"]["bytes"]
                b[10] ^= 1          # one byte inside the body span of the serialization
                n += 1
        return n > 0
    em = ctx.validate("Trace_FixedTx", run, shards=16, corrupt=corrupt)
    if em is not None and not ctx.selftest:
        ctx.extra["digests_evaluated_with_hashlib"] = _take_hashchk(ctx, em)


# ------------------------------------------------------------------------------- C01 C02 C03 (wire format family)


def _cbor_head(mt, n):
    if n < 24:
        return bytes([mt * 32 + n])
    if n < 256:
        return bytes([mt * 32 + 24, n])
    if n < 65536:
        return bytes([mt * 32 + 25]) + n.to_bytes(2, "big")
    return bytes([mt * 32 + 26]) + n.to_bytes(4, "big")


def byron_recrc_addresses():
    """Byron addresses whose PAYLOAD is structurally off (root hash of another length, odd attribute maps, other types, other
    arities) but whose CRC-32 is right - a plain mutation of a valid address never gets past the checksum. The checksum is
    computed here (zlib) only to MAKE inputs; what the parsers must do with them is decided by the specification."""
    import zlib
    out = []
    bstr = lambda b: _cbor_head(2, len(b)) + b
    attrs = [b"\xa0", b"\xa1\x01" + bstr(bytes(range(28))), b"\xa1\x02" + bstr(b"\x1a\x41\x70\xcb\x17"),
             b"\xa2\x01" + bstr(bytes(range(28))) + b"\x02" + bstr(b"\x1a\x41\x70\xcb\x17"), b"\xa1\x03\x00", b"\xa1\x01\x00", b"\x80", b"\xa1\x02" + bstr(b"\xff")]
    for rl in (0, 1, 27, 28, 29, 32, 64):
        for at in attrs:
            for ty in (b"\x00", b"\x01", b"\x02", b"\x03", b"\x18\x18", b"\x20", b"\x40"):
                for arity in (3, 2, 4):
                    items = [bstr(bytes([7]) * rl), at, ty][:arity] + ([b"\x00"] if arity == 4 else [])
                    payload = _cbor_head(4, arity) + b"".join(items)
                    crc = zlib.crc32(payload) & 0xffffffff
                    out.append(list(b"\x82\xd8\x18" + bstr(payload) + _cbor_head(0, crc)))
    # a valid payload in envelopes that only LOOK like a Byron address: the outer array announced in a longer head form (the first byte
    # is then 0x98..0x9b / 0x9f - not a Byron header), and a checksum field wider than 32 bits whose LOW word is the right CRC
    for k in (1, 2, 3):
        payload = b"\x83" + bstr(bytes([k]) * 28) + b"\xa0\x00"
        crc = zlib.crc32(payload) & 0xffffffff
        inner = b"\xd8\x18" + bstr(payload)
        for head, tail in ((b"\x98\x02", b""), (b"\x99\x00\x02", b""), (b"\x9a\x00\x00\x00\x02", b""), (b"\x9b" + (2).to_bytes(8, "big"), b""), (b"\x9f", b"\xff")):
            out.append(list(head + inner + _cbor_head(0, crc) + tail))
        for hi in (1, 0x80000000, 0xffffffff):
            out.append(list(b"\x82" + inner + b"\x1b" + hi.to_bytes(4, "big") + crc.to_bytes(4, "big")))
        # (the same inside an output: an embedded address that is not valid must be kept verbatim)
    # well-formed ordinary addresses whose checksum is a SMALL number (encodes in fewer bytes than the usual 5): found by search
    for bound, want in ((1 << 16, 3), (1 << 8, 1)):
        found, k = 0, 0
        while found < want and k < 6_000_000:
            payload = b"\x83" + bstr(k.to_bytes(28, "big")) + b"\xa0\x00"
            crc = zlib.crc32(payload) & 0xffffffff
            if crc < bound:
                out.append(list(b"\x82\xd8\x18" + bstr(payload) + _cbor_head(0, crc)))
                found += 1
            k += 1
    return out

HANG_S = 25


def _drive_parse(ctx, scn_path, n_text, short):
    """Run the parse driver; when a decoder kills the process (abort), record that outcome for the pending input and restart
    the driver right after it. Returns a run dict with the merged trace."""
    trace = os.path.join(ctx.work, "trace_parse.ndjson")
    dump = os.path.join(ctx.work, "dump_parse.ndjson")
    pending = os.path.join(ctx.work, "pending.json")
    resume = "0:0"
    aborts = 0
    open(trace, "w").close()
    import subprocess
    while True:
        part = trace + ".part"
        args = [vlib.BIN, "parse", "--seed", str(ctx.seed), "--n", str(n_text), "--dump", dump, "--scn", scn_path, "--pending", pending, "--resume", resume]
        if short:
            args.append("--short")
        # watchdog: a parser that does not return is not total either. The driver notes every input in the pending file before
        # the call; when that file stays the same for HANG_S seconds the process is killed and the input recorded as "hang".
        hung = False
        with open(part, "wb") as fo, open(part + ".err", "wb") as fe:
            pr = subprocess.Popen(args, stdout=fo, stderr=fe, env=dict(os.environ, RUST_BACKTRACE="0"))
            last, since = None, time.time()
            while True:
                try:
                    pr.wait(timeout=2)
                    break
                except subprocess.TimeoutExpired:
                    try:
                        cur = open(pending).read()
                    except Exception:
                        cur = None
                    if cur != last:
                        last, since = cur, time.time()
                    elif time.time() - since > HANG_S:
                        pr.kill()
                        pr.wait()
                        hung = True
                        break

        class _P:                      # what the code below reads from a finished process
            returncode = -9 if hung else pr.returncode
            stderr = (b"no progress for %d s (hang)" % HANG_S) if hung else open(part + ".err", "rb").read()
        p = _P
        recs = []
        for line in open(part, errors="replace"):
            try:
                recs.append(json.loads(line))
            except Exception:
                pass                      # a line cut by the abort
        if p.returncode == 0:
            with open(trace, "a") as f:
                for r in recs:
                    f.write(json.dumps(r, separators=(",", ":")) + "\n")
            break
        if p.returncode in (-6, 134, -9, 137, -11, 139) and os.path.exists(pending):
            pend = json.load(open(pending))
            if hung and getattr(ctx, "_last_hung", None) == (pend["sc"], pend["idx"]):
                raise ToolError("parse driver hangs outside a noted call (after input sc=%s idx=%s)" % (pend["sc"], pend["idx"]))
            if hung:
                ctx._last_hung = (pend["sc"], pend["idx"])
            aborts += 1
            if aborts > 5000:
                raise ToolError("parse driver: more than 5000 process deaths")
            with open(trace, "a") as f:
                for r in recs:
                    if r.get("ev") != "ParseBatch":
                        f.write(json.dumps(r, separators=(",", ":")) + "\n")
                f.write(json.dumps({"ev": "Codec", "sc": pend["sc"], "type": pend["type"], "in": pend["in"], "mut": pend["mut"],
                                    "r": {"hang" if hung else "abort": "process killed (rc %d): %s" % (p.returncode, p.stderr.decode(errors="replace")[:80].replace('"', ""))}}, separators=(",", ":")) + "\n")
            resume = "%d:%d" % (pend["sc"], pend["idx"])
            continue
        raise ToolError("parse driver failed rc=%s: %s" % (p.returncode, p.stderr.decode(errors="replace")[-400:]))
    ctx.extra["process_deaths_observed"] = aborts
    return {"driver": "parse", "flags": ["--short"] if short else [], "trace": trace, "dump": dump}


def _corrupt_codec(recs, rnd):
    n = 0
    for r in recs:
        if r.get("ev") == "Codec" and isinstance(r.get("r"), dict) and r["r"].get("ok") and isinstance(r["r"].get("rt"), dict) and r["r"]["rt"].get("ok"):
            tb = r["r"]["rt"]["to_bytes"]
            if tb.get("ok") and tb["b"]:
                tb["b"][-1] ^= 1
                n += 1
    return n > 0


def _codec_instances(ctx):
    cfg = "MC_Codec_thorough.cfg" if ctx.thorough else "MC_Codec.cfg"
    r = ctx.mc("MC_Codec", cfg=cfg, workers=8, timeout=1800)
    return r.by("SCN")


def _built_transactions(ctx, n_regular, n_plutus):
    """real transactions produced by the builder, handed to the codec as further instances"""
    out = []
    for flags, n, name in (((), n_regular, "b1"), (("--plutus",), n_plutus, "b2")):
        run = ctx.drive("builder", n=n, flags=list(flags), name="codecsrc_" + name)
        for r in vlib.read_ndjson(run["trace"]):
            if r.get("ev") == "Built":
                out.append({"type": "transaction", "bytes": r["tx"]})
                if isinstance(r.get("signed"), dict) and r["signed"].get("ok"):
                    out.append({"type": "transaction", "bytes": r["signed"]["bytes"]})
    return out


@prop("C01", "scenario = one typed value obtained by decoding a schema instance: every each-choice instance (one variant / optional field / "
             "integer width class / collection size class differing from the default, schema depth 3 quick / 5 thorough) of 20 typed schemas "
             "generated by TLC from ConwaySchema (and checked on the model to conform to the schema), plus the transactions the real builder "
             "produced; decoded, re-encoded, decoded again, through bytes and hex; distinct = (type, top-level shape, length)")
def check_C01(ctx):
    ctx.assumptions += ["values are obtained by decoding spec-generated instances and builder output (DESIGN route (a)) and, for Plutus data, metadata, native scripts, values, "
                        "outputs and a few more types, by construct-first scripts through the typed API (route (b), harness codec --construct); route (b) does not cover every type",
                        "a generated instance the decoder refuses is noted (generated-instance-not-accepted), not failed: the statement is about values the API can build",
                        "equality is the library's PartialEq plus byte identity of the re-encoding, both checked by the validator"]
    if ctx.replay:
        ctx.run_replay()
        return
    scn = _codec_instances(ctx) + _built_transactions(ctx, 2000 if ctx.thorough else 250, 1500 if ctx.thorough else 200)
    p = ctx.write_scn(scn)
    run = ctx.drive("codec", scn=p, n=0, flags=["--construct"])
    ctx.validate("Trace_Codec", run, shards=16, corrupt=_corrupt_codec)


@prop("C02", "scenario = one parser call on malformed input: (a) every single structural mutation (truncation at item boundaries and inside "
             "heads, each bit of each head byte, every additional-info value, declared lengths 0..2^64-1, every other major type, specials / "
             "breaks / tags inserted or wrapped, duplicated / dropped items, definite->indefinite) at every node of ~500 (quick) schema "
             "instances, node spans from the TLA+ parser; (b) ALL inputs of length <= 2 for 30 byte decoders and a grid for 17 byte entry "
             "points; (c) ~45 malformed variants of a valid form for 42 text entry points (hex, Bech32, Base58, decimal, JSON, schema JSON); "
             "Err outcomes are counted, every Ok (re-serialization must be well-formed CBOR) and Panic / Abort is judged; distinct = "
             "(kind, type/entry, outcome classes)")
def check_C02(ctx):
    ctx.assumptions += ["nesting depth of generated input is below 256 (stack exhaustion on deeper input is not decided)",
                        "a process death (abort on allocation) is observed by the orchestrator through a pending-input side file and recorded as outcome 'abort'",
                        "mutation operators are applied by the harness at node spans computed by CBOR.tla (MC_Mutate); they are not TLA+ actions"]
    if ctx.replay:
        ctx.run_replay()
        return
    cfg = "MC_Mutate_thorough.cfg" if ctx.thorough else "MC_Mutate.cfg"
    r = ctx.mc("MC_Mutate", cfg=cfg, workers=8, timeout=1800)
    scn = r.by("SCN")
    for a in byron_recrc_addresses():
        scn.append({"kind": "raw", "type": "address", "bytes": a})
        scn.append({"kind": "raw", "type": "output", "bytes": list(b"\x82" + _cbor_head(2, len(a)) + bytes(a) + b"\x01")})
    # deep (but < 256) nesting: each level is decoded once - a decoder whose cost doubles per level does not come back
    key = b"\x82\x00\x58\x1c" + bytes([7]) * 28
    for d in (8, 24, 48, 100, 200):
        for kind in (1, 2):
            scn.append({"kind": "raw", "type": "native_script", "bytes": list((b"\x82" + bytes([kind]) + b"\x81") * d + key)})
        scn.append({"kind": "raw", "type": "native_script", "bytes": list((b"\x83\x03\x01\x81") * d + key)})
        scn.append({"kind": "raw", "type": "plutus_data", "bytes": list(b"\x81" * d + b"\x01")})
        scn.append({"kind": "raw", "type": "plutus_data", "bytes": list(b"\x9f" * d + b"\x01" + b"\xff" * d)})
        scn.append({"kind": "raw", "type": "plutus_data", "bytes": list(b"\xd8\x79\x81" * d + b"\x01")})
        scn.append({"kind": "raw", "type": "plutus_data", "bytes": list(b"\xa1\x01" * d + b"\x01")})
        scn.append({"kind": "raw", "type": "metadatum", "bytes": list(b"\x81" * d + b"\x01")})
        scn.append({"kind": "raw", "type": "metadatum", "bytes": list(b"\xa1\x01" * d + b"\x01")})
    p = ctx.write_scn(scn)
    run = _drive_parse(ctx, p, n_text=12 if ctx.thorough else 3, short=True)

    def corrupt(recs, rnd):
        n = 0
        for r in recs:
            if r.get("ev") == "Codec" and isinstance(r.get("r"), dict) and r["r"].get("ok") and r["r"].get("to_bytes"):
                r["r"]["to_bytes"] = r["r"]["to_bytes"][:-1] + [0x9f]        # dangling indefinite array: not well-formed
                n += 1
                if n > 50:
                    break
        return n > 0
    em = ctx.validate("Trace_Codec", run, shards=16, corrupt=corrupt)
    if em is not None and not ctx.selftest:
        tf = [e for e in em if e.get("t") == "TOOLFAIL"]
        if tf:
            raise ToolError("harness problem (not a verdict): %s" % json.dumps(tf[0])[:300])
        tot = {}
        for e in em:
            if e.get("t") == "BATCH":
                for k in ("tried", "err", "ok", "panic"):
                    tot[e["kind"] + "_" + k] = tot.get(e["kind"] + "_" + k, 0) + e[k]
        ctx.extra["parser_calls"] = tot
        ctx.events += sum(v for k, v in tot.items() if k.endswith("_tried"))


@prop("C03", "scenario = one emitted byte string: every transaction built (and signed) by the builder / Plutus / send-all drivers, and the "
             "serialization of every typed value decoded from an each-choice schema instance; validated by TLC against ConwaySchema in the "
             "write profile (map keys, arities, tags, ranges, sizes, shortest definite heads except Plutus lists / bounded bytes, tag 258 and "
             "distinct elements on sets, canonical asset-map order, positive quantities); distinct = (type, source, shape)")
def check_C03(ctx):
    ctx.assumptions += ["the Conway CDDL is transcribed from memory (DESIGN 5.2); constraints marked UNSURE in ConwaySchema.tla are permissive: governance action bodies, "
                        "protocol parameter update (body key 6)",
                        "decoded values that keep a non-canonical original encoding are excluded: the instances are generated in the canonical write form",
                        "set_donation(0) (positive_coin) is reachable only through a raw setter and is not exercised"]
    if ctx.replay:
        ctx.run_replay()
        return
    runs = [ctx.drive("builder", n=3000 if ctx.thorough else 500, name="emit_builder"),
            ctx.drive("builder", n=2500 if ctx.thorough else 400, flags=["--plutus"], name="emit_plutus"),
            ctx.drive("sendall", n=1500 if ctx.thorough else 200, name="emit_sendall")]

    def corrupt(recs, rnd):
        n = 0
        for r in recs:
            txs = [r["tx"]] if r.get("ev") == "Built" else [t["tx"] for t in r.get("txs", [])] if r.get("ev") == "Batch" else []
            for tx in txs:
                for i in range(len(tx) - 3):
                    if tx[i] == 0xd9 and tx[i + 1] == 1 and tx[i + 2] == 2:       # first set tag 258 -> 259
                        tx[i + 2] = 3
                        n += 1
                        break
        return n > 0
    for run in runs:
        ctx.validate("Trace_Emit", run, shards=16, corrupt=corrupt)
    if not ctx.selftest:
        p = ctx.write_scn(_codec_instances(ctx))
        run = ctx.drive("codec", scn=p, n=0, flags=["--construct"])
        ctx.validate("Trace_Codec", run, shards=16)


@prop("C17", "scenario = one typed value (JSON form round trip, decoded from an each-choice schema instance and classified by the 'fresh' profile of the "
             "schema interpreter) or one metadata / datum / JSON tree or byte string converted under one schema and back; trees: the bounded universe "
             "of MC_MetadataJson (each-choice over leaf classes: integer edges, text plain / hex-looking / numeric-looking / 64 bytes / multi-byte, "
             "bytes 0 / 64 / non-UTF-8 / control, containers to depth 2, documents inside, outside and in non-normal form of every schema) plus "
             "seeded random trees to depth 3; distinct = (conversion, schema, outcome class, normal-form / ascending flag)")
def check_C17(ctx):
    ctx.assumptions += ["JSON documents cross the trace boundary as tagged trees produced by the harness with serde_json (the same parser the library uses); the JSON text syntax itself is not under test",
                        "documents with duplicate member names are not generated (serde_json keeps the last)",
                        "generic JSON part: the demand depends on the class the specification assigns to the instance (fresh / retained encoding detail / unsupported content), see Trace_Codec.tla"]
    if ctx.replay:
        ctx.run_replay()
        return
    r = ctx.mc("MC_MetadataJson", cfg="MC_MetadataJson.cfg", workers=8, timeout=1800)
    p = ctx.write_scn(r.by("SCN"))
    run = ctx.drive("json", scn=p, n=20000 if ctx.thorough else 2500)

    def corrupt(recs, rnd):
        n = 0
        for r in recs:
            if r.get("ev") == "MdEnc" and isinstance(r.get("r"), dict) and r["r"].get("ok") and r["r"]["md"] and r["r"]["md"][0] < 0x18:
                r["r"]["md"][0] ^= 1          # another small integer
                n += 1
        return n > 0
    em = ctx.validate("Trace_MetadataJson", run, shards=16, corrupt=corrupt)
    if em is not None and not ctx.selftest:
        tf = [e for e in em if e.get("t") == "TOOLFAIL"]
        if tf:
            raise ToolError("harness / specification problem (not a verdict): %s" % json.dumps(tf[0])[:300])
    if not ctx.selftest:
        p = ctx.write_scn(_codec_instances(ctx), name="scn_codec.ndjson")
        run = ctx.drive("codec", scn=p, n=0, flags=["--construct"], name="codec")
        ctx.validate("Trace_Codec", run, shards=16)


@prop("C12", "scenario = one list of key operations over registers: every derivation path of depth <= 3 (thorough 4) over the index lattice {0, 1, 2^31-1, 2^31, 2^31+1, "
             "2^32-1} walked along every route (switch to the public side at every level), the 4 keys x 4 messages sign / verify matrix (256 verifications), every "
             "encoding of every key / signature kind, the password container lattice (8 password lengths around the SHA-256 / SHA-512 block sizes x 3 plaintext "
             "lengths x right / HMAC-equivalent / other passwords x damaged containers), plus seeded random paths to depth 6, matrices and containers; "
             "distinct = (operation, kind, law instance flags)")
def check_C12(ctx):
    ctx.assumptions += ["the primitives are uninterpreted: that signatures are RFC 8032 Ed25519 and the container is PBKDF2-HMAC-SHA512 / ChaCha20-Poly1305 per EMIP-3 is NOT decided; "
                        "a defect symmetric in sign and verify, or in encrypt and decrypt, is invisible",
                        "'another password' means another HMAC key: a password and the same password followed by zero bytes, and a password longer than 128 bytes and its SHA-512, "
                        "are the same key by construction of HMAC (SHA-512 of passwords is evaluated by hashlib, not by the harness)",
                        "keys are rebuilt from their bytes for every operation (the key types are not Clone), so from_bytes / as_bytes take part in every step"]
    if ctx.replay:
        ctx.run_replay()
        return
    cfg = "MC_KeyAlgebra_thorough.cfg" if ctx.thorough else "MC_KeyAlgebra.cfg"
    r = ctx.mc("MC_KeyAlgebra", cfg=cfg, workers=8, timeout=1800)
    p = ctx.write_scn(r.by("SCN"))
    run = ctx.drive("keys", scn=p, n=6000 if ctx.thorough else 600)

    def corrupt(recs, rnd):
        n = 0
        for r in recs:
            if r.get("ev") == "Key" and r["op"]["op"] == "dpub" and isinstance(r.get("r"), dict) and r["r"].get("ok"):
                r["r"]["b"][5] ^= 1
                n += 1
        return n > 0
    em = ctx.validate("Trace_KeyAlgebra", run, shards=16, corrupt=corrupt)
    if em is not None:
        tf = [e for e in em if e.get("t") == "TOOLFAIL"]
        if tf and not ctx.selftest:
            raise ToolError("harness / specification problem (not a verdict): %s" % json.dumps(tf[0])[:300])
        n = _take_hashchk(ctx, em)
        ctx.extra["digest_checks"] = n
