---- MODULE Trace_Emit ----
(* C03 trace validator: Emit(type, bytes) is enabled iff the bytes parse as well-formed  *)
(* CBOR and conform to the schema node of that type in the "write" profile. For builder  *)
(* output additionally: no zero quantity and no empty policy bundle in any output value  *)
(* (implied by the schema: positive_coin, non-empty inner tables).                       *)
EXTENDS ConwaySchema, TraceLib
VARIABLE l
P == "C03"
RECURSIVE PathStr(_,_)
PathStr(p, i) == IF i >= Len(p) THEN "" ELSE (IF i > 1 THEN "/" ELSE "") \o ToString(p[i]) \o PathStr(p, i + 1)
Check(ty, bytes, sc, src) ==
  LET it == Parse(bytes) IN
  IF IsErr(it) THEN Fail(P, "Emit/" \o ty \o "/not-well-formed-cbor/" \o it.why, sc, [src |-> src, bytes |-> bytes])
  ELSE LET r == Conforms(Schema, ty, it, "write") IN
       /\ Obl(P, sc, <<ty, src, it.mt, Len(it.kids)>>)
       /\ IF r = OK THEN TRUE ELSE Fail(P, "Emit/" \o ty \o "/" \o r[Len(r)], sc, [path |-> PathStr(r, 1), src |-> src])
Init == l = 1
Next == /\ l <= Len(Rec)
        /\ LET e == Rec[l] IN
           CASE e.ev = "Built" -> Check("transaction", e.tx, e.sc, "builder") /\ (Has(e.signed, "ok") => Check("transaction", e.signed.bytes, e.sc, "builder-signed"))
             [] e.ev = "Batch" -> \A i \in 1..Len(e.txs) : Check("transaction", e.txs[i].tx, e.sc, "send-all")
             [] e.ev = "Emit" -> Check(e.type, e.bytes, e.sc, "typed-api")
             [] OTHER -> TRUE
        /\ (l = Len(Rec) => Done(l))
        /\ l' = l + 1
====
