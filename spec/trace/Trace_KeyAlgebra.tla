---- MODULE Trace_KeyAlgebra ----
(* C12 trace specification. State: the registers of the running scenario (term + bytes of   *)
(* every operation result) and `known`, the denotation observed so far (set of term/bytes     *)
(* pairs). Every event is one public API call; the action computes the term of its result     *)
(* with KeyAlgebra!Apply and checks the laws against the logged outcome. Digests (SHA-512 of   *)
(* passwords, Blake2b-224 of public keys) are uninterpreted here: HASHCHK lines are evaluated  *)
(* by the orchestrator with hashlib.                                                          *)
EXTENDS KeyAlgebra, TraceLib
VARIABLES l, regs, known, cur
None == [term |-> ERR, b |-> <<>>]
P == "C12"
Lookup(kn, term) == {x \in kn : x.term = term}
BytesOf(kn, term) == (CHOOSE x \in Lookup(kn, term) : TRUE).b
HashChk(alg, pre, expect, sc) == Emit([t |-> "HASHCHK", p |-> P, alg |-> alg, pre |-> pre, expect |-> expect, sig |-> "Key/" \o alg \o "-differs", sc |-> sc])
\* known-or-register comparison of a value that denotes `term`
Agrees(kn, term, b) == \A x \in Lookup(kn, term) : x.b = b
Outcome(r) == IF Has(r, "panic") THEN "panic" ELSE IF Has(r, "ok") THEN "ok" ELSE "err"
Step(e, rg, kn) ==
  LET op == e.op name == op.op sc == e.sc r == e.r o == Outcome(r)
      a == IF Has(op, "a") /\ op.a >= 1 /\ op.a <= Len(rg) THEN rg[op.a] ELSE None IN
  IF name \in Producing THEN
     LET term == Apply(op, a.term) IN
     IF term = ERR THEN
        /\ Obl(P, sc, <<name, "refusal-required">>)
        /\ Chk(o = "err", P, "Key/" \o name \o "/" \o (IF name = "dpub" THEN "hardened-derivation-from-public-key-not-refused" ELSE "operation-on-wrong-kind-not-refused"), sc, [op |-> op, r |-> r])
        /\ regs' = Append(rg, None) /\ known' = kn
     \* importing bytes may be refused (not every bit pattern is an extended key): no demand then
     ELSE IF name = "tweak" /\ o = "err" THEN Note(P, "imported key bytes refused", sc, [op |-> op]) /\ regs' = Append(rg, None) /\ known' = kn
     ELSE IF o # "ok" THEN Fail(P, "Key/" \o name \o "/" \o o, sc, [op |-> op, r |-> r]) /\ regs' = Append(rg, None) /\ known' = kn
     ELSE LET b == r.b IN
          /\ Obl(P, sc, <<name, Kind(term), Lookup(kn, term) # {}>>)
          /\ Chk(Len(b) = ByteLen(term), P, "Key/" \o name \o "/length", sc, [op |-> op, len |-> Len(b)])
          /\ Chk(Agrees(kn, term, b), P, "Key/" \o name \o "/two-routes-to-one-key-give-different-bytes", sc, [op |-> op, got |-> b])
          /\ Chk(\A x \in kn : (x.b = b /\ Kind(x.term) = Kind(term)) => x.term = term, P, "Key/" \o name \o "/distinct-terms-same-bytes", sc, [op |-> op, got |-> b])
          \* layouts
          /\ (name = "raw" => Chk(b = Sub(a.b, 1, 64), P, "Key/raw/not-the-first-64-bytes-of-the-extended-key", sc, [op |-> op]))
          /\ (name = "rawpub" => Chk(b = Sub(a.b, 1, 32), P, "Key/rawpub/not-the-first-32-bytes-of-the-extended-public-key", sc, [op |-> op]))
          /\ (name = "pub" => Chk(Len(b) = 64 /\ Sub(b, 33, 64) = Sub(a.b, 65, 96), P, "Key/pub/chain-code-differs", sc, [op |-> op]))
          /\ regs' = Append(rg, [term |-> term, b |-> b]) /\ known' = kn \cup {[term |-> term, b |-> b]}
  ELSE
  /\ known' = kn
  /\ CASE name = "verify" ->
          LET sg == IF op.s >= 1 /\ op.s <= Len(rg) THEN rg[op.s] ELSE None
              want == VerifyExpected(a.term, op.m, sg.term) IN
          /\ regs' = Append(rg, None)
          /\ Obl(P, sc, <<"verify", want, a.term.t = "pubof" /\ sg.term.t = "sig" /\ a.term.s = sg.term.s, sg.term.t = "sig" /\ sg.term.m = op.m>>)
          /\ IF a.term = ERR \/ sg.term = ERR THEN TRUE
             ELSE IF o # "ok" THEN Fail(P, "Key/verify/" \o o, sc, [op |-> op])
             ELSE Chk(r.v = want, P, IF want THEN "Key/verify/rejects-the-signature-of-this-key-and-message" ELSE "Key/verify/accepts-a-signature-of-another-key-or-message", sc, [op |-> op])
       [] name = "hash" ->
          /\ regs' = Append(rg, None)
          /\ (o = "ok" /\ a.term # ERR => HashChk("blake2b224", a.b, r.b, sc))
       [] name \in {"witness", "icarus", "daedalus"} ->
          \* a legacy Daedalus key may be ANY 96 bytes: "mutate" takes it from the bytes of key a with one byte changed (e.kb), a key of its own
          LET mut == name = "daedalus" /\ Has(op, "mutate")
              s == IF name = "witness" THEN a.term ELSE IF mut THEN Raw([t |-> "imp", of |-> a.term, byte |-> op.mutate.byte, mask |-> op.mutate.xor]) ELSE Raw(a.term)
              kb == IF name = "daedalus" THEN e.kb ELSE a.b IN
          /\ regs' = Append(rg, None)
          /\ IF a.term = ERR THEN TRUE
             ELSE IF o # "ok" THEN Fail(P, "Witness/" \o name \o "/" \o o, sc, [op |-> op, r |-> r])
             ELSE /\ Obl(P, sc, <<name, mut, Lookup(kn, PubOf(s)) # {}, Lookup(kn, Sig(s, op.h)) # {}>>)
                  /\ Chk(r.verifies, P, "Witness/" \o name \o "/signature-does-not-verify-for-the-given-hash", sc, [op |-> op, r |-> r])
                  /\ Chk(~r.verifies_other_hash, P, "Witness/" \o name \o "/signature-verifies-for-another-hash", sc, [op |-> op, r |-> r])
                  /\ Chk(Agrees(kn, PubOf(s), r.vkey), P, "Witness/" \o name \o "/vkey-is-not-the-public-key-of-the-signing-key", sc, [op |-> op, r |-> r])
                  /\ Chk(Agrees(kn, Sig(s, op.h), r.sig), P, "Witness/" \o name \o "/signature-differs-from-sign-of-the-hash", sc, [op |-> op, r |-> r])
                  /\ (name # "witness" => Chk(r.cc = Sub(kb, 65, 96), P, "Witness/" \o name \o "/chain-code", sc, [op |-> op, r |-> r]))
                  /\ (name = "daedalus" => Chk(r.legacy_bytes = kb, P, "Witness/daedalus/key-bytes-round-trip", sc, [op |-> op]))
       [] name = "codec" ->
          /\ regs' = Append(rg, None)
          /\ IF a.term = ERR THEN TRUE
             ELSE IF o # "ok" \/ ~Has(r, "text") THEN Fail(P, "Encoding/" \o Kind(a.term) \o "/" \o op.form \o "/" \o o, sc, [op |-> op, r |-> r])
             ELSE /\ Obl(P, sc, <<"codec", Kind(a.term), a.term.t, op.form>>)
                  /\ Chk(Has(r.back, "ok") /\ r.back.b = a.b, P, "Encoding/" \o Kind(a.term) \o "/" \o op.form \o "/does-not-round-trip", sc, [op |-> op, term |-> a.term.t, back |-> r.back])
                  /\ CASE op.form = "bytes" -> Chk(r.text = a.b, P, "Encoding/" \o Kind(a.term) \o "/bytes/differ", sc, [op |-> op])
                       [] op.form = "hex" -> Chk(r.text = HexLower(a.b), P, "Encoding/" \o Kind(a.term) \o "/hex/is-not-the-hex-of-the-bytes", sc, [op |-> op])
                       [] op.form = "bech32" -> LET h == Hrp(a.term) IN
                              Chk(Len(r.text) > Len(h) + 7 /\ Sub(r.text, 1, Len(h)) = h /\ r.text[Len(h) + 1] = 49 /\ \A i \in (Len(h) + 2)..Len(r.text) : r.text[i] \in Bech32Chars,
                                  P, "Encoding/" \o Kind(a.term) \o "/bech32/prefix-or-alphabet", sc, [op |-> op, text |-> r.text])
                       [] op.form = "xprv128" -> Chk(Len(r.text) = 128 /\ Sub(r.text, 1, 64) = Sub(a.b, 1, 64) /\ Sub(r.text, 97, 128) = Sub(a.b, 65, 96) /\ Agrees(kn, PubOf(Raw(a.term)), Sub(r.text, 65, 96)),
                                                     P, "Encoding/xprv/xprv128/layout", sc, [op |-> op])
                       [] OTHER -> TRUE
       [] name = "encrypt" ->
          LET refused == EncryptRefused(op.pw, op.salt, op.nonce) IN
          /\ Obl(P, sc, <<"encrypt", refused, Len(op.pw) > 128, Len(op.pw) > 64, Len(op.data) = 0>>)
          /\ HashChk("sha512", op.pw, e.pw_sha512, sc)
          /\ IF o = "panic" THEN Fail(P, "Emip3/encrypt/panic", sc, [op |-> op]) /\ regs' = Append(rg, None)
             ELSE IF refused THEN Chk(o = "err", P, "Emip3/encrypt/bad-parameters-accepted", sc, [op |-> op]) /\ regs' = Append(rg, None)
             ELSE IF o = "err" THEN Fail(P, "Emip3/encrypt/refused", sc, [op |-> op, r |-> r]) /\ regs' = Append(rg, None)
             ELSE /\ Chk(Len(r.b) = 60 + Len(op.data) /\ Sub(r.b, 1, 32) = op.salt /\ Sub(r.b, 33, 44) = op.nonce /\ r.is_lower_hex, P, "Emip3/encrypt/container-layout", sc, [op |-> op, got |-> r.b])
                  /\ regs' = Append(rg, [term |-> [t |-> "cipher"], b |-> r.b, pw |-> op.pw, h |-> e.pw_sha512, data |-> op.data])
       [] name = "decrypt" ->
          /\ regs' = Append(rg, None)
          /\ IF a.term = ERR \/ a.term.t # "cipher" THEN TRUE
             ELSE LET intact == e.cipher_used = a.b
                      samekey == HmacKey(a.pw, a.h) = HmacKey(e.pw_used, e.pw_sha512)
                      cls == IF Len(a.data) = 0 THEN "empty-plaintext" ELSE "non-empty-plaintext" IN
                  /\ Obl(P, sc, <<"decrypt", intact, samekey, e.pw_used = a.pw, Len(e.pw_used) > 128, Len(a.pw) > 64, IF Has(op, "flip") THEN Region(op.flip) ELSE "-", Len(a.data) = 0>>)
                  /\ HashChk("sha512", e.pw_used, e.pw_sha512, sc)
                  /\ IF o = "panic" THEN Fail(P, "Emip3/decrypt/panic", sc, [op |-> op])
                     ELSE IF intact /\ samekey THEN Chk(o = "ok" /\ r.b = a.data, P, "Emip3/decrypt/right-password-does-not-return-the-plaintext/" \o cls, sc, [op |-> op, r |-> r])
                     ELSE IF ~intact THEN Chk(o = "err", P, "Emip3/decrypt/modified-container-accepted/" \o (IF Has(op, "flip") THEN Region(op.flip) ELSE "truncated"), sc, [op |-> op, r |-> r])
                     ELSE Chk(o = "err", P, "Emip3/decrypt/opens-with-another-password", sc, [op |-> op, pw_used |-> e.pw_used])
       [] OTHER -> regs' = Append(rg, None) /\ Emit([t |-> "TOOLFAIL", what |-> "unknown operation " \o name, sc |-> sc])
Init == l = 1 /\ regs = <<>> /\ known = {} /\ cur = 0
Next == /\ l <= Len(Rec)
        /\ LET e == Rec[l] fresh == e.sc # cur IN
           /\ Step(e, IF fresh THEN <<>> ELSE regs, IF fresh THEN {} ELSE known)
           /\ cur' = e.sc
        /\ (l = Len(Rec) => Done(l))
        /\ l' = l + 1
====
