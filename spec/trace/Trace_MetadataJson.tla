---- MODULE Trace_MetadataJson ----
(* C17, schema part: every recorded conversion of the real library is compared with the      *)
(* specification's total functions (MetadataJson.tla). One event = one call plus the call     *)
(* in the reverse direction on its result ("back"). Demands per event:                        *)
(*   - no panic; outside the schema's domain the call fails (InSchema / IsE of the function); *)
(*   - inside it succeeds with exactly the tree the schema defines;                           *)
(*   - md -> json -> md gives the metadatum back under "no" / "detailed";                     *)
(*   - json -> md -> json gives the document back under every schema on normal forms;         *)
(*   - datum -> detailed json -> datum gives the datum back and never fails;                  *)
(*   - chunking is inverse to unchunking, chunks are 1..64 bytes.                             *)
EXTENDS MdTrees, TraceLib
VARIABLE l
Outcome(r) == IF Has(r, "panic") \/ Has(r, "ser_panic") THEN "panic" ELSE IF Has(r, "ok") THEN "ok" ELSE "err"
Why(x) == IF IsE(x) THEN x.err ELSE "in-schema"
Tool(what, sc) == Emit([t |-> "TOOLFAIL", what |-> what, sc |-> sc])
MdOf(b) == LET it == Parse(b) IN IF IsErr(it) THEN E("malformed-cbor") ELSE MdOfItem(it)
PdOf(b) == LET it == Parse(b) IN IF IsErr(it) THEN E("malformed-cbor") ELSE PdOfItem(it)
MdEncJudge(e) ==
  LET sch == e.sch exp == MdEnc(sch, e.jin) o == Outcome(e.r) pre == "MdJson/enc/" \o sch \o "/" IN
  IF e.jin.j = "unparsable" THEN Tool("scenario text is not JSON", e.sc)
  ELSE /\ Obl("C17", e.sc, <<"MdEnc", sch, Why(exp), NormalForm(sch, e.jin)>>)
       /\ (IsE(exp) # ~InSchema(sch, e.jin) => Tool("InSchema and MdEnc disagree", e.sc))
       /\ IF o = "panic" THEN Fail("C17", pre \o "panic/" \o Why(exp), e.sc, [jin |-> e.jin, why |-> e.r])
          ELSE IF IsE(exp) THEN Chk(o = "err", "C17", pre \o "accepted-outside-schema/" \o exp.err, e.sc, [jin |-> e.jin, got |-> e.r])
          ELSE IF o = "err" THEN Fail("C17", pre \o "refused-in-schema", e.sc, [jin |-> e.jin, err |-> e.r.err])
          ELSE /\ Chk(MdOf(e.r.md) = exp, "C17", pre \o "different-value", e.sc, [jin |-> e.jin, got |-> e.r.md, want |-> Canon(MdTree(exp))])
               /\ (NormalForm(sch, e.jin) => Chk(Has(e.back, "ok") /\ e.back.json = e.jin, "C17", "MdJson/json-md-json/" \o sch \o "/changed", e.sc, [jin |-> e.jin, back |-> e.back]))
MdDecJudge(e) ==
  LET sch == e.sch mdIn == MdOf(e.md) jsEx == MdDec(sch, mdIn) o == Outcome(e.r) pre == "MdJson/dec/" \o sch \o "/" IN
  IF IsE(mdIn) THEN Tool("scenario metadatum does not parse", e.sc)
  ELSE /\ Obl("C17", e.sc, <<"MdDec", sch, mdIn.m, Why(jsEx), MdAscending(mdIn)>>)
       /\ IF o = "panic" THEN Fail("C17", pre \o "panic/" \o Why(jsEx), e.sc, [md |-> e.md, why |-> e.r.panic])
          ELSE IF IsE(jsEx) THEN Chk(o = "err", "C17", pre \o "converted-outside-schema/" \o jsEx.err, e.sc, [md |-> e.md, got |-> e.r])
          ELSE IF o = "err" THEN Fail("C17", pre \o "refused-convertible", e.sc, [md |-> e.md, err |-> e.r.err])
          ELSE /\ Chk(e.r.json = jsEx, "C17", pre \o "different-json", e.sc, [md |-> e.md, got |-> e.r.json, want |-> jsEx])
               /\ (sch \in {"no", "detailed"} =>
                     IF ~Has(e.back, "ok") THEN Fail("C17", "MdJson/md-json-md/" \o sch \o "/own-json-refused", e.sc, [md |-> e.md, back |-> e.back])
                     ELSE IF sch = "detailed" \/ MdAscending(mdIn)
                          THEN Chk(MdOf(e.back.md) = mdIn /\ (e.md = Canon(MdTree(mdIn)) => e.back.md = e.md), "C17", "MdJson/md-json-md/" \o sch \o "/changed", e.sc, [md |-> e.md, back |-> e.back.md])
                          ELSE Chk(~IsE(MdOf(e.back.md)) /\ MdSameContent(MdOf(e.back.md), mdIn), "C17", "MdJson/md-json-md/" \o sch \o "/content-changed", e.sc, [md |-> e.md, back |-> e.back.md]))
PlEncJudge(e) ==
  LET sch == e.sch exp == PlEnc(sch, e.jin) o == Outcome(e.r) pre == "PlJson/enc/" \o sch \o "/" IN
  IF e.jin.j = "unparsable" THEN Tool("scenario text is not JSON", e.sc)
  ELSE /\ Obl("C17", e.sc, <<"PlEnc", sch, Why(exp)>>)
       /\ IF o = "panic" THEN Fail("C17", pre \o "panic/" \o Why(exp), e.sc, [jin |-> e.jin, why |-> e.r])
          ELSE IF IsE(exp) THEN Chk(o = "err", "C17", pre \o "accepted-outside-schema/" \o exp.err, e.sc, [jin |-> e.jin, got |-> e.r])
          ELSE IF o = "err" THEN Fail("C17", pre \o "refused-in-schema", e.sc, [jin |-> e.jin, err |-> e.r.err])
          ELSE Chk(PdOf(e.r.pd) = exp, "C17", pre \o "different-value", e.sc, [jin |-> e.jin, got |-> e.r.pd, want |-> Canon(PdTree(exp))])
PlDecJudge(e) ==
  LET sch == IF e.sch = "generic" THEN "detailed" ELSE e.sch
      pdIn == PdOf(e.pd) jsEx == PlDec(sch, pdIn) o == Outcome(e.r) pre == "PlJson/dec/" \o e.sch \o "/" IN
  IF IsE(pdIn) THEN Tool("scenario datum does not parse", e.sc)
  ELSE /\ Obl("C17", e.sc, <<"PlDec", e.sch, pdIn.p, Why(jsEx)>>)
       /\ IF o = "panic" THEN Fail("C17", pre \o "panic/" \o Why(jsEx), e.sc, [pd |-> e.pd, why |-> e.r.panic])
          ELSE IF IsE(jsEx) THEN Chk(o = "err", "C17", pre \o "converted-outside-schema/" \o jsEx.err, e.sc, [pd |-> e.pd, got |-> e.r])
          ELSE IF o = "err" THEN Fail("C17", pre \o "refused-convertible", e.sc, [pd |-> e.pd, err |-> e.r.err])
          ELSE /\ Chk(e.r.json = jsEx, "C17", pre \o "different-json", e.sc, [pd |-> e.pd, got |-> e.r.json, want |-> jsEx])
               /\ (sch = "detailed" => Chk(Has(e.back, "ok") /\ PdOf(e.back.pd) = pdIn, "C17", "PlJson/datum-json-datum/" \o e.sch \o "/changed", e.sc, [pd |-> e.pd, back |-> e.back]))
ChunkJudge(e) ==
  /\ Obl("C17", e.sc, <<"Chunk", (Len(e.b) + 63) \div 64, Len(e.b) % 64 = 0>>)
  /\ IF ~Has(e.r, "ok") THEN Fail("C17", "Chunk/panic", e.sc, [b |-> e.b, r |-> e.r])
     ELSE /\ Chk(MdOf(e.r.md) = Chunk(e.b), "C17", "Chunk/wrong-chunks", e.sc, [b |-> e.b, got |-> e.r.md])
          /\ Chk(Has(e.back, "ok") /\ e.back.b = e.b, "C17", "Chunk/not-inverse", e.sc, [b |-> e.b, back |-> e.back])
UnchunkJudge(e) ==
  LET mdIn == MdOf(e.md) unch == Unchunk(mdIn) o == Outcome(e.r) IN
  IF IsE(mdIn) THEN Tool("scenario metadatum does not parse", e.sc)
  ELSE /\ Obl("C17", e.sc, <<"Unchunk", Why(unch)>>)
       /\ IF o = "panic" THEN Fail("C17", "Unchunk/panic", e.sc, [md |-> e.md])
          ELSE IF IsE(unch) THEN Chk(o = "err", "C17", "Unchunk/accepted/" \o unch.err, e.sc, [md |-> e.md, got |-> e.r])
          ELSE Chk(o = "ok" /\ e.r.b = unch.b, "C17", "Unchunk/different-bytes", e.sc, [md |-> e.md, got |-> e.r])
Init == l = 1
Next == /\ l <= Len(Rec)
        /\ LET e == Rec[l] IN
           CASE e.ev = "MdEnc" -> MdEncJudge(e) [] e.ev = "MdDec" -> MdDecJudge(e) [] e.ev = "PlEnc" -> PlEncJudge(e) [] e.ev = "PlDec" -> PlDecJudge(e)
             [] e.ev = "Chunk" -> ChunkJudge(e) [] e.ev = "Unchunk" -> UnchunkJudge(e)
             [] OTHER -> Note("C17", "scenario input refused by the decoder", e.sc, e)
        /\ (l = Len(Rec) => Done(l))
        /\ l' = l + 1
====
