---- MODULE Trace_Codec ----
(* Codec L0 (C01 C02 C03 C17 generic part). One event per byte string handed to a typed   *)
(* from_bytes. Parse(entry, input, outcome): outcome is Ok or Err - a panic is not an       *)
(* action of the specification. For Ok: serialization returns normally and is well-formed  *)
(* CBOR (C02); decoding it again succeeds, gives an equal value and the same bytes; the hex *)
(* entry points agree with the byte entry points (C01); the emitted bytes conform to the    *)
(* schema in the write profile when the input was a schema-generated instance (C03); the    *)
(* JSON form reads back to an equal value with the same bytes (C17).                        *)
EXTENDS ConwaySchema, TraceLib
VARIABLE l
HexDigit(n) == IF n < 10 THEN 48 + n ELSE 87 + n
Hex(b) == Flat([i \in 1..Len(b) |-> <<HexDigit(b[i] \div 16), HexDigit(b[i] % 16)>>])
HasSchema(ty) == ty \in DOMAIN Schema
\* C03 speaks about a transaction and its parts: block-level types are decoded and round-tripped (C01, C02) but not held to the Conway CDDL
TxPart(ty) == ty \notin {"header_body", "header", "block", "operational_cert", "vrf_cert", "versioned_block"}
InClass(b) == LET it == Parse(b) IN IF IsErr(it) THEN it.why ELSE "well-formed"
TextJudge(e) == IF Has(e.r, "panic") THEN Fail("C02", "Parse/" \o e.entry \o "/panic", e.sc, [why |-> e.r.panic, input |-> e.s])
                ELSE IF Has(e, "valid") /\ e.valid /\ ~Has(e.r, "ok") THEN Emit([t |-> "TOOLFAIL", what |-> "a valid text form was refused: " \o e.entry, sc |-> e.sc])
                ELSE Obl("C02", e.sc, <<e.entry, "valid-form">>)
ConsJudge(e) == IF Has(e, "panic") THEN Fail("C02", "Construct/" \o e.what \o "/panic", e.sc, e.panic) ELSE Obl("C03", e.sc, <<"constructor-refused", e.what>>)
BatchJudge(e) == Obl("C02", e.sc, <<e.kind, e.type, e.tried > 0, e.ok > 0>>) /\ Emit([t |-> "BATCH", kind |-> e.kind, tried |-> e.tried, err |-> e.err, ok |-> e.ok, panic |-> e.panic])
\* C03 on bytes the library EMITTED for a value built through the typed API, whatever its own decoder then makes of them
EmitCheck(ty, b, sc) ==
  IF ~(HasSchema(ty) /\ TxPart(ty)) THEN TRUE
  ELSE LET it == Parse(b) IN
       IF IsErr(it) THEN Fail("C03", "Emit/" \o ty \o "/malformed", sc, [bytes |-> b, why |-> it.why])
       ELSE LET c == Conforms(Schema, ty, it, "write") IN IF c = OK THEN TRUE ELSE Fail("C03", "Emit/" \o ty \o "/" \o c[Len(c)], sc, [bytes |-> b])
\* A typed Mint is a LIST of (policy, assets) entries in the order the caller inserted them; the statements promise canonical key order
\* for asset bundles and for the mint field the BUILDER emits (C16), not for a Mint value the caller filled in another order.
OrderIsCallers(e, c) == Has(e, "constructed") /\ e.constructed = "mint_pairs" /\ c[Len(c)] = "table-keys-not-canonical"
Judge(e) ==
  LET sc == e.sc r == e.r ty == e.type gen == ~Has(e, "mut") IN
  \* input class for failure signatures: how the specification's own parser sees the input
  IF Has(r, "hang") THEN Fail("C02", "Parse/does-not-return/" \o InClass(e["in"]), sc, [ty |-> ty, input |-> e["in"]])
  ELSE IF Has(r, "abort") THEN Fail("C02", "Parse/abort/" \o InClass(e["in"]), sc, [ty |-> ty, input |-> e["in"]])
  ELSE IF Has(r, "panic") THEN Fail("C02", "Parse/panic/" \o InClass(e["in"]), sc, [ty |-> ty, why |-> r.panic, input |-> e["in"]])
  ELSE IF ~Has(r, "ok") THEN
       \* a value BUILT through the typed API must decode from its own bytes; a generated instance may be refused (noted)
       (IF Has(e, "constructed") THEN Fail("C01", "Roundtrip/" \o ty \o "/own-bytes-do-not-decode/constructed-" \o e.constructed, sc, [bytes |-> e["in"], err |-> r.err]) /\ EmitCheck(ty, e["in"], sc)
        ELSE IF gen THEN Note("C01", "generated-instance-not-accepted", sc, [ty |-> ty]) ELSE TRUE)
  ELSE IF Has(e, "constructed_same") /\ e.constructed_same = "no" THEN
       \* the value was BUILT through the typed API (constructors, setters): decoding its serialization has to give it back
       Fail("C01", "Roundtrip/" \o ty \o "/decoded-differs-from-the-constructed-value/" \o e.constructed, sc, [bytes |-> e["in"]])
  ELSE IF Has(r, "ser_panic") THEN Fail("C02", "Reserialize/" \o ty \o "/panic", sc, [why |-> r.ser_panic, input |-> e["in"]])
  ELSE LET b == r.to_bytes it == Parse(b) IN
    /\ Obl("C02", sc, <<ty, Len(e["in"]), "accepted">>)
    /\ Chk(~IsErr(it), "C02", "Reserialize/" \o ty \o "/not-well-formed-cbor", sc, [input |-> e["in"], out |-> b])
    /\ (Has(r, "rt") =>
          /\ Obl("C01", sc, <<ty, it.mt, Len(it.kids), Len(b)>>)
          /\ IF Has(r.rt, "panic") THEN Fail("C01", "Roundtrip/" \o ty \o "/decode-of-own-bytes-panics", sc, [bytes |-> b])
             ELSE IF ~Has(r.rt, "ok") THEN Fail("C01", "Roundtrip/" \o ty \o "/own-bytes-do-not-decode", sc, [bytes |-> b, err |-> r.rt.err])
             ELSE /\ Chk(r.rt.eq, "C01", "Roundtrip/" \o ty \o "/decoded-value-not-equal", sc, [bytes |-> b])
                  /\ Chk(Has(r.rt.to_bytes, "ok") /\ r.rt.to_bytes.b = b, "C01", "Roundtrip/" \o ty \o "/re-encoding-differs", sc, [bytes |-> b])
          /\ IF Has(r.hex, "panic") THEN Fail("C01", "Hex/" \o ty \o "/to_hex-panics", sc, 0)
             ELSE /\ Chk(r.hex.to_hex = Hex(b), "C01", "Hex/" \o ty \o "/to_hex-differs-from-bytes", sc, [bytes |-> b])
                  /\ Chk(Has(r.hex.from_hex, "ok") /\ Has(r.hex.from_hex.to_bytes, "ok") /\ r.hex.from_hex.to_bytes.b = b, "C01", "Hex/" \o ty \o "/from_hex-differs-from-from_bytes", sc, [bytes |-> b])
          \* C03: the emitted bytes of a value decoded from a schema instance conform to the write profile
          /\ (gen /\ HasSchema(ty) /\ TxPart(ty) /\ IsErr(it) => Fail("C03", "Emit/" \o ty \o "/malformed", sc, [bytes |-> b, why |-> it.why]))
          /\ (gen /\ HasSchema(ty) /\ TxPart(ty) /\ ~IsErr(it) =>
                LET c == Conforms(Schema, ty, it, "write") IN
                /\ Obl("C03", sc, <<ty, it.mt, Len(it.kids)>>)
                /\ IF c = OK THEN TRUE ELSE IF OrderIsCallers(e, c) THEN Note("C03", "typed Mint written in the caller's insertion order", sc, [ty |-> ty])
                   ELSE Fail("C03", "Emit/" \o ty \o "/" \o c[Len(c)], sc, [bytes |-> b]))
          \* C17: JSON form. fr = OK: the instance is in the form a value built through the typed API is written in; otherwise its last
          \* element says which retained encoding detail / unsupported content the instance has, and the demand is adapted to it.
          /\ (Has(r, "json") =>
                LET fr == IF gen /\ HasSchema(ty) /\ ~IsErr(it) THEN Conforms(Schema, ty, it, "fresh") ELSE <<"not-generated">>
                    why == IF fr = OK THEN "fresh" ELSE fr[Len(fr)] IN
                /\ Obl("C17", sc, <<ty, it.mt, Len(it.kids), why>>)
                /\ IF Has(r.json, "panic") THEN Fail("C17", "Json/" \o ty \o "/to_json-panics", sc, [bytes |-> b])
                   ELSE IF ~Has(r.json, "ok") THEN
                        (IF why = "md-int-below-i64" THEN Note("C17", "to_json refuses a metadatum integer below -2^63 (first conversion does not succeed)", sc, [ty |-> ty])
                         ELSE Fail("C17", "Json/" \o ty \o "/to_json-fails/" \o why, sc, [bytes |-> b, err |-> r.json.err]))
                   ELSE LET f == r.json.from_json IN
                        IF ~Has(f, "ok") THEN Fail("C17", "Json/" \o ty \o "/own-json-does-not-read-back", sc, [bytes |-> b, r |-> f])
                        ELSE LET ob == IF Has(f.to_bytes, "ok") THEN f.to_bytes.b ELSE <<>>
                                 oit == Parse(ob) IN
                             /\ Chk(Has(f.again, "ok") /\ f.again.same_json /\ f.again.b = ob, "C17", "Json/" \o ty \o "/second-pass-differs", sc, [bytes |-> b, again |-> f.again])
                             /\ CASE why \in {"fresh", "md-int-below-i64"} ->
                                       /\ Chk(f.eq, "C17", "Json/" \o ty \o "/value-read-back-not-equal", sc, [bytes |-> b])
                                       /\ Chk(ob = b, "C17", "Json/" \o ty \o "/bytes-differ-after-json-roundtrip", sc, [bytes |-> b, out |-> ob])
                                  [] why = "plutus-v2v3" ->
                                       Chk(f.eq /\ ob = b, "C17", "Json/value-read-back-not-equal/non-v1-plutus-script", sc, [bytes |-> b, out |-> ob])
                                  [] why = "map-not-ascending" ->
                                       \* the library's equality of insertion-ordered maps is order-sensitive: only the content is demanded
                                       /\ Chk(~IsErr(oit) /\ SameContent(it, oit), "C17", "Json/" \o ty \o "/content-differs-after-json-roundtrip", sc, [bytes |-> b, out |-> ob])
                                  [] why \in {"bignum-form", "constr-general-form", "redeemers-array-form", "output-map-form", "header-nested-form"} ->
                                       \* retained encoding detail: the JSON form does not carry it; the content must be equal, the bytes are those of a fresh value
                                       /\ Chk(f.eq, "C17", "Json/" \o ty \o "/value-read-back-not-equal/" \o why, sc, [bytes |-> b])
                                       \* (two set elements that differed ONLY in the retained encoding - distinct datums on the wire - are one and the same value in
                                       \* JSON: what comes back holds it twice. The statement has no word on that; it is noted, not demanded.)
                                       /\ LET ofr == IF IsErr(oit) THEN <<"undecodable">> ELSE Conforms(Schema, ty, oit, "fresh") IN
                                          IF ofr # OK /\ ofr[Len(ofr)] = "set-dup" /\ Conforms(Schema, ty, it, "write") = OK
                                          THEN Note("C17", "set elements that differ only in encoding collapse in the JSON form", sc, [ty |-> ty])
                                          ELSE Chk(ofr = OK, "C17", "Json/" \o ty \o "/bytes-after-json-not-in-fresh-form/" \o why, sc, [bytes |-> b, out |-> ob])
                                  [] OTHER -> Note("C17", "instance outside the fresh profile for another reason: " \o why, sc, [ty |-> ty])))
Init == l = 1
Next == /\ l <= Len(Rec)
        /\ (CASE Rec[l].ev = "Codec" -> Judge(Rec[l]) [] Rec[l].ev = "Text" -> TextJudge(Rec[l]) [] Rec[l].ev = "Constructed" -> ConsJudge(Rec[l]) [] OTHER -> BatchJudge(Rec[l]))
        /\ (l = Len(Rec) => Done(l))
        /\ l' = l + 1
====
