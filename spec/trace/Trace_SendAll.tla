---- MODULE Trace_SendAll ----
(* C13 trace validator. L0 action CreateSendAll(utxos, target, pp, result): on      *)
(* success the inputs of all returned transactions partition the supplied outpoints  *)
(* (each exactly once), every output pays the target address, and each transaction - *)
(* parsed from its bytes - is balanced, carries at least the minimum fee of its      *)
(* really signed size, respects the size limits and gives every output its min ADA.  *)
EXTENDS LedgerRules, TraceLib
VARIABLES l, env, pp, target, keys, byron
P == "C13"
IsByronAddr(a) == a # <<>> /\ a[1] \div 16 = 8
Reset(e) ==
  /\ env' = [k \in {<<e.utxo[i].txid, e.utxo[i].ix>> : i \in 1..Len(e.utxo)} |->
               LET u == CHOOSE x \in {e.utxo[i] : i \in 1..Len(e.utxo)} : <<x.txid, x.ix>> = k IN [value |-> JVal(u.value), addr |-> u.addr]]
  /\ pp' = [a |-> FromSmall(e.pp.a), b |-> FromSmall(e.pp.b), cpb |-> FromSmall(e.pp.cpb), maxval |-> e.pp.maxval, maxtx |-> e.pp.maxtx, kd |-> Zero, pd |-> Zero]
  /\ target' = e.target
  /\ keys' = [v \in {e.keys[i].vkey : i \in 1..Len(e.keys)} |-> (CHOOSE x \in {e.keys[i] : i \in 1..Len(e.keys)} : x.vkey = v).hash]
  /\ byron' = [a \in {e.byron[i].addr : i \in 1..Len(e.byron)} |-> (CHOOSE x \in {e.byron[i] : i \in 1..Len(e.byron)} : x.addr = a).vkey]
\* parameter class, part of the signature of fee / balance failures: with a coins-per-byte value far below any real one
\* (main net 4310) outputs may hold a few hundred lovelace and the batch tools' size estimate of such coins is off
PClass == IF Lt(pp.cpb, FromSmall(100)) THEN "coins-per-byte-below-100" ELSE "realistic-coins-per-byte"
InputsOf(body) == {InputKey(Elems(body,0)[j]) : j \in 1..Len(Elems(body,0))}
EnvVals == [k \in DOMAIN env |-> env[k].value]
Batch(e) ==
  LET sc == e.sc n == Len(e.txs)
      parsed == [i \in 1..n |-> Parse(e.txs[i].tx)] IN
  /\ UNCHANGED <<env, pp, target, keys, byron>>
  /\ IF \E i \in 1..n : IsErr(parsed[i]) THEN Fail(P, "Batch/malformed-transaction", sc, 0) ELSE
     LET bodyOf(i) == parsed[i].kids[1] IN
     /\ Obl(P, sc, <<Cardinality(DOMAIN env), n, [i \in 1..n |-> <<Cardinality(InputsOf(bodyOf(i))), Len(Elems(bodyOf(i),1))>>]>>)
     \* every supplied UTxO is spent, nothing else is spent, nothing is spent twice
     /\ Chk(DOMAIN env \subseteq UNION {InputsOf(bodyOf(i)) : i \in 1..n}, P, "Batch/utxo-not-spent", sc,
            [missing |-> Cardinality(DOMAIN env \ UNION {InputsOf(bodyOf(i)) : i \in 1..n}), of |-> Cardinality(DOMAIN env)])
     /\ Chk(UNION {InputsOf(bodyOf(i)) : i \in 1..n} \subseteq DOMAIN env, P, "Batch/spends-foreign-input", sc, 0)
     /\ Chk(\A i, j \in 1..n : i < j => InputsOf(bodyOf(i)) \cap InputsOf(bodyOf(j)) = {}, P, "Batch/utxo-spent-twice", sc, 0)
     /\ Chk(\A i \in 1..n : Len(Elems(bodyOf(i),0)) = Cardinality(InputsOf(bodyOf(i))), P, "Batch/input-listed-twice", sc, 0)
     /\ \A i \in 1..n :
          LET body == bodyOf(i) outs == Elems(body, 1) fee == ArgN(GetK(body, 2)) IN
          /\ Chk(\A j \in 1..Len(outs) : OutAddrItem(outs[j]).str = target, P, "Batch/output-to-another-address", sc, [tx |-> i])
          /\ (InputsOf(body) \subseteq DOMAIN env =>
                Chk(Balanced(body, EnvVals, pp), P, "Batch/unbalanced/" \o PClass, sc, [tx |-> i, consumed |-> ToBE(Consumed(body, EnvVals, pp).coin, 0), produced |-> ToBE(Produced(body, pp).coin, 0)]))
          /\ \A j \in 1..Len(outs) :
               /\ Chk(OutMinAdaOk(outs[j], pp.cpb), P, "Batch/output-below-min-ada", sc, [tx |-> i, out |-> j, need |-> ToBE(MinAdaOf(outs[j], pp.cpb), 0), has |-> ToBE(OutValue(outs[j]).coin, 0)])
               /\ Chk(ItemLen(OutValItem(outs[j])) <= pp.maxval, P, "Batch/value-too-large", sc, [tx |-> i, out |-> j, size |-> ItemLen(OutValItem(outs[j]))])
          /\ IF ~Has(e.txs[i].signed, "ok") THEN Emit([t |-> "TOOLFAIL", what |-> "harness could not sign", sc |-> sc, d |-> e.txs[i].signed])
             ELSE LET stx == Parse(e.txs[i].signed.bytes) IN
               IF IsErr(stx) THEN Fail(P, "Batch/signed-transaction-malformed", sc, stx.why) ELSE
               LET vks == Elems(stx.kids[2], 0) boots == Elems(stx.kids[2], 2)
                   needV == {SubSeq(env[k].addr, 2, 29) : k \in {x \in InputsOf(body) \cap DOMAIN env : ~IsByronAddr(env[x].addr)}}
                   needB == {env[k].addr : k \in {x \in InputsOf(body) \cap DOMAIN env : IsByronAddr(env[x].addr)}}
                   gotV == {IF vks[j].kids[1].str \in DOMAIN keys THEN keys[vks[j].kids[1].str] ELSE <<>> : j \in 1..Len(vks)}
                   size == Len(e.txs[i].signed.bytes) IN
               IF gotV # needV \/ Len(vks) # Cardinality(needV) \/ Len(boots) # Cardinality(needB) \/ Span(e.txs[i].signed.bytes, stx.kids[1]) # Span(e.txs[i].tx, body)
               THEN Emit([t |-> "TOOLFAIL", what |-> "signers attached by the harness differ from the owners of the inputs", sc |-> sc, d |-> [tx |-> i]])
               ELSE /\ Chk(Geq(fee, LinearMinFee(size, pp.a, pp.b)), P, "Batch/fee-below-minimum/" \o PClass, sc, [tx |-> i, fee |-> ToBE(fee, 0), min |-> ToBE(LinearMinFee(size, pp.a, pp.b), 0), size |-> size, vkeys |-> Len(vks), boots |-> Len(boots)])
                    /\ Chk(size <= pp.maxtx, P, "Batch/transaction-too-large", sc, [tx |-> i, size |-> size])
Other(e) == UNCHANGED <<env, pp, target, keys, byron>> /\ (Has(e, "panic") => Fail(P, "Batch/panic", e.sc, e.panic))
Init == l = 1 /\ env = <<>> /\ pp = <<>> /\ target = <<>> /\ keys = <<>> /\ byron = <<>>
Next == /\ l <= Len(Rec)
        /\ LET e == Rec[l] IN CASE e.ev = "Reset" -> Reset(e) [] e.ev = "Batch" -> Batch(e) [] OTHER -> Other(e)
        /\ (l = Len(Rec) => Done(l))
        /\ l' = l + 1
====
