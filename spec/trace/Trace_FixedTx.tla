---- MODULE Trace_FixedTx ----
(* C04 trace validator. L0: a transaction loaded in its byte-preserving form keeps    *)
(* the SPANS of its body, auxiliary data and every untouched witness-set field across  *)
(* any history of add-signature operations; a touched key-witness field holds the      *)
(* original elements in order followed by the added ones, each once; the reported      *)
(* hash is Blake2b-256 of the original body span (digest oracle). A Plutus datum       *)
(* decoded from bytes re-encodes to exactly those bytes and hashes to H(those bytes).  *)
EXTENDS LedgerRules, TraceLib
VARIABLES l, orig, touched, addedV, addedB, alive
P == "C04"
RECURSIVE FirstOccC(_,_,_)
FirstOccC(s, i, acc) == IF i > Len(s) THEN acc ELSE FirstOccC(s, i + 1, IF \E j \in 1..Len(acc) : acc[j] = s[i] THEN acc ELSE Append(acc, s[i]))
FirstOcc(s) == FirstOccC(s, 1, <<>>)
WsKeys(ws) == {Small(ws.kids[2*j-1].arg) : j \in 1..(Len(ws.kids) \div 2)}
ElemSpans(B, it) == LET u == Untag(it) IN [j \in 1..Len(u.kids) |-> Span(B, u.kids[j])]
\* a touched field may re-encode its original elements: they are compared as DATA (the added ones are known byte for byte)
RECURSIVE SameSeqData(_,_,_,_,_)
SameSeqData(B1, k1, B2, k2, j) == IF j > Len(k1) THEN TRUE ELSE SameData(k1[j], k2[j]) /\ SameSeqData(B1, k1, B2, k2, j + 1)
RECURSIVE FirstOccData(_,_,_)
FirstOccData(items, i, acc) == IF i > Len(items) THEN acc ELSE FirstOccData(items, i + 1, IF \E j \in 1..Len(acc) : SameData(acc[j], items[i]) THEN acc ELSE Append(acc, items[i]))
TouchedOk(origB, iws, outB, ows, key, added) ==
   LET origItems == IF HasK(iws, key) THEN Untag(GetK(iws, key)).kids ELSE <<>>
       want == FirstOccData(origItems \o [j \in 1..Len(added) |-> Parse(added[j])], 1, <<>>)
       got == IF HasK(ows, key) THEN Untag(GetK(ows, key)).kids ELSE <<>> IN
   Len(got) = Len(want) /\ \A j \in 1..Len(want) : SameData(got[j], want[j])
\* obligations on a serialization `o` (bytes) of the loaded transaction, given what was added so far
PreservedAt(e, snap, sc, dev, origB, touchedS, addedVS, addedBS) ==
  LET I == Parse(origB) O == Parse(snap.bytes)
      sig(w) == "Fixed/" \o w \o "/" \o dev IN
  \* four elements, or the pre-Alonzo layout [body, witness set, auxiliary data]: the auxiliary data is the last element
  IF IsErr(O) \/ O.mt # 4 \/ Len(O.kids) \notin {3, 4} \/ Len(I.kids) \notin {3, 4} THEN Fail(P, sig("serialized-transaction-malformed"), sc, [why |-> O.why, bytes |-> snap.bytes])
  ELSE
  LET iws == I.kids[2] ows == O.kids[2] ia == I.kids[Len(I.kids)] oa == O.kids[Len(O.kids)] IN
  /\ Chk(Span(snap.bytes, O.kids[1]) = Span(origB, I.kids[1]), P, sig("body-bytes-changed"), sc, 0)
  /\ Chk(snap.raw_body = Span(origB, I.kids[1]), P, sig("raw-body-differs-from-original-span"), sc, 0)
  /\ Chk(Span(snap.bytes, oa) = Span(origB, ia), P, sig("auxiliary-data-bytes-changed"), sc, 0)
  /\ Chk(Has(snap, "raw_aux") = (ia.mt # 7) /\ (Has(snap, "raw_aux") => snap.raw_aux = Span(origB, ia)), P, sig("raw-auxiliary-data-differs-from-original-span"), sc, 0)
  /\ Chk(ows.mt = 5, P, sig("witness-set-not-a-map"), sc, 0)
  /\ (ows.mt = 5 =>
       /\ \A k \in WsKeys(iws) \ touchedS :
            Chk(HasK(ows, k) /\ Span(snap.bytes, GetK(ows, k)) = Span(origB, GetK(iws, k)), P, sig("untouched-witness-field-changed"), sc, [key |-> k])
       /\ Chk(WsKeys(ows) \subseteq WsKeys(iws) \cup touchedS, P, sig("witness-field-appeared"), sc, 0)
       /\ (0 \in touchedS => Chk(TouchedOk(origB, iws, snap.bytes, ows, 0, addedVS), P, sig("key-witnesses-not-original-then-added"), sc, 0))
       /\ (2 \in touchedS => Chk(TouchedOk(origB, iws, snap.bytes, ows, 2, addedBS), P, sig("bootstrap-witnesses-not-original-then-added"), sc, 0)))
  /\ Emit([t |-> "HASHCHK", p |-> P, sig |-> sig("transaction-hash-not-of-original-body-bytes"), sc |-> sc, alg |-> "blake2b256", pre |-> Span(origB, I.kids[1]), expect |-> snap.hash])
Load(e) ==
  LET sc == e.sc I == Parse(e.bytes) IN
  /\ orig' = e.bytes /\ touched' = {} /\ addedV' = <<>> /\ addedB' = <<>>
  /\ alive' = Has(e.r, "ok")
  /\ IF Has(e.r, "panic") THEN Fail(P, "Fixed/load-or-serialize-panic/" \o e.dev, sc, e.r.panic)
     ELSE IF ~Has(e.r, "ok") THEN Note(P, "encoding-not-accepted", sc, [dev |-> e.dev])       \* the decoder may refuse an encoding
     ELSE Obl(P, sc, <<"load", e.dev, Len(e.bytes)>>) /\ PreservedAt(e, e.r, sc, e.dev, e.bytes, {}, <<>>, <<>>)
Sign(e) ==
  LET sc == e.sc t2 == touched \cup {IF e.kind = "vkey" THEN 0 ELSE 2}
      av == IF e.kind = "vkey" THEN Append(addedV, e.added) ELSE addedV
      ab == IF e.kind = "boot" THEN Append(addedB, e.added) ELSE addedB IN
  /\ UNCHANGED <<orig, alive>>
  /\ IF ~alive THEN UNCHANGED <<touched, addedV, addedB>>
     ELSE IF Has(e.r, "panic") THEN Fail(P, "Fixed/sign-panic", sc, e.r.panic) /\ UNCHANGED <<touched, addedV, addedB>>
     ELSE IF ~Has(e.r, "ok") THEN Fail(P, "Fixed/sign-refused", sc, e.r.err) /\ UNCHANGED <<touched, addedV, addedB>>
     ELSE /\ touched' = t2 /\ addedV' = av /\ addedB' = ab
          /\ IF Has(e.after, "panic") THEN Fail(P, "Fixed/serialize-panic-after-signing", sc, e.after.panic)
             ELSE Obl(P, sc, <<"sign", e.kind, Cardinality(t2), Len(av), Len(ab)>>) /\ PreservedAt(e, e.after, sc, "after-" \o e.kind, orig, t2, av, ab)
Datum(e) ==
  /\ UNCHANGED <<orig, touched, addedV, addedB, alive>>
  /\ IF Has(e.r, "panic") THEN Fail(P, "Datum/panic", e.sc, e.r.panic)
     ELSE IF ~Has(e.r, "ok") THEN Note(P, "datum-encoding-not-accepted", e.sc, 0)
     ELSE /\ Obl(P, e.sc, <<"datum", Parse(e.bytes).mt, Len(e.bytes)>>)
          /\ Chk(e.r.to_bytes = e.bytes, P, "Datum/bytes-changed-by-decode-encode", e.sc, [bytes |-> e.bytes, got |-> e.r.to_bytes])
          /\ Emit([t |-> "HASHCHK", p |-> P, sig |-> "Datum/hash-not-of-original-bytes", sc |-> e.sc, alg |-> "blake2b256", pre |-> e.bytes, expect |-> e.r.hash])
          \* two datums of one value in two encodings are two datums (two hashes): a witness set holding both emits both, each as its own bytes
          /\ (Has(e.r, "pair") /\ Has(e.r.pair, "ok") =>
                LET w == Parse(e.r.pair.ws)
                    f == IF IsErr(w) THEN w ELSE GetK(w, 4)
                    lst == IF IsErr(f) THEN <<>> ELSE (IF f.mt = 6 THEN f.kids[1].kids ELSE f.kids)
                    have == {Span(e.r.pair.ws, lst[j]) : j \in 1..Len(lst)} IN
                Chk(e.bytes \in have /\ e.r.pair.fresh \in have, P, "Datum/lost-or-re-encoded-in-a-witness-set", e.sc, [bytes |-> e.bytes, fresh |-> e.r.pair.fresh, ws |-> e.r.pair.ws]))
\* ---- read-only views (FixedTransactionBody alone, inside FixedBlock / FixedVersionedBlock): what a view reports as original bytes is
\* the SPAN of that body in the input, its hash is Blake2b-256 of that span, and the decoded body carries the data of that span
ViewOne(v, span, sc, where, dev) ==
  /\ Chk(v.orig = span, P, "View/" \o where \o "/original-bytes-differ-from-the-span-in-the-input/" \o dev, sc, [got |-> v.orig, span |-> span])
  /\ Emit([t |-> "HASHCHK", p |-> P, sig |-> "View/" \o where \o "/transaction-hash-not-of-original-body-bytes/" \o dev, sc |-> sc, alg |-> "blake2b256", pre |-> span, expect |-> v.hash])
  /\ (dev \notin {"dupkey", "drop", "swap"} =>
        LET a == Parse(v.body) b == Parse(span) IN Chk(~IsErr(a) /\ ~IsErr(b) /\ SameData(a, b), P, "View/" \o where \o "/decoded-body-carries-other-data/" \o dev, sc, [body |-> v.body]))
View(e) ==
  LET sc == e.sc B == Parse(e.block) IN
  /\ UNCHANGED <<orig, touched, addedV, addedB, alive>>
  /\ Obl(P, sc, <<"view", e.dev, Has(e.alone, "ok"), Has(e.in_block, "ok"), Has(e.in_vblock, "ok")>>)
  /\ IF Has(e.alone, "panic") THEN Fail(P, "View/alone/panic/" \o e.dev, sc, e.alone.panic)
     ELSE IF ~Has(e.alone, "ok") THEN Note(P, "body-encoding-not-accepted-by-the-view", sc, [dev |-> e.dev])
     ELSE ViewOne(e.alone, e.body_in, sc, "alone", e.dev)
  /\ \A w \in {"in_block", "in_vblock"} :
       LET r == e[w] IN
       IF Has(r, "panic") THEN Fail(P, "View/" \o w \o "/panic/" \o e.dev, sc, r.panic)
       ELSE IF ~Has(r, "ok") THEN Note(P, "block-not-accepted-by-the-view", sc, [dev |-> e.dev, where |-> w])
       ELSE IF IsErr(B) \/ B.mt # 4 \/ Len(B.kids) < 2 THEN Emit([t |-> "TOOLFAIL", what |-> "harness built a malformed block", sc |-> sc])
       ELSE LET bodies == B.kids[2].kids IN
            /\ Chk(r.n = Len(bodies), P, "View/" \o w \o "/number-of-bodies/" \o e.dev, sc, [n |-> r.n])
            /\ \A j \in 1..(IF r.n < Len(bodies) THEN r.n ELSE Len(bodies)) : ViewOne(r.txs[j], Span(e.block, bodies[j]), sc, w, e.dev)
Init == l = 1 /\ orig = <<>> /\ touched = {} /\ addedV = <<>> /\ addedB = <<>> /\ alive = FALSE
Next == /\ l <= Len(Rec)
        /\ LET e == Rec[l] IN CASE e.ev = "Load" -> Load(e) [] e.ev = "Sign" -> Sign(e) [] e.ev = "View" -> View(e) [] OTHER -> Datum(e)
        /\ (l = Len(Rec) => Done(l))
        /\ l' = l + 1
====
