---- MODULE Trace_Fees ----
(* C15 trace validator. One event per call of a stand-alone fee function; the    *)
(* L0 action Call(fn, args, result) is enabled iff result is the ledger's        *)
(* definition, or the definition exceeds 2^64-1 and the call is an error.        *)
EXTENDS Fees, TraceLib
VARIABLE l
N(e, k) == FromBE(e[k])
Overflow(x) == Geq(x.n, Mul(P64, x.d))                   \* floor(x) >= 2^64
OverflowCeil(x) == Lt(Mul(U64Max, x.d), x.n)             \* ceil(x)  >  2^64-1
Sig(e, what) == "Fee/" \o e.fn \o "/" \o what
Judge(e) ==
  LET r == e.r  sc == e.sc IN
  IF Has(r, "panic") THEN Fail("C15", Sig(e, "panic"), sc, r.panic)
  ELSE CASE e.fn = "ref" ->
         LET p == R(N(e, "pn_n"), N(e, "pd_n")) IN
         IF p.d = Zero THEN Note("C15", "zero-denominator", sc, 0)
         ELSE LET x == RefExpect(N(e, "size_n"), p) IN
              IF Has(r, "ok") THEN Chk(x.k = "val" /\ RIsFloor(FromBE(r.v_n), x.x), "C15", Sig(e, "wrong-value"), sc, [got |-> r.v_n, exp |-> x.k])
                                   /\ Obl("C15", sc, <<"ref", Len(e.size_n), Len(r.v_n)>>)
              ELSE Chk(x.k = "overflow" \/ Overflow(x.x), "C15", Sig(e, "spurious-error"), sc, r.err)
    [] e.fn = "exu" ->
         LET pm == R(N(e, "mn_n"), N(e, "md_n")) ps == R(N(e, "sn_n"), N(e, "sd_n")) IN
         IF pm.d = Zero \/ ps.d = Zero THEN Note("C15", "zero-denominator", sc, 0)
         ELSE LET x == ExUnitsCostExact(N(e, "mem_n"), N(e, "steps_n"), pm, ps) IN
              IF Has(r, "ok") THEN Chk(RIsCeil(FromBE(r.v_n), x), "C15", Sig(e, "wrong-value"), sc, [got |-> r.v_n, n |-> x.n, d |-> x.d])
                                   /\ Obl("C15", sc, <<"exu", Len(e.mem_n), Len(e.steps_n), Len(r.v_n)>>)
              ELSE Chk(OverflowCeil(x), "C15", Sig(e, "spurious-error"), sc, r.err)
    [] e.fn = "script" ->
         \* min_script_fee(transaction): ceiling of the price of the SUMMED units of all redeemers (not a sum of ceilings)
         LET pm == R(N(e, "mn_n"), N(e, "md_n")) ps == R(N(e, "sn_n"), N(e, "sd_n"))
             RECURSIVE Sum(_,_,_) Sum(i, k, acc) == IF i > Len(e.reds) THEN acc ELSE Sum(i + 1, k, Add(acc, FromBE(e.reds[i][k])))
             mem == Sum(1, 1, Zero) steps == Sum(1, 2, Zero) IN
         IF pm.d = Zero \/ ps.d = Zero THEN Note("C15", "zero-denominator", sc, 0)
         ELSE IF ~FitsU64(mem) \/ ~FitsU64(steps) THEN Note("C15", "execution-unit total above 2^64-1 (outside the quantifier)", sc, 0)
         ELSE LET x == ExUnitsCostExact(mem, steps, pm, ps) IN
              IF Has(r, "ok") THEN Chk(RIsCeil(FromBE(r.v_n), x), "C15", Sig(e, "wrong-value"), sc, [got |-> r.v_n, n |-> x.n, d |-> x.d, redeemers |-> Len(e.reds)])
                                   /\ Obl("C15", sc, <<"script", Len(e.reds), Len(ToBE(mem, 0)), Len(ToBE(steps, 0)), Len(r.v_n)>>)
              ELSE Chk(OverflowCeil(x), "C15", Sig(e, "spurious-error"), sc, r.err)
    [] e.fn = "lin" ->
         LET x == LinearFee(N(e, "size_n"), N(e, "a_n"), N(e, "b_n")) IN
         IF Has(r, "ok") THEN Chk(FromBE(r.v_n) = x, "C15", Sig(e, "wrong-value"), sc, [got |-> r.v_n, want |-> ToBE(x, 0)])
                              /\ Obl("C15", sc, <<"lin", Len(e.size_n), Len(e.a_n), Len(e.b_n)>>)
         ELSE Chk(~FitsU64(x), "C15", Sig(e, "spurious-error"), sc, r.err)
    [] OTHER -> Fail("C15", "Fee/unknown-fn", sc, e.fn)
Init == l = 1
Next == /\ l <= Len(Rec)
        /\ Rec[l].ev = "Fee"
        /\ Judge(Rec[l])
        /\ (l = Len(Rec) => Done(l))
        /\ l' = l + 1
====
