---- MODULE Trace_Numeric ----
(* C14 trace validator: every recorded call of an amount type is judged against   *)
(* Numeric!Expect; values handed out by the API are observed through all their    *)
(* accessors and encodings and every observation must describe the same number.   *)
EXTENDS Numeric, TraceLib
VARIABLE l
P == "C14"
Sig3(e, what) == e.ty \o "/" \o e.op \o "/" \o what
Opt(o) == IF o.some THEN <<"some">> ELSE <<"none">>
\* ---- observers of an Int whose value (by its own to_str) is y
IntObs(e, o, y) ==
  LET sc == e.sc IN
  /\ Chk(InIntRange(y), P, "Int/" \o e.op \o "/out-of-range", sc, o.to_str)
  /\ Chk(o.is_positive = ~y.neg, P, "Int/is_positive/wrong", sc, o.to_str)
  /\ Chk(IF y.neg THEN ~o.as_positive.some ELSE (FitsU64(y.mag) => o.as_positive.some /\ FromBE(o.as_positive.v_n) = y.mag),
         P, "Int/as_positive/wrong", sc, o.to_str)
  /\ Chk(IF ~y.neg THEN ~o.as_negative.some
         ELSE IF FitsU64(y.mag) THEN o.as_negative.some /\ FromBE(o.as_negative.v_n) = y.mag
         ELSE ~o.as_negative.some,       \* |y| = 2^64 does not fit: exact or nothing
         P, "Int/as_negative/wrong", sc, o.to_str)
  /\ Chk(IF InI32(y) THEN o.as_i32.some /\ Sg(o.as_i32.v) = y /\ ~o.as_i32_fail ELSE ~o.as_i32.some /\ o.as_i32_fail,
         P, "Int/as_i32/wrong", sc, o.to_str)
  /\ IF Has(o.to_bytes, "panic") THEN Fail(P, "Int/to_bytes/panic", sc, o.to_str)
     ELSE /\ Chk(InIntRange(y) => IntCborOk(y, o.to_bytes.bytes), P, "Int/to_bytes/wrong", sc, [s |-> o.to_str, b |-> o.to_bytes.bytes])
          /\ Chk(Has(o.rt, "ok") /\ o.rt.s = o.to_str, P, "Int/cbor-roundtrip/changed", sc, [s |-> o.to_str, rt |-> o.rt])
  /\ Chk(InIntRange(y) => Has(o.str_rt, "ok") /\ o.str_rt.s = o.to_str, P, "Int/string-roundtrip/changed", sc, [s |-> o.to_str, rt |-> o.str_rt])
  /\ Chk(InIntRange(y) => Has(o.json_rt, "ok") /\ o.json_rt.s = o.to_str, P, "Int/json-roundtrip/changed", sc, [s |-> o.to_str, rt |-> o.json_rt])
\* ---- observers of a BigInt whose value (by its own to_str) is y
BigIntObs(e, o, y) ==
  LET sc == e.sc IN
  /\ Chk(o.is_zero = (y.mag = Zero), P, "BigInt/is_zero/wrong", sc, o.to_str)
  /\ Chk(IF ~y.neg /\ FitsU64(y.mag) THEN o.as_u64.some /\ FromBE(o.as_u64.v_n) = y.mag ELSE ~o.as_u64.some, P, "BigInt/as_u64/wrong", sc, o.to_str)
  /\ Chk(IF InIntRange(y) THEN o.as_int.some /\ o.as_int.s = o.to_str ELSE ~o.as_int.some, P, "BigInt/as_int/wrong", sc, [s |-> o.to_str, got |-> o.as_int])
  /\ IF Has(o.to_bytes, "panic") THEN Fail(P, "BigInt/to_bytes/panic", sc, o.to_str)
     ELSE /\ Chk(BigIntCborOk(y, o.to_bytes.bytes), P, "BigInt/to_bytes/wrong", sc, [s |-> o.to_str, b |-> o.to_bytes.bytes])
          /\ Chk(Has(o.rt, "ok") /\ o.rt.s = o.to_str, P, "BigInt/cbor-roundtrip/changed", sc, [s |-> o.to_str, rt |-> o.rt])
  /\ Chk(Has(o.str_rt, "ok") /\ o.str_rt.s = o.to_str, P, "BigInt/string-roundtrip/changed", sc, o.to_str)
\* ---- values
ValOp(e) ==
  LET a == JVal(e.a.a) b == JVal(e.a.b) r == e.r sc == e.sc IN
  CASE e.op = "checked_add" ->
         LET x == VAdd(a, b) IN
         IF Has(r, "ok") THEN Chk(VEq(JVal(r.v), x), P, "Value/checked_add/wrong-value", sc, r.v)
         ELSE Chk(~VFits(x), P, "Value/checked_add/spurious-error", sc, r.err)
    [] e.op = "checked_sub" ->
         IF Has(r, "ok") THEN IF VLeq(b, a) THEN Chk(VEq(JVal(r.v), VSub(a, b)), P, "Value/checked_sub/wrong-value", sc, r.v)
                              ELSE Fail(P, "Value/checked_sub/saturated-silently", sc, r.v)
         ELSE Chk(~VLeq(b, a), P, "Value/checked_sub/spurious-error", sc, r.err)
    [] e.op = "clamped_sub" -> Chk(Has(r, "ok") /\ VEq(JVal(r.v), VMonus(a, b)), P, "Value/clamped_sub/wrong-value", sc, r)
    [] e.op = "compare" ->
         LET want == IF VEq(a, b) THEN <<"some", 0>> ELSE IF VLeq(a, b) THEN <<"some", -1>> ELSE IF VLeq(b, a) THEN <<"some", 1>> ELSE <<"none">>
             got == IF ~Has(r, "ok") THEN <<"err">> ELSE IF r.some THEN <<"some", r.c>> ELSE <<"none">> IN
         Chk(got = want, P, "Value/compare/wrong", sc, [got |-> got, want |-> want])
    [] e.op = "eq" -> Chk(Has(r, "ok") /\ r.b = VEq(a, b), P, "Value/eq/wrong", sc, r)
    [] OTHER -> Fail(P, "Value/unknown-op", sc, e.op)
\* ---- mint accumulation: add_asset calls with signed amounts; the resulting quantity is read back as a string
MintOp(e) ==
  LET r == e.r sc == e.sc
      RECURSIVE Sum(_,_)
      Sum(i, acc) == IF i > Len(e.a.amounts) THEN acc ELSE LET a2 == SAdd(acc, Sg(e.a.amounts[i])) IN IF Len(a2.mag) >= 0 THEN Sum(i+1, a2) ELSE acc
      x == Sum(1, SPos(Zero))
      RECURSIVE PrefixBad(_,_)      \* some partial sum leaves the Int range (the accumulator fails there, explicitly)
      PrefixBad(i, acc) == IF i > Len(e.a.amounts) THEN FALSE ELSE LET a2 == SAdd(acc, Sg(e.a.amounts[i])) IN IF ~InIntRange(a2) THEN TRUE ELSE PrefixBad(i+1, a2) IN
  IF Has(r, "ok") THEN
       /\ Chk(CanonDec(r.total) /\ InIntRange(DecS(r.total)), P, "Mint/accumulate/out-of-range", sc, r.total)
       /\ Chk(CanonDec(r.total) => DecS(r.total) = x, P, "Mint/accumulate/wrong-value", sc, r.total)
       /\ Chk(~Has(r, "mint_panic"), P, "Mint/to_bytes/panic", sc, r.total)
       /\ (Has(r, "mint") /\ InIntRange(x) =>
             LET it == Parse(r.mint) IN
             Chk(~IsErr(it) /\ it.mt = 5 /\ Len(it.kids) = 2 /\ it.kids[2].mt = 5 /\ Len(it.kids[2].kids) = 2
                 /\ Span(r.mint, it.kids[2].kids[2]) = ESInt(x), P, "Mint/accumulate/encoded-differently", sc, [total |-> r.total, mint |-> r.mint]))
  ELSE Chk(PrefixBad(1, SPos(Zero)) \/ x.mag = Zero \/ \E i \in 1..Len(e.a.amounts) : Sg(e.a.amounts[i]).mag = Zero, P, "Mint/accumulate/spurious-error", sc, r.err)
Judge(e) ==
  LET r == e.r sc == e.sc a == e.a IN
  IF Has(r, "panic") THEN Fail(P, Sig3(e, "panic"), sc, r.panic)
  ELSE IF e.ty = "Value" THEN ValOp(e) /\ Obl(P, sc, <<"Value", e.op, Has(r, "ok"), Len(e.a.a.assets), Len(e.a.b.assets)>>)
  ELSE IF e.ty = "Mint" THEN MintOp(e) /\ Obl(P, sc, <<"Mint", Len(e.a.amounts), Has(r, "ok")>>)
  ELSE
  LET x == CASE e.ty = "BigNum" -> BigNumOp(e.op, a) [] e.ty = "Int" -> IntCtor(e.op, a) [] e.ty = "BigInt" -> BigIntOp(e.op, a) [] OTHER -> Free IN
  /\ Obl(P, sc, <<e.ty, e.op, x.k, Has(r, "ok")>>)
  /\ CASE x.k = "err" -> Chk(~Has(r, "ok"), P, Sig3(e, "accepted-unrepresentable"), sc, r)
       [] x.k = "u" -> /\ Chk(Has(r, "ok") /\ FromBE(r.v_n) = x.v, P, Sig3(e, "wrong-value"), sc, r)
                       /\ (Has(r, "ok") /\ Has(r, "to_str") => Chk(r.to_str = Dec(FromBE(r.v_n)), P, "BigNum/to_str/wrong", sc, r))
                       /\ (Has(r, "ok") /\ Has(r, "to_bytes") => Chk(r.to_bytes = EUInt(FromBE(r.v_n)), P, "BigNum/to_bytes/wrong", sc, r))
       [] x.k = "b" -> Chk(Has(r, "ok") /\ r.b = x.v, P, Sig3(e, "wrong-value"), sc, r)
       [] x.k = "s" /\ e.ty = "BigNum" -> Chk(Has(r, "ok") /\ Sg(r.c) = x.v, P, Sig3(e, "wrong-value"), sc, r)
       [] x.k = "s" -> IF ~Has(r, "ok") THEN Fail(P, Sig3(e, "spurious-error"), sc, r.err)
                       \* the expected value is known: compare its decimal form with to_str (one conversion, no parsing back)
                       ELSE IF r.obs.to_str = SDec(x.v) THEN (IF e.ty = "Int" THEN IntObs(e, r.obs, x.v) ELSE BigIntObs(e, r.obs, x.v))
                       ELSE Fail(P, Sig3(e, "wrong-value"), sc, [got |-> r.obs.to_str, want |-> SDec(x.v)])
       [] x.k = "div" -> IF ~Has(r, "ok") THEN Fail(P, Sig3(e, "spurious-error"), sc, r.err)
                         ELSE Chk(CanonDec(r.obs.to_str) /\ DivOk(DecS(r.obs.to_str), x.a, x.b, x.ceil), P, Sig3(e, "wrong-value"), sc, [got |-> r.obs.to_str])
       [] x.k = "free" -> IF Has(r, "ok") /\ Has(r, "obs") /\ CanonDec(r.obs.to_str)
                          THEN LET y == DecS(r.obs.to_str) IN IF e.ty = "Int" THEN IntObs(e, r.obs, y) ELSE BigIntObs(e, r.obs, y)
                          ELSE TRUE
Init == l = 1
Next == /\ l <= Len(Rec)
        /\ Rec[l].ev = "Num"
        /\ Judge(Rec[l])
        /\ (l = Len(Rec) => Done(l))
        /\ l' = l + 1
====
