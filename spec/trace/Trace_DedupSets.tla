---- MODULE Trace_DedupSets ----
(* C16 trace validator: the bytes a collection serializes to, after any arrival     *)
(* history, are tag 258 over the first-occurrence subsequence of what arrived, each  *)
(* element once and byte-identical; asset maps are emitted in canonical key order    *)
(* (shorter key first, then bytewise) for every insertion order.                     *)
EXTENDS LedgerRules, TraceLib
VARIABLE l
P == "C16"
RECURSIVE FirstOccC(_,_,_)
FirstOccC(s, i, acc) == IF i > Len(s) THEN acc ELSE FirstOccC(s, i + 1, IF \E j \in 1..Len(acc) : acc[j] = s[i] THEN acc ELSE Append(acc, s[i]))
FirstOcc(s) == FirstOccC(s, 1, <<>>)
ElemOf(e, id) == e.elem[ToString(id)]
WsKey(ty) == CASE ty = "ws_native" -> 1 [] ty = "ws_plutus" -> 6 [] OTHER -> 4
\* Plutus scripts of several language versions placed through ONE typed setter: the witness set files them under keys 3 / 6 / 7;
\* every distinct script is emitted exactly once over the three fields together
MixJudge(e) ==
  LET sc == e.sc arrived == e.init \o e.adds want == FirstOcc(arrived)
      sig(w) == "Set/" \o e.type \o "/" \o e.path \o "/" \o w IN
  IF Has(e.r, "panic") THEN Fail(P, sig("panic"), sc, e.r.panic)
  ELSE IF ~Has(e.r, "ok") THEN Fail(P, sig("constructor-or-add-failed"), sc, e.r.err)
  ELSE LET it0 == Parse(e.r.bytes) IN
       IF IsErr(it0) THEN Fail(P, sig("serialized-bytes-malformed"), sc, it0.why) ELSE
       LET field(k) == IF HasK(it0, k) THEN Untag(GetK(it0, k)).kids ELSE <<>>
           kids == field(3) \o field(6) \o field(7)
           spans == {Span(e.r.bytes, kids[j]) : j \in 1..Len(kids)} IN
       /\ Obl(P, sc, <<e.type, e.path, Len(e.init), Len(e.adds), Len(want)>>)
       /\ Chk(Len(kids) = Len(want) /\ spans = {ElemOf(e, want[j]) : j \in 1..Len(want)}, P,
              IF Len(kids) > Len(want) THEN sig("element-serialized-twice") ELSE sig("element-lost"), sc, [arrived |-> arrived, got |-> Len(kids)])
SetJudge(e) ==
  IF e.type = "ws_plutus_mix" THEN MixJudge(e) ELSE
  LET sc == e.sc arrived == e.init \o e.adds want0 == FirstOcc(arrived)
      sig(w) == "Set/" \o e.type \o "/" \o e.path \o "/" \o w IN
  IF Has(e.r, "panic") THEN Fail(P, sig("panic"), sc, e.r.panic)
  ELSE IF ~Has(e.r, "ok") THEN
       \* an empty untagged / tagged list is a legal constructor input for every type here: no error is expected
       Fail(P, sig("constructor-or-add-failed"), sc, e.r.err)
  ELSE LET it0 == Parse(e.r.bytes) IN
       IF IsErr(it0) THEN Fail(P, sig("serialized-bytes-malformed"), sc, it0.why) ELSE
       LET isWs == e.type \in {"ws_native", "ws_plutus", "ws_data"}
           it == IF isWs THEN (IF want0 = <<>> THEN it0 ELSE GetK(it0, WsKey(e.type))) ELSE it0
           kids == IF isWs /\ want0 = <<>> THEN <<>> ELSE Untag(it).kids
           \* path "builder": a builder hands its elements out in its own order (some sort them); the order of the constructor part is
           \* taken as observed - it must be a permutation of the distinct constructor elements - and what add() appends follows it
           dinit == FirstOcc(e.init)
           IdOf(b) == IF \E id \in 1..3 : ElemOf(e, id) = b THEN CHOOSE id \in 1..3 : ElemOf(e, id) = b ELSE 0
           obs == [j \in 1..(IF Len(kids) < Len(dinit) THEN Len(kids) ELSE Len(dinit)) |-> IdOf(Span(e.r.bytes, kids[j]))]
           want == IF e.path = "builder" /\ Len(obs) = Len(dinit) /\ {obs[j] : j \in 1..Len(obs)} = {dinit[j] : j \in 1..Len(dinit)}
                   THEN obs \o FirstOcc(SelectSeq(e.adds, LAMBDA x : ~\E j \in 1..Len(dinit) : dinit[j] = x)) ELSE want0 IN
       /\ Obl(P, sc, <<e.type, e.path, Len(e.init), Len(e.adds), Len(want)>>)
       /\ Chk(Len(kids) = Len(want) /\ \A j \in 1..Len(want) : Span(e.r.bytes, kids[j]) = ElemOf(e, want[j]), P,
              IF Len(kids) > Len(want) THEN sig("element-serialized-twice") ELSE IF Len(kids) < Len(want) THEN sig("element-lost") ELSE sig("first-insertion-order-not-kept"), sc,
              [arrived |-> arrived, got |-> Len(kids)])
       /\ (want # <<>> => Chk(it.mt = 6 /\ Small(it.arg) = 258, P, sig("set-tag-missing"), sc, 0))
       /\ (~isWs => /\ Chk(e.r.len = Len(want), P, sig("len-differs-from-distinct-elements"), sc, [len |-> e.r.len])
                    /\ Chk(Len(e.r.gets) = Len(want) /\ \A j \in 1..Len(want) : e.r.gets[j] = ElemOf(e, want[j]), P, sig("get-differs"), sc, 0)
                    /\ Chk(\A j \in 1..Len(e.adds) : e.r.added[j] = ~(\E i \in 1..(Len(e.init) + j - 1) : arrived[i] = e.adds[j]), P, sig("add-reported-wrong-novelty"), sc, e.r.added))
\* canonical CBOR map order: shorter encoded key first, then bytewise (keys are byte strings here)
KeyLt(a, b) == Len(a) < Len(b) \/ (Len(a) = Len(b) /\ LexLt(a, b))
Canonical(m) == \A j \in 1..((Len(m.kids) \div 2) - 1) : KeyLt(m.kids[2*j-1].str, m.kids[2*j+1].str)
MaCanonical(m) == m.mt = 5 /\ Canonical(m) /\ \A j \in 1..(Len(m.kids) \div 2) : m.kids[2*j].mt = 5 /\ Canonical(m.kids[2*j])
AssetsJudge(e) ==
  LET sc == e.sc IN
  IF ~Has(e.r, "ok") THEN (IF Has(e.r, "panic") THEN Fail(P, "Assets/panic", sc, e.r.panic) ELSE Note(P, "assets-scenario-refused", sc, e.r.err))
  ELSE LET v == Parse(e.r.value) m == Parse(e.r.mint) b == Parse(e.r.body) IN
       /\ Obl(P, sc, <<"assets", [i \in 1..Len(e.order) |-> <<e.order[i].p, Len(e.order[i].n)>>]>>)
       /\ Chk(~IsErr(v) /\ v.mt = 4 /\ MaCanonical(v.kids[2]), P, "Assets/value-not-in-canonical-key-order", sc, e.order)
       /\ Chk(~IsErr(m) /\ MaCanonical(m), P, "Assets/mint-not-in-canonical-key-order", sc, e.order)
       /\ Chk(~IsErr(b) /\ HasK(b, 9) /\ MaCanonical(GetK(b, 9)), P, "Assets/builder-mint-field-not-in-canonical-key-order", sc, e.order)
Init == l = 1
Next == /\ l <= Len(Rec)
        /\ (IF Rec[l].ev = "Set" THEN SetJudge(Rec[l]) ELSE AssetsJudge(Rec[l]))
        /\ (l = Len(Rec) => Done(l))
        /\ l' = l + 1
====
