---- MODULE Trace_CoinSelection ----
(* C08 trace validator. L0 action SelectInputs: on success the inputs REALLY in    *)
(* the builder (outpoints read back from a built body, valued in the scenario's    *)
(* UTxO environment - not the algorithm's running totals) are the previous inputs   *)
(* plus distinct offered UTxOs and cover total output + minimum fee in lovelace     *)
(* and every requested asset. Largest-first (pure lovelace) additionally: the       *)
(* chosen set is a top segment by amount, minimal, and failure is honest.           *)
(* A model behaviour replayed on the code that selects something else is DRIFT      *)
(* (a note), never a violation.                                                     *)
EXTENDS LedgerRules, TraceLib
VARIABLES l, env, offered, pre, strat, before, allfee
P == "C08"
Pt(p) == <<p[1], p[2]>>
SumOver(S) == LET RECURSIVE G(_,_) G(T, acc) == IF T = {} THEN acc ELSE LET x == CHOOSE y \in T : TRUE a2 == VAdd(acc, env[x]) IN IF Len(a2.coin) >= 0 THEN G(T \ {x}, a2) ELSE acc IN G(S, VZero)
Covers(real, out, fee) == /\ Geq(real.coin, Add(out.coin, fee))
                          /\ \A id \in DOMAIN out.ma : Geq(GetQ(real.ma, id), out.ma[id])
PureAda == \A k \in DOMAIN env : Norm(env[k].ma) = EmptyMa
Reset(e) == /\ env' = [k \in {<<e.utxo[i].txid, e.utxo[i].ix>> : i \in 1..Len(e.utxo)} |->
                         JVal((CHOOSE u \in {e.utxo[i] : i \in 1..Len(e.utxo)} : <<u.txid, u.ix>> = k).value)]
            /\ offered' = {Pt(e.offered[i]) : i \in 1..Len(e.offered)}
            /\ pre' = {Pt(e.pre[i]) : i \in 1..Len(e.pre)}
            /\ strat' = e.strat
            /\ before' = [input |-> JVal(e.before.input), output |-> JVal(e.before.output), fee |-> FromBE(e.before.min_fee_n)]
            /\ allfee' = IF Has(e, "all_min_fee_n") THEN <<FromBE(e.all_min_fee_n)>> ELSE <<>>
Shortfall == Lt(before.input.coin, Add(before.output.coin, before.fee))
LFPure == strat \in {"LargestFirst", "LargestFirstMultiAsset"} /\ PureAda /\ Norm(before.output.ma) = EmptyMa
Selected(e) ==
  LET sc == e.sc r == e.r IN
  /\ UNCHANGED <<env, offered, pre, strat, before, allfee>>
  /\ IF Has(r, "panic") THEN Fail(P, "Select/panic", sc, [why |-> r.panic, strat |-> strat, draws |-> e.draws])
     ELSE IF Has(r, "ok") THEN
       IF ~Has(e, "obs") THEN Fail(P, "Select/cannot-read-back", sc, e.obs_err)
       ELSE
       LET o == e.obs
           ins == {Pt(o.inputs[i]) : i \in 1..Len(o.inputs)}
           added == ins \ pre
           real == SumOver(ins \cap DOMAIN env)
           out == JVal(o.total_output) fee == FromBE(o.min_fee_n)
           d == [strat |-> strat, draws |-> e.draws] IN
       /\ Obl(P, sc, <<strat, Cardinality(offered), Cardinality(pre), Cardinality(added), Len(e.draws)>>)
       /\ Chk(Len(o.inputs) = Cardinality(ins), P, "Select/duplicate-input", sc, d)
       /\ Chk(pre \subseteq ins, P, "Select/previous-input-lost", sc, d)
       /\ Chk(added \subseteq offered, P, "Select/input-not-offered", sc, d)
       /\ Chk(VEq(JVal(o.explicit_input), real), P, "Select/explicit-input-getter-differs-from-real-inputs", sc, d)
       /\ Chk(Covers(VAdd(real, [coin |-> Monus(JVal(o.total_input).coin, JVal(o.explicit_input).coin), ma |-> EmptyMa]), out, fee), P, "Select/success-but-not-covered", sc,
              [strat |-> strat, draws |-> e.draws, have |-> ToBE(real.coin, 0), need |-> ToBE(Add(out.coin, fee), 0)])
       /\ (LFPure /\ Shortfall /\ added # {} =>
             \* non-increasing order + stop at first cover: every chosen amount >= every amount left behind ...
             /\ Chk(\A x \in added, y \in offered \ ins : Geq(env[x].coin, env[y].coin), P, "LargestFirst/not-largest-first", sc, d)
             \* ... and without the smallest chosen one the target was not yet reached (fees grow with the number of inputs)
             /\ LET m == CHOOSE x \in added : \A y \in added : Leq(env[x].coin, env[y].coin) IN
                Chk(Lt(Sub(real.coin, env[m].coin), Add(out.coin, fee)), P, "LargestFirst/did-not-stop-when-covered", sc, d))
       /\ (Has(e, "pred") =>
             LET predsel == {Pt(<<[i \in 1..32 |-> k], 0>>) : k \in {j \in 1..Len(e.pred.selected) : e.pred.selected[j]}} IN
             IF e.pred.result = "ok" /\ predsel = added THEN Emit([t |-> "CONF", sc |-> sc])
             ELSE Note(P, "model-drift", sc, [pred |-> e.pred.result, got |-> "ok"]))
     ELSE
       /\ Obl(P, sc, <<strat, Cardinality(offered), Cardinality(pre), "err", Len(e.draws)>>)
       /\ (LFPure /\ Shortfall /\ allfee # <<>> =>
             Chk(Lt(SumOver(pre \cup offered).coin, Add(before.output.coin, allfee[1])), P, "LargestFirst/insufficient-although-all-offered-suffice", sc,
                 [have |-> ToBE(SumOver(pre \cup offered).coin, 0), need |-> ToBE(Add(before.output.coin, allfee[1]), 0)]))
       \* largest-first with assets: insufficiency may be reported only if everything offered (plus what the builder holds) does not
       \* cover the outputs and the fee of the transaction that spends it all
       /\ (strat = "LargestFirstMultiAsset" /\ ~LFPure /\ allfee # <<>> =>
             LET all == VAdd(SumOver(pre \cup offered), [coin |-> Monus(before.input.coin, SumOver(pre).coin), ma |-> EmptyMa]) IN
             Chk(~Covers(all, before.output, allfee[1]), P, "LargestFirst/insufficient-although-all-offered-suffice", sc, [strat |-> strat, err |-> e.r]))
       /\ (Has(e, "pred") => IF e.pred.result = "insufficient" THEN Emit([t |-> "CONF", sc |-> sc]) ELSE Note(P, "model-drift", sc, [pred |-> e.pred.result, got |-> "err"]))
Other(e) == UNCHANGED <<env, offered, pre, strat, before, allfee>> /\
            (e.ev = "Explored" => IF e.truncated THEN Note(P, "exploration-truncated", e.sc, e.leaves) ELSE Emit([t |-> "EXH", sc |-> e.sc, leaves |-> e.leaves]))
Init == l = 1 /\ env = <<>> /\ offered = {} /\ pre = {} /\ strat = "" /\ before = <<>> /\ allfee = <<>>
Next == /\ l <= Len(Rec)
        /\ LET e == Rec[l] IN
           CASE e.ev = "Reset" -> Reset(e)
             [] e.ev = "Selected" -> Selected(e)
             [] OTHER -> Other(e)
        /\ (l = Len(Rec) => Done(l))
        /\ l' = l + 1
====
