---- MODULE Trace_Hashes ----
(* C09, stand-alone helpers. hash_script_data(redeemers, cost models, datums) must be the      *)
(* ledger's script-integrity hash of the witness set that carries these redeemers and datums:   *)
(* H(redeemers bytes ++ datums bytes ++ language views), with A0 ++ datums ++ A0 when there are *)
(* datums but no redeemers; the language views are encoded by the specification                 *)
(* (LedgerRules!LangViews: PlutusV1 double encoding, canonical key order). The redeemer and     *)
(* datum bytes are read out of the logged witness set. hash_auxiliary_data / hash_plutus_data   *)
(* are Blake2b-256 of the serialized value. Blake2b is uninterpreted: HASHCHK.                  *)
EXTENDS LedgerRules, TraceLib
VARIABLE l
HashChk(sig, pre, expect, sc) == Emit([t |-> "HASHCHK", p |-> "C09", alg |-> "blake2b256", pre |-> pre, expect |-> expect, sig |-> sig, sc |-> sc])
Sdh(e) ==
  IF ~Has(e.r, "ok") THEN Note("C09", "scenario refused by a decoder", e.sc, e.r)
  ELSE LET ws == Parse(e.r.ws) cm == Parse(e.r.cm)
           langs == {Small(cm.kids[2*i-1].arg) + 1 : i \in 1..(Len(cm.kids) \div 2)}
           CostOf(v) == LET ix == CHOOSE i \in 1..(Len(cm.kids) \div 2) : Small(cm.kids[2*i-1].arg) + 1 = v
                            lst == cm.kids[2*ix] IN [j \in 1..Len(lst.kids) |-> SIntOf(lst.kids[j])]
           datB == IF HasK(ws, 4) THEN Span(e.r.ws, GetK(ws, 4)) ELSE <<>>
           pre == IF e.r.nred = 0 /\ HasK(ws, 4) THEN <<160>> \o datB \o <<160>> ELSE e.r.red \o datB \o LangViews(langs, CostOf) IN
       /\ Obl("C09", e.sc, <<"hash_script_data", e.r.nred, HasK(ws, 4), e.dat_given, langs, e.r.red[1] >= 160>>)
       /\ Chk(HasK(ws, 5) => Span(e.r.ws, GetK(ws, 5)) = e.r.red, "C09", "Helper/redeemers-emitted-differ-from-redeemers-hashed", e.sc, [red |-> e.r.red])
       /\ IF e.dat_given /\ ~HasK(ws, 4) THEN Note("C09", "an empty datum list was given: the witness set carries no datum field, the definition is silent", e.sc, 0)
          ELSE HashChk("Helper/hash_script_data-differs-from-ledger-definition", pre, e.r.b, e.sc)
Init == l = 1
Next == /\ l <= Len(Rec)
        /\ LET e == Rec[l] IN
           CASE e.ev = "HashScriptData" -> Sdh(e)
             [] e.ev = "HashAux" -> IF Has(e.r, "ok") THEN Obl("C09", e.sc, <<"hash_auxiliary_data", e.r.aux[1]>>) /\ HashChk("Helper/hash_auxiliary_data-is-not-blake2b256-of-the-bytes", e.r.aux, e.r.b, e.sc) ELSE TRUE
             [] e.ev = "HashDatum" -> IF Has(e.r, "ok") THEN Obl("C09", e.sc, <<"hash_plutus_data", e.r.pd[1]>>) /\ Chk(e.r.pd = e["in"], "C04", "Datum/bytes-changed-by-decode-encode", e.sc, 0)
                                                             /\ HashChk("Helper/hash_plutus_data-is-not-blake2b256-of-the-original-bytes", e["in"], e.r.b, e.sc) ELSE TRUE
             [] OTHER -> TRUE
        /\ (l = Len(Rec) => Done(l))
        /\ l' = l + 1
====
