---- MODULE Trace_Address ----
(* C11 trace validator. ParseStrict(b, r): r = Address!Classify(b). ParseEmbedded:  *)
(* a structure holding b always decodes; a valid canonical address is reported as    *)
(* by the strict parser, anything else is a malformed address holding b verbatim;    *)
(* the structure re-serializes to exactly its input bytes.                           *)
EXTENDS Address, TraceLib
VARIABLE l
P == "C11"
SameCred(j, c) == j.script = c.script /\ j.hash = c.hash
FieldsOk(s, r) == /\ s.kind = r.kind /\ Has(s, "net") /\ s.net = r.net
                  /\ Has(s, "pay") /\ SameCred(s.pay, r.pay)
                  /\ (r.kind = "base" => Has(s, "stake") /\ SameCred(s.stake, r.stake))
                  /\ (r.kind = "ptr" => Has(s, "ptr") /\ <<FromBE(s.ptr[1]), FromBE(s.ptr[2]), FromBE(s.ptr[3])>> = r.ptr)
\* input class of an embedded address that is not a canonical valid address (part of the failure signature)
Class(r) == IF r.ok = "no" THEN r.why ELSE IF r.ok = "yes" /\ ~r.canonical THEN "non-minimal-pointer" ELSE "valid"
OutAddr(o) == IF o.mt = 4 THEN o.kids[1].str ELSE (LET RECURSIVE G(_) G(j) == IF j > Len(o.kids) THEN <<>> ELSE IF o.kids[j].mt = 0 /\ o.kids[j].arg = <<0>> THEN o.kids[j+1].str ELSE G(j+2) IN G(1))
Embedded(e, form, x, r, expectIn) ==
  LET sc == e.sc b == e.bytes IN
  /\ (IF x.in_bytes = expectIn THEN TRUE ELSE Emit([t |-> "TOOLFAIL", what |-> "harness built another enclosing structure", sc |-> sc]))
  /\ IF Has(x, "panic") THEN Fail(P, "Embedded/" \o form \o "/panic/" \o Class(r), sc, [why |-> x.panic, addr |-> b])
     ELSE IF ~Has(x, "ok") THEN Fail(P, "Embedded/" \o form \o "/structure-undecodable/" \o Class(r), sc, [err |-> x.err, addr |-> b])
     ELSE /\ Chk(x.addr_bytes = b, P, "Embedded/" \o form \o "/address-bytes-changed/" \o Class(r), sc, [addr |-> b, got |-> x.addr_bytes])
          \* written back unchanged: the re-serialized structure (whatever output format it uses) carries exactly these address bytes
          /\ IF ~Has(x.out_bytes, "ok") THEN Fail(P, "Embedded/" \o form \o "/reserialization-panic/" \o Class(r), sc, [addr |-> b])
             ELSE LET o == Parse(x.out_bytes.b) IN
                  Chk(~IsErr(o) /\ OutAddr(o) = b, P, "Embedded/" \o form \o "/address-not-written-back-unchanged/" \o Class(r), sc, [addr |-> b])
          /\ (r.ok = "yes" /\ r.canonical => Chk(x.kind = r.kind, P, "Embedded/" \o form \o "/valid-address-misclassified", sc, [addr |-> b, got |-> x.kind]))
          /\ (r.ok = "no" => Chk(x.kind = "malformed", P, "Embedded/" \o form \o "/invalid-address-not-kept-as-malformed/" \o r.why, sc, [addr |-> b, got |-> x.kind]))
          \* bytes that are not a valid address stay invalid in text: the strict Bech32 parser refuses the text form of a malformed address
          /\ (r.ok = "no" /\ x.kind = "malformed" /\ Has(x, "strict_bech32") => Chk(~Has(x.strict_bech32, "ok"), P, "Strict/bech32-accepted-invalid-" \o r.why, sc, [addr |-> b, prefix |-> x.bech32_prefix]))
Judge(e) ==
  LET sc == e.sc b == e.bytes s == e.strict r == Classify(b) IN
  /\ Obl(P, sc, <<IF b = <<>> THEN -1 ELSE b[1] \div 16, Len(b), r.ok, IF r.ok = "no" THEN r.why ELSE "">>)
  \* ---- strict stand-alone parser
  /\ IF Has(s, "panic") THEN Fail(P, "Strict/panic", sc, [why |-> s.panic, addr |-> b])
     ELSE CASE r.ok = "no" -> Chk(~Has(s, "ok"), P, "Strict/accepted-invalid-" \o r.why, sc, [addr |-> b, as |-> Get(s, "kind", "")])
            [] r.ok = "yes" ->
                 IF ~Has(s, "ok") THEN Chk(~r.canonical, P, "Strict/rejected-valid-address", sc, [addr |-> b, err |-> s.err])
                 ELSE /\ Chk(FieldsOk(s, r), P, "Strict/wrong-classification", sc, [addr |-> b, got |-> s.kind])
                      /\ (r.canonical => Chk(s.to_bytes = b, P, "Strict/bytes-roundtrip-changed", sc, [addr |-> b, got |-> s.to_bytes]))
                      /\ Chk(Has(s.bech, "ok") /\ s.bech.rt_bytes = s.to_bytes, P, "Strict/bech32-roundtrip-changed", sc, [addr |-> b])
            [] OTHER -> \* Byron structure: acceptance depends on CRC32(payload), evaluated by the digest oracle
                 /\ Emit([t |-> "CRCCHK", p |-> P, sc |-> sc, pre |-> r.payload, crc |-> ToBE(r.crc, 4), accepted |-> Has(s, "ok"), known |-> r.known, addr |-> b])
                 /\ (Has(s, "ok") =>
                       /\ Chk(s.kind = "byron", P, "Strict/byron-misclassified", sc, [addr |-> b, got |-> s.kind])
                       /\ Chk(Has(s.bech, "ok") /\ s.bech.rt_bytes = s.to_bytes, P, "Strict/bech32-roundtrip-changed", sc, [addr |-> b])
                       /\ Chk(Has(s, "b58") /\ Has(s.b58, "ok") /\ s.b58.rt_bytes = s.to_bytes, P, "Strict/base58-roundtrip-changed", sc, [addr |-> b])
                       /\ (~r.indef => Chk(s.to_bytes = b, P, "Strict/bytes-roundtrip-changed", sc, [addr |-> b, got |-> s.to_bytes])))
  \* ---- embedded in a legacy (array) and a post-Alonzo (map) output
  /\ (r.ok \in {"yes", "no"} =>
        /\ Embedded(e, "legacy", e.emb.legacy, r, EArrH(2) \o EBytes(b) \o <<1>>)
        /\ Embedded(e, "map", e.emb.map, r, EMapH(2) \o <<0>> \o EBytes(b) \o <<1, 1>>))
Init == l = 1
Next == /\ l <= Len(Rec)
        /\ Rec[l].ev = "Addr"
        /\ Judge(Rec[l])
        /\ (l = Len(Rec) => Done(l))
        /\ l' = l + 1
====
