---- MODULE Trace_TxBuilder ----
(* L0 of the transaction builder, bound to recorded histories of builder calls.      *)
(* Abstract state: the UTxO environment and parameters of the scenario, whether       *)
(* balancing was reported successful and nothing was changed since, the caller's fee  *)
(* request, the last built bytes. Every obligation is evaluated on the BYTES of the   *)
(* transaction, parsed by CBOR.tla, with LedgerRules:                                 *)
(*   C05 Balanced      C06 fee >= min fee of the really signed bytes; fee requests    *)
(*   C07 min-ADA, value size, transaction size      C16 Build;Build identical         *)
(*   C19 collateral equation                                                          *)
EXTENDS LedgerRules, TraceLib
F == INSTANCE Fees
VARIABLES l, env, pp, keys, byron, balanced, stale, feeReq, lastTx, colSt, colPct, scripts, attach, sdhFresh, rereg
vars == <<l, env, pp, keys, byron, balanced, stale, feeReq, lastTx, colSt, colPct, scripts, attach, sdhFresh, rereg>>
\* ---- addresses (structure only; the full classification is Address.tla, C11)
IsByronAddr(a) == a # <<>> /\ a[1] \div 16 = 8
\* Shelley address with a key payment credential: header types 0,2 (base), 4 (pointer), 6 (enterprise); bit 4 set = script
PayKeyAddr(a) == Len(a) >= 29 /\ (a[1] \div 16) \in {0, 2, 4, 6}
PayKey(a) == SubSeq(a, 2, 29)
\* reward account bytes: e0/e1 key, f0/f1 script
RewardIsKey(r) == Len(r) = 29 /\ r[1] \div 16 = 14
\* ---- required key-hash signers computed from the emitted body (+ environment for spent outputs)
CredKey(c) == IF c.mt = 4 /\ Len(c.kids) = 2 /\ Small(c.kids[1].arg) = 0 THEN {c.kids[2].str} ELSE {}
CertSigners(c) == LET k == CertKind(c) IN
   CASE k \in {0, 5, 6} -> {}
     [] k = 3 -> {c.kids[2].str} \cup {Untag(c.kids[8]).kids[j].str : j \in 1..Len(Untag(c.kids[8]).kids)}
     [] k = 4 -> {c.kids[2].str}
     [] OTHER -> CredKey(c.kids[2])
\* all type-0 (signature) leaves of a native script item
RECURSIVE NativeLeaves(_)
NativeLeaves(ns) == LET t == Small(ns.kids[1].arg) IN
   IF t = 0 THEN {ns.kids[2].str}
   ELSE IF t \in {1, 2} THEN UNION {NativeLeaves(ns.kids[2].kids[j]) : j \in 1..Len(ns.kids[2].kids)}
   ELSE IF t = 3 THEN UNION {NativeLeaves(ns.kids[3].kids[j]) : j \in 1..Len(ns.kids[3].kids)}
   ELSE {}
SpentKeys(body, key) == LET ins == Elems(body, key) IN
   {PayKey(env[InputKey(ins[j])].addr) : j \in {i \in 1..Len(ins) : InputKey(ins[i]) \in DOMAIN env /\ PayKeyAddr(env[InputKey(ins[i])].addr)}}
SpentByron(body, key) == LET ins == Elems(body, key) IN
   {env[InputKey(ins[j])].addr : j \in {i \in 1..Len(ins) : InputKey(ins[i]) \in DOMAIN env /\ IsByronAddr(env[InputKey(ins[i])].addr)}}
\* ---- events
Reset(e) ==
  /\ env' = [k \in {<<e.utxo[i].txid, e.utxo[i].ix>> : i \in 1..Len(e.utxo)} |->
               LET u == CHOOSE x \in {e.utxo[i] : i \in 1..Len(e.utxo)} : <<x.txid, x.ix>> = k IN
               [value |-> JVal(u.value), addr |-> u.addr, dh |-> Get(u, "datum_hash", <<>>), inl |-> Get(u, "inline_datum", <<>>),
                rsh |-> Get(u, "ref_script_hash", <<>>), rss |-> Get(u, "ref_script_size", 0)]]
  /\ pp' = [a |-> FromSmall(e.pp.a), b |-> FromSmall(e.pp.b), cpb |-> FromSmall(e.pp.cpb), maxval |-> e.pp.maxval, maxtx |-> e.pp.maxtx,
            kd |-> FromBE(e.pp.kd_n), pd |-> FromBE(e.pp.pd_n),
            ex |-> Get(e.pp, "ex", <<0, 1, 0, 1>>), ref |-> Get(e.pp, "ref", <<0, 1>>)]
  /\ keys' = [v \in {e.keys[i].vkey : i \in 1..Len(e.keys)} |-> (CHOOSE x \in {e.keys[i] : i \in 1..Len(e.keys)} : x.vkey = v).hash]
  /\ byron' = [a \in {e.byron[i].addr : i \in 1..Len(e.byron)} |-> (CHOOSE x \in {e.byron[i] : i \in 1..Len(e.byron)} : x.addr = a).vkey]
  /\ balanced' = FALSE /\ stale' = FALSE /\ feeReq' = <<"none">> /\ lastTx' = <<>> /\ colSt' = "unset" /\ colPct' = <<>>
  \* script table: bytes -> hash (re-checked with hashlib by the orchestrator); redeemer attachments per purpose
  \* the script table is keyed by <<language (0 = native), bytes>>: the same compiled code under two Plutus versions is two scripts with two hashes
  /\ scripts' = IF Has(e, "scripts") THEN [b \in {<<e.scripts[i].lang, e.scripts[i].bytes>> : i \in 1..Len(e.scripts)} |-> (CHOOSE x \in {e.scripts[i] : i \in 1..Len(e.scripts)} : x.lang = b[1] /\ x.bytes = b[2])] ELSE <<>>
  /\ attach' = [p \in 0..5 |-> {}] /\ sdhFresh' = <<>> /\ rereg' = FALSE
Balancing == {"AddChange", "AddChangeWithDatum", "AddInputsFromAndChange", "AddInputsFromAndChangeWithCollateralReturn"}
ColHelpers == {"SetCollateralReturnAndTotal", "SetTotalCollateralAndReturn", "AddInputsFromAndChangeWithCollateralReturn"}
Op(e) ==
  /\ UNCHANGED <<env, pp, keys, byron, lastTx, scripts>>
  /\ IF Has(e.r, "panic") THEN Fail("C05", "Builder/" \o e.op \o "/panic", e.sc, e.r.panic) ELSE TRUE
  /\ balanced' = (IF e.op \in Balancing THEN Has(e.r, "ok") ELSE IF Has(e.r, "ok") THEN FALSE ELSE balanced)
  \* stale: balancing reported success earlier and other operations followed. A VALIDATING build (build_tx) that still produces a
  \* transaction then has to satisfy the same rules ("reports that balancing succeeded and then produces a transaction", in any order of calls)
  /\ stale' = (IF e.op \in Balancing THEN FALSE ELSE IF Has(e.r, "ok") THEN (balanced \/ stale) ELSE stale)
  \* a fee request counts while no balancing has succeeded yet: once add_change / selection finalised the fee, a later set_fee is
  \* one of the "other operations" (state stale) - whatever a validating build then produces must still be balanced
  /\ feeReq' = (IF ~Has(e.r, "ok") \/ balanced \/ stale THEN feeReq ELSE IF e.op = "SetFee" THEN <<"exact", FromBE(e.n)>> ELSE IF e.op = "SetMinFee" THEN <<"notless", FromBE(e.n)>> ELSE feeReq)
  \* collateral fields: unset | set by a helper | set through a raw setter | a helper failed while nothing was set
  /\ colSt' = (IF e.op \in ColHelpers THEN (IF Has(e.r, "ok") THEN "helper" ELSE IF colSt \in {"unset", "failed"} THEN "failed" ELSE colSt)
               ELSE IF e.op \in {"SetCollateralReturn", "SetTotalCollateral"} /\ Has(e.r, "ok") THEN "raw"
               \* further collateral inputs after a helper ran make its figures stale; before any helper they change nothing
               ELSE IF e.op \in {"AddCollateral", "RemoveCollateralReturn", "RemoveTotalCollateral"} /\ Has(e.r, "ok") /\ colSt = "helper" THEN "raw" ELSE colSt)
  \* redeemer attachments: spends accumulate, the other purposes are replaced by the last successful Set* call
  /\ attach' = (IF Has(e.r, "ok") /\ e.op = "AddInput" /\ Has(e, "item") THEN [attach EXCEPT ![0] = {a \in @ : a.item # e.item}]     \* now a regular input: no script use
                ELSE IF ~Has(e.r, "ok") \/ ~Has(e.r, "attach") THEN attach
                ELSE LET new == {e.r.attach[i] : i \in 1..Len(e.r.attach)} IN
                     CASE e.op = "AddPlutusInput" -> [attach EXCEPT ![0] = {a \in @ : \A n \in new : a.item # n.item} \cup new]    \* re-registering an outpoint replaces its witness
                       \* (the older mint entry points work on the mint the builder holds: adding leaves the attachments alone,
                       \* replacing the whole mint or removing it drops them)
                       [] e.op \in {"SetMint", "SetMintLegacy", "RemoveMint"} -> [attach EXCEPT ![1] = new]
                       [] e.op \in {"SetCerts", "RemoveCerts"} -> [attach EXCEPT ![2] = new]
                       [] e.op \in {"SetWithdrawals", "RemoveWithdrawals"} -> [attach EXCEPT ![3] = new]
                       [] e.op = "SetVotes" -> [attach EXCEPT ![4] = new]
                       [] e.op = "SetProposals" -> [attach EXCEPT ![5] = new]
                       [] OTHER -> attach)
  \* an outpoint that was registered as a Plutus input is registered again (as a regular or as another Plutus input)
  /\ rereg' = (rereg \/ (Has(e.r, "ok") /\ ((e.op = "AddInput" /\ Has(e, "item") /\ \E a \in attach[0] : a.item = e.item)
                                          \/ (e.op = "AddPlutusInput" /\ Has(e.r, "attach") /\ \E a \in attach[0] : a.item = e.r.attach[1].item))))
  \* the script data hash is the obligation of C09 only while it was computed after the last script-related call
  /\ sdhFresh' = (IF ~Has(e.r, "ok") THEN sdhFresh
                  ELSE IF e.op = "CalcScriptDataHash" THEN <<e.langs>>
                  \* (an input added later - also a key-owned or selected one - moves the spending pointers, which are part of the hashed redeemer bytes)
                  ELSE IF e.op \in {"AddPlutusInput", "AddNativeInput", "SetMint", "SetCerts", "SetWithdrawals", "SetVotes", "SetProposals", "AddExtraDatum", "AddRefInput",
                                    "AddInput", "AddAny2Input", "AddInputsFrom", "AddInputsFromAndChange", "AddInputsFromAndChangeWithCollateralReturn",
                                    "AddMintAsset", "AddMintAssetAndOutput", "SetMintAsset", "SetMintLegacy", "RemoveMint", "RemoveCerts", "RemoveWithdrawals",
                                    "SetScriptDataHash", "RemoveScriptDataHash"} THEN <<>>
                  ELSE sdhFresh)
  /\ colPct' = (IF e.op = "AddInputsFromAndChangeWithCollateralReturn" /\ Has(e.r, "ok") THEN <<FromBE(e.pct_n)>> ELSE IF e.op \in ColHelpers \cup {"SetCollateralReturn", "SetTotalCollateral"} THEN <<>> ELSE colPct)
\* ---- Plutus / script obligations of a built transaction (C09 C10 C18 and the script parts of C06)
\* fixed expansion rule shared with the harness: cost parameters of language v
CostOf(v) == <<SPos(FromSmall(197209 + v)), SPos(Zero), SPos(One), SPos(FromSmall(23000)), SI(TRUE, FromSmall(5)), SPos(FromSmall(100))>>
AllAttach == UNION {attach[p] : p \in 0..5}
ScriptLockedAddr(a) == Len(a) >= 29 /\ (a[1] \div 16) \in {1, 3, 5, 7}
WsScriptHashes(ws) == LET one(key, lang) == {IF <<lang, Elems(ws, key)[j].str>> \in DOMAIN scripts THEN scripts[<<lang, Elems(ws, key)[j].str>>].hash ELSE <<0>> : j \in 1..Len(Elems(ws, key))} IN
                      one(3, 1) \cup one(6, 2) \cup one(7, 3)
WsNativeHashes(B, ws) == {IF <<0, Span(B, Elems(ws,1)[j])>> \in DOMAIN scripts THEN scripts[<<0, Span(B, Elems(ws,1)[j])>>].hash ELSE <<0>> : j \in 1..Len(Elems(ws,1))}
\* script hashes the BODY itself calls for (independent of what the harness says it attached)
CredScript(c) == IF c.mt = 4 /\ Len(c.kids) = 2 /\ Small(c.kids[1].arg) = 1 THEN {c.kids[2].str} ELSE {}
CertScripts(c) == IF CertKind(c) \in {0, 3, 4, 5, 6} THEN {} ELSE CredScript(c.kids[2])
NeededScripts(body) ==
   {SubSeq(env[InputKey(Elems(body,0)[j])].addr, 2, 29) : j \in {i \in 1..Len(Elems(body,0)) : InputKey(Elems(body,0)[i]) \in DOMAIN env /\ ScriptLockedAddr(env[InputKey(Elems(body,0)[i])].addr)}}
   \cup MintPolicies(body)
   \cup UNION {CertScripts(Elems(body,4)[j]) : j \in 1..Len(Elems(body,4))}
   \cup {SubSeq(r, 2, 29) : r \in {x \in RewardAccounts(body) : (x[1] \div 16) = 15}}
   \cup (IF HasK(body, 19) THEN LET v == GetK(body, 19) IN {v.kids[2*j-1].kids[2].str : j \in {i \in 1..(Len(v.kids) \div 2) : Small(v.kids[2*i-1].kids[1].arg) \in {1, 3}}} ELSE {})
   \* the guardrail (proposal policy) script of parameter-change and treasury-withdrawal proposals
   \cup UNION {PropPolicy(Elems(body,20)[j]) : j \in 1..Len(Elems(body,20))}
RefInputKeys(body) == {InputKey(Elems(body,18)[j]) : j \in 1..Len(Elems(body,18))}
VKeysNeeded(body, ws) ==
   SpentKeys(body, 0) \cup SpentKeys(body, 13)
   \cup UNION {CertSigners(Elems(body,4)[j]) : j \in 1..Len(Elems(body,4))}
   \cup (IF HasK(body, 5) THEN LET w == GetK(body, 5) IN {SubSeq(w.kids[2*j-1].str, 2, 29) : j \in {i \in 1..(Len(w.kids) \div 2) : RewardIsKey(w.kids[2*i-1].str)}} ELSE {})
   \cup {Elems(body,14)[j].str : j \in 1..Len(Elems(body,14))}
   \cup UNION {NativeLeaves(Elems(ws,1)[j]) : j \in 1..Len(Elems(ws,1))}
   \* key-hash voters of body[19]: voter = [type, hash], types 0 (committee hot key), 2 (DRep key), 4 (stake pool)
   \cup (IF HasK(body, 19) THEN LET v == GetK(body, 19) IN {v.kids[2*j-1].kids[2].str : j \in {i \in 1..(Len(v.kids) \div 2) : Small(v.kids[2*i-1].kids[1].arg) \in {0, 2, 4}}} ELSE {})
   \* native scripts provided at reference inputs - when something in the body is locked by them (a script merely held by a
   \* referenced output calls for nobody's signature)
   \cup UNION {NativeLeaves(Parse(b[2])) : b \in {x \in DOMAIN scripts : scripts[x].kind = "native" /\ scripts[x].hash \in NeededScripts(body) /\
                  \E j \in 1..Len(Elems(body,18)) : InputKey(Elems(body,18)[j]) \in DOMAIN env /\ env[InputKey(Elems(body,18)[j])].rsh = scripts[x].hash}}
ByronNeeded(body) == SpentByron(body, 0) \cup SpentByron(body, 13)
ScriptChecks(e, tx, body, ws, sc, shape) ==
  LET reds == Redeemers(ws)
      VoterOf(b) == LET v == Parse(b) IN <<Small(v.kids[1].arg), v.kids[2].str>>
      live == {a \in AllAttach :      \* attachments whose item is still part of the body
                 CASE a.purpose = 0 -> \E j \in 1..Len(Elems(body,0)) : Span(e.tx, Elems(body,0)[j]) = a.item
                   [] a.purpose = 1 -> a.item \in MintPolicies(body)
                   [] a.purpose = 2 -> CertIx(e.tx, body, a.item) >= 0
                   [] a.purpose = 3 -> a.item \in RewardAccounts(body)
                   [] a.purpose = 4 -> VoterOf(a.item) \in Voters(body)
                   [] a.purpose = 5 -> PropIx(e.tx, body, a.item) >= 0
                   [] OTHER -> TRUE}
      RedOf(rid) == {j \in 1..Len(reds) : reds[j].data.mt = 0 /\ Small(reds[j].data.arg) = rid}
      Expected(a) == CASE a.purpose = 0 -> SpendIx(body, InputKey(Parse(a.item)))
                       [] a.purpose = 1 -> MintIx(body, a.item)
                       [] a.purpose = 2 -> CertIx(e.tx, body, a.item)
                       [] a.purpose = 3 -> RewardIxLedger(body, a.item)
                       [] a.purpose = 4 -> VoteIxLedger(body, VoterOf(a.item))
                       [] a.purpose = 5 -> PropIx(e.tx, body, a.item)
                       [] OTHER -> -1 IN
  /\ (live # {} => Obl("C10", sc, <<shape, {<<a.purpose, Expected(a)>> : a \in live}>>))
  \* C10: every attached redeemer is present, with the purpose it was attached for, at the ledger's index of its item
  /\ \A a \in live :
        IF RedOf(a.rid) = {} THEN Fail("C10", "Built/redeemer-missing", sc, [rid |-> a.rid, purpose |-> a.purpose])
        ELSE LET j == CHOOSE x \in RedOf(a.rid) : TRUE IN
             /\ Chk(reds[j].tag = a.purpose, "C10", "Built/redeemer-purpose-wrong", sc, [rid |-> a.rid, want |-> a.purpose, got |-> reds[j].tag])
             /\ (a.purpose \in {0, 1, 2} => Chk(reds[j].ix = Expected(a), "C10", "Built/redeemer-index-wrong", sc, [rid |-> a.rid, purpose |-> a.purpose, want |-> Expected(a), got |-> reds[j].ix]))
             /\ (a.purpose = 4 => Chk(reds[j].ix = Expected(a), "C10", "Built/vote-redeemer-index-wrong", sc, [rid |-> a.rid, want |-> Expected(a), got |-> reds[j].ix, voters |-> Voters(body)]))
             /\ (a.purpose = 5 => Chk(reds[j].ix = Expected(a), "C10", "Built/proposal-redeemer-index-wrong", sc, [rid |-> a.rid, want |-> Expected(a), got |-> reds[j].ix]))
             /\ (a.purpose = 3 =>
                   IF reds[j].ix = RewardIxLedger(body, a.item) THEN TRUE
                   ELSE Fail("C10", "Built/reward-redeemer-index-wrong", sc, [rid |-> a.rid, want |-> RewardIxLedger(body, a.item), got |-> reds[j].ix]))
  /\ Chk(\A i, j \in 1..Len(reds) : i # j => <<reds[i].tag, reds[i].ix>> # <<reds[j].tag, reds[j].ix>>, "C10", "Built/two-redeemers-share-a-pointer", sc, 0)
  /\ Chk(Len(reds) = Cardinality(live), "C10", "Built/redeemer-without-script-use", sc, [redeemers |-> Len(reds), uses |-> Cardinality(live)])
  \* the item a pointer designates is script-locked - decided from the BODY and the UTxO environment, not from what the caller said it attached
  /\ \A j \in 1..Len(reds) :
        LET r == reds[j]
            locked == CASE r.tag = 0 -> \E q \in 1..Len(Elems(body,0)) : LET k == InputKey(Elems(body,0)[q]) IN SpendIx(body, k) = r.ix /\ k \in DOMAIN env /\ ScriptLockedAddr(env[k].addr)
                        [] r.tag = 1 -> r.ix < Cardinality(MintPolicies(body))
                        [] r.tag = 2 -> r.ix < Len(Elems(body,4)) /\ CertScripts(Elems(body,4)[r.ix + 1]) # {}
                        [] r.tag = 3 -> \E ra \in RewardAccounts(body) : RewardIxLedger(body, ra) = r.ix /\ (ra[1] \div 16) = 15
                        [] r.tag = 4 -> \E v \in Voters(body) : VoteIxLedger(body, v) = r.ix /\ v[1] \in {1, 3}
                        [] r.tag = 5 -> r.ix < Len(Elems(body,20)) /\ PropPolicy(Elems(body,20)[r.ix + 1]) # {}
                        [] OTHER -> TRUE IN
        Chk(locked, "C10", "Built/redeemer-points-at-an-item-that-is-not-script-locked", sc, [tag |-> r.tag, ix |-> r.ix])
  \* C18: each script in use is available exactly once: in the witness set, or at a declared reference input that is among body[18] (or spent)
  /\ (live # {} => Obl("C18", sc, <<"scripts", shape, Cardinality(live)>>))
  /\ \A a \in live :
        LET h == a.sh
            inWs == IF h \in WsScriptHashes(ws) THEN 1 ELSE 0
            atRef == Cardinality({k \in (RefInputKeys(body) \cup {InputKey(Elems(body,0)[j]) : j \in 1..Len(Elems(body,0))}) \cap DOMAIN env : env[k].rsh = h}) IN
        /\ Chk(inWs + atRef >= 1, "C18", "Built/script-not-available", sc, [rid |-> a.rid, purpose |-> a.purpose])
        /\ Chk(inWs + atRef <= 1, "C18", "Built/script-available-twice", sc, [rid |-> a.rid, purpose |-> a.purpose, inWs |-> inWs, atRef |-> atRef])
  \* C18: every script hash the body calls for (script-locked spent outputs, policies, script credentials of certificates,
  \* withdrawals and voters) is available in the witness set or at a reference / spent output - whatever the caller declared
  /\ \A h \in NeededScripts(body) :
        Chk(h \in (WsScriptHashes(ws) \cup WsNativeHashes(e.tx, ws)) \/ \E k \in (RefInputKeys(body) \cup {InputKey(Elems(body,0)[j]) : j \in 1..Len(Elems(body,0))}) \cap DOMAIN env : env[k].rsh = h,
            "C18", "Built/script-called-for-by-the-body-not-available", sc, [hash |-> h])
  \* C18: a spent Plutus output that carries a datum hash has that datum in the witness set (or inline at a reference input)
  /\ \A a \in {x \in live : x.purpose = 0} :
        LET k == InputKey(Parse(a.item)) IN
        (k \in DOMAIN env /\ env[k].dh # <<>>) =>
          Chk((\E j \in 1..Len(Elems(ws,4)) : Span(e.tx, Elems(ws,4)[j]) = a.db) \/ (\E r \in RefInputKeys(body) \cap DOMAIN env : env[r].inl = a.db),
              "C18", "Built/datum-not-available", sc, [rid |-> a.rid])
  \* witness-set plutus data is a set: no element twice (C16)
  /\ Chk(\A i, j \in 1..Len(Elems(ws,4)) : i # j => Span(e.tx, Elems(ws,4)[i]) # Span(e.tx, Elems(ws,4)[j]), "C16", "Built/datum-emitted-twice", sc, 0)
  /\ Chk(Cardinality(WsScriptHashes(ws)) = Len(Elems(ws,3)) + Len(Elems(ws,6)) + Len(Elems(ws,7)), "C16", "Built/script-emitted-twice", sc, 0)
  \* C09: script data hash = H(redeemers bytes ++ datums bytes ++ language views of the versions in use), computed last
  /\ (sdhFresh # <<>> /\ HasK(body, 11) =>
        LET langs == {a.lang : a \in live}
            redB == IF HasK(ws, 5) THEN Span(e.tx, GetK(ws, 5)) ELSE (IF langs = {} THEN <<>> ELSE <<160>>)
            datB == IF HasK(ws, 4) THEN Span(e.tx, GetK(ws, 4)) ELSE <<>>
            pre == IF Len(reds) = 0 /\ HasK(ws, 4) THEN <<160>> \o datB \o <<160>>
                   ELSE redB \o datB \o LangViews(langs, CostOf) IN
        /\ Obl("C09", sc, <<"sdh", langs, Len(reds), Len(Elems(ws,4))>>)
        /\ Emit([t |-> "HASHCHK", p |-> "C09", sig |-> "Built/script-data-hash-differs-from-emitted-witness-set" \o (IF rereg THEN "/after-reregistration-of-a-plutus-input" \o (IF \E a \in live : a.purpose = 0 THEN "" ELSE "/no-plutus-input-left") ELSE ""), sc |-> sc, alg |-> "blake2b256", pre |-> pre, expect |-> GetK(body, 11).str]))
EnvVals == [k \in DOMAIN env |-> env[k].value]
Built(e) ==
  LET sc == e.sc tx == Parse(e.tx) IN
  /\ UNCHANGED <<env, pp, keys, byron, balanced, stale, feeReq, colSt, colPct, scripts, attach, sdhFresh, rereg>>
  /\ lastTx' = e.tx
  /\ IF IsErr(tx) \/ tx.mt # 4 \/ Len(tx.kids) # 4 THEN Fail("C03", "Built/malformed-transaction", sc, tx.why) ELSE
     LET body == tx.kids[1] ws == tx.kids[2] outs == Elems(body, 1) fee == ArgN(GetK(body, 2))
         shape == <<Len(Elems(body,0)), Len(outs), HasK(body,4), HasK(body,5), HasK(body,9), HasK(body,22), HasK(body,13), Len(GetK(body,2).arg), balanced, e.unsafe>> IN
     \* ---- C05 preservation of value
     /\ (balanced \/ (stale /\ ~e.unsafe) => /\ Obl("C05", sc, <<shape, stale>>)
                     /\ IF ~InputsKnown(body, EnvVals) THEN Fail("C05", "Built/input-not-in-environment", sc, 0)
                        ELSE Chk(Balanced(body, EnvVals, pp), "C05", IF balanced THEN "Built/unbalanced" ELSE "Built/unbalanced-after-later-operations", sc,
                                 [consumed |-> ToBE(Consumed(body, EnvVals, pp).coin, 0), produced |-> ToBE(Produced(body, pp).coin, 0), unsafe |-> e.unsafe]))
     \* ---- C07 minimum ADA, value size, transaction size
     /\ Obl("C07", sc, shape)
     /\ \A j \in 1..Len(outs) :
          /\ Chk(OutMinAdaOk(outs[j], pp.cpb), "C07", "Built/output-below-min-ada", sc, [out |-> j, need |-> ToBE(MinAdaOf(outs[j], pp.cpb), 0), has |-> ToBE(OutValue(outs[j]).coin, 0)])
          /\ Chk(ItemLen(OutValItem(outs[j])) <= pp.maxval, "C07", "Built/value-too-large", sc, [out |-> j, size |-> ItemLen(OutValItem(outs[j]))])
     /\ (HasK(body, 16) /\ colSt = "helper" => Chk(OutMinAdaOk(GetK(body, 16), pp.cpb), "C07", "Built/collateral-return-below-min-ada", sc, 0))
     \* ---- C09 auxiliary data hash = H(auxiliary data as serialized in this transaction)
     /\ (HasK(body, 7) => /\ Obl("C09", sc, <<"aux", ItemLen(tx.kids[4])>>)
                          /\ Emit([t |-> "HASHCHK", p |-> "C09", sig |-> "Built/auxiliary-data-hash-differs-from-attached-data", sc |-> sc, alg |-> "blake2b256",
                                   pre |-> Span(e.tx, tx.kids[4]), expect |-> GetK(body, 7).str]))
     /\ Chk(HasK(body, 7) = (tx.kids[4].mt # 7), "C09", "Built/auxiliary-data-and-hash-presence-differ", sc, 0)
     \* ---- scripts, redeemers, datums
     /\ ScriptChecks(e, tx, body, ws, sc, shape)
     \* ---- C16 determinism
     /\ (e.again => Chk(e.tx = lastTx, "C16", "Built/second-build-differs", sc, 0) /\ Obl("C16", sc, shape))
     \* ---- C16 canonical key order (shorter key first, then bytewise) of the mint field and of every asset bundle the builder emits
     /\ LET CanonMap(m) == \A j \in 1..((Len(m.kids) \div 2) - 1) : LET a == m.kids[2*j-1].str b == m.kids[2*j+1].str IN Len(a) < Len(b) \/ (Len(a) = Len(b) /\ LexLt(a, b))
            CanonBundle(m) == m.mt = 5 /\ CanonMap(m) /\ \A j \in 1..(Len(m.kids) \div 2) : m.kids[2*j].mt = 5 /\ CanonMap(m.kids[2*j])
            bundles == {OutValItem(outs[j]).kids[2] : j \in {i \in 1..Len(outs) : OutValItem(outs[i]).mt = 4}} IN
        /\ (HasK(body, 9) => Obl("C16", sc, <<"mint-order", Len(GetK(body, 9).kids) \div 2>>) /\ Chk(CanonBundle(GetK(body, 9)), "C16", "Built/mint-field-not-in-canonical-key-order", sc, 0))
        /\ Chk(\A b \in bundles : CanonBundle(b), "C16", "Built/output-assets-not-in-canonical-key-order", sc, 0)
     \* ---- C06 fee requests
     /\ (feeReq[1] = "exact" => Chk(fee = feeReq[2], "C06", "Built/fixed-fee-not-used", sc, [fee |-> ToBE(fee, 0)]))
     /\ (feeReq[1] = "notless" => Chk(Geq(fee, feeReq[2]), "C06", "Built/requested-min-fee-not-honoured", sc, [fee |-> ToBE(fee, 0)]))
     \* ---- C19 collateral equation (both fields set by one of the helpers)
     /\ (colSt = "helper" /\ HasK(body, 17) =>
           LET cins == Elems(body, 13)
               cin == SumSeqV(Len(cins), LAMBDA j : env[InputKey(cins[j])].value)
               ret == IF HasK(body, 16) THEN OutValue(GetK(body, 16)) ELSE VZero      \* no return output = nothing returned
               tot == ArgN(GetK(body, 17)) IN
           /\ Obl("C19", sc, shape)
           /\ Chk(VEq(cin, VAdd(ret, VCoin(tot))), "C19", "Built/collateral-equation-broken", sc, [inputs |-> ToBE(cin.coin, 0), ret |-> ToBE(ret.coin, 0), total |-> ToBE(tot, 0)])
           /\ (HasK(body, 16) => Chk(OutMinAdaOk(GetK(body, 16), pp.cpb), "C19", "Built/collateral-return-below-min-ada", sc, 0))
           \* percentage helper: total * 100 >= fee * pct
           /\ (colPct # <<>> => Chk(Geq(MulSmall(tot, 100), Mul(fee, colPct[1])), "C19", "Built/total-collateral-below-percentage-of-fee", sc, [total |-> ToBE(tot, 0), fee |-> ToBE(fee, 0)])))
     /\ (colSt = "failed" => Chk(~HasK(body, 16) /\ ~HasK(body, 17), "C19", "Built/failed-helper-left-collateral-fields-set", sc, 0) /\ Obl("C19", sc, <<"failed-helper", shape>>))
     \* ---- C06 sufficiency on the really signed bytes
     /\ IF ~Has(e.signed, "ok") THEN Emit([t |-> "TOOLFAIL", what |-> "harness could not sign", sc |-> sc, d |-> e.signed])
        ELSE LET stx == Parse(e.signed.bytes) IN
          IF IsErr(stx) THEN Fail("C03", "Built/signed-transaction-malformed", sc, stx.why) ELSE
          LET sws == stx.kids[2]
              vks == Elems(sws, 0)
              got == {vks[j].kids[1].str : j \in 1..Len(vks)}
              gotHashes == {IF v \in DOMAIN keys THEN keys[v] ELSE <<>> : v \in got}
              \* plus the signers the caller declared for a Plutus script use that is still part of the body (they are not in the body: the
              \* builder counts them as witnesses to come)
              need == VKeysNeeded(body, ws) \cup {a.req : a \in {x \in AllAttach : Has(x, "req") /\ x.req # <<>> /\ x.purpose = 0 /\ \E j \in 1..Len(Elems(body,0)) : Span(e.tx, Elems(body,0)[j]) = x.item}}
              boots == Elems(sws, 2)
              needB == ByronNeeded(body)
              size == Len(e.signed.bytes)
              reds == Redeemers(ws)
              exu == SumExUnits(reds)
              excost == F!ExUnitsCostExact(exu.mem, exu.steps, F!R(FromSmall(pp.ex[1]), FromSmall(pp.ex[2])), F!R(FromSmall(pp.ex[3]), FromSmall(pp.ex[4])))
              \* reference scripts of the distinct outputs spent or referenced
              refKeys == ({InputKey(Elems(body,0)[j]) : j \in 1..Len(Elems(body,0))} \cup RefInputKeys(body)) \cap DOMAIN env
              refBytes == LET RECURSIVE S(_,_) S(T, acc) == IF T = {} THEN acc ELSE LET x == CHOOSE y \in T : TRUE IN S(T \ {x}, acc + env[x].rss) IN S(refKeys, 0)
              refcost == F!RefScriptFeeExact(refBytes, F!R(FromSmall(pp.ref[1]), FromSmall(pp.ref[2])))
              minfee == Add(Add(LinearMinFee(size, pp.a, pp.b), CeilDiv(excost.n, excost.d)), FloorDiv(refcost.n, refcost.d)) IN
          /\ IF gotHashes # need \/ Len(vks) # Cardinality(got) \/ Len(boots) # Cardinality(needB) \/ {boots[j].kids[1].str : j \in 1..Len(boots)} # {byron[a] : a \in needB \cap DOMAIN byron}
             THEN Emit([t |-> "TOOLFAIL", what |-> "signers attached by the harness differ from the signers the body requires", sc |-> sc,
                        d |-> [got |-> Cardinality(gotHashes), need |-> Cardinality(need), boots |-> Len(boots), needB |-> Cardinality(needB)]])
             ELSE /\ (IF Span(e.signed.bytes, stx.kids[1]) = Span(e.tx, body) THEN TRUE       \* signing did not alter the body
                       ELSE Emit([t |-> "TOOLFAIL", what |-> "the signed transaction carries a different body", sc |-> sc, d |-> 0]))
                  \* a caller-fixed fee that the validating build accepted is at least the minimum ("used exactly or the build fails")
                  /\ (feeReq[1] = "exact" /\ ~e.unsafe =>
                        /\ Obl("C06", sc, <<"fixed-fee-accepted", Len(vks), Len(boots), excost.n # Zero, refBytes > 0>>)
                        /\ Chk(Geq(fee, minfee), "C06", "Built/fixed-fee-below-minimum-accepted", sc, [fee |-> ToBE(fee, 0), min |-> ToBE(minfee, 0), size |-> size]))
                  \* (a fee the CALLER fixed is "used exactly or the build fails": the balancing call takes it as given, the validating build
                  \* refuses it when it is too low - the non-validating build, which the harness falls back to, then carries no sufficiency demand)
                  /\ ((balanced \/ (stale /\ ~e.unsafe)) /\ ~(feeReq[1] = "exact" /\ e.unsafe) => /\ Obl("C06", sc, <<shape, stale, Len(vks), Len(boots), Len(GetK(body,2).arg)>>)
                                  /\ Chk(Geq(fee, minfee), "C06", "Built/fee-below-minimum", sc,
                                         [fee |-> ToBE(fee, 0), min |-> ToBE(minfee, 0), size |-> size, vkeys |-> Len(vks), boots |-> Len(boots), unsafe |-> e.unsafe]))
                  \* (every build that returns a transaction - also the non-validating build_tx_unsafe - goes through the size check)
                  /\ Chk(size <= pp.maxtx, "C07", "Built/transaction-too-large" \o (IF e.unsafe THEN "/non-validating-build" ELSE ""), sc, [size |-> size])
                  \* ---- C18 size prediction: signed size <= full_size < signed size + one key witness (101 bytes)
                  /\ (Has(e.full_size, "ok") /\ balanced =>
                        /\ Obl("C18", sc, <<shape, Len(vks), Len(boots)>>)
                        /\ Chk(size <= e.full_size.n, "C18", "Built/size-prediction-too-small", sc, [signed |-> size, predicted |-> e.full_size.n, vkeys |-> Len(vks), boots |-> Len(boots)])
                        /\ Chk(e.full_size.n < size + 101, "C18", "Built/size-prediction-counts-extra-witness", sc, [signed |-> size, predicted |-> e.full_size.n, vkeys |-> Len(vks), boots |-> Len(boots)]))
\* ---- C07 stand-alone minimum-ADA function: MinAdaCall(outBytes, cpb, c)
\* o' = the output carrying max(c, its coin); o8 = the output with the coin at its 8-byte encoding. Only the coin's head
\* changes, so the sizes follow from the span of the coin item inside the output bytes.
CoinItem(o) == LET v == OutValItem(o) IN IF v.mt = 0 THEN v ELSE v.kids[1]
MinAda(e) ==
  /\ UNCHANGED <<env, pp, keys, byron, balanced, stale, feeReq, lastTx, colSt, colPct, scripts, attach, sdhFresh, rereg>>
  /\ LET sc == e.sc o == Parse(e.out) cpb == FromBE(e.cpb_n) IN
     IF IsErr(o) THEN Fail("C07", "MinAda/output-malformed", sc, o.why)
     ELSE IF Has(e.r, "panic") THEN Fail("C07", "MinAda/panic", sc, e.r.panic)
     ELSE IF ~Has(e.r, "ok") THEN
          \* an error is acceptable only when the bound itself does not fit 64 bits
          Chk(~FitsU64(Mul(cpb, FromSmall(160 + Len(e.out) - ItemLen(CoinItem(o)) + 9))), "C07", "MinAda/spurious-error", sc, e.r.err)
     ELSE LET c == FromBE(e.r.v_n)
              ci == CoinItem(o)
              newcoin == MaxN(c, ArgN(ci))
              size1 == Len(e.out) - ItemLen(ci) + Len(EUInt(newcoin))
              size8 == Len(e.out) - ItemLen(ci) + 9 IN
          /\ Obl("C07", sc, <<"minada", o.mt, Len(e.out), Len(ci.arg), Len(EUInt(newcoin)), Len(e.cpb_n)>>)
          /\ Chk(Geq(newcoin, Mul(cpb, FromSmall(160 + size1))), "C07", "MinAda/result-does-not-satisfy-the-bound", sc,
                 [c |-> e.r.v_n, need |-> ToBE(Mul(cpb, FromSmall(160 + size1)), 0), size |-> size1])
          /\ Chk(Leq(c, Mul(cpb, FromSmall(160 + size8))), "C07", "MinAda/result-above-the-8-byte-bound", sc,
                 [c |-> e.r.v_n, bound |-> ToBE(Mul(cpb, FromSmall(160 + size8)), 0)])
\* an output made by the output builder with "the least coin it needs" (TransactionOutputAmountBuilder): it is an output the builder
\* creates, so it has to meet the bound at its own size (no upper bound is demanded: the statement's tightness clause is about the
\* minimum-ADA function, judged at MinAda)
OutMin(e) ==
  /\ UNCHANGED <<env, pp, keys, byron, balanced, stale, feeReq, lastTx, colSt, colPct, scripts, attach, sdhFresh, rereg>>
  /\ LET sc == e.sc cpb == FromBE(e.cpb_n) IN
     IF Has(e.r, "panic") THEN Fail("C07", "OutMin/panic", sc, e.r.panic)
     ELSE IF ~Has(e.r, "ok") THEN TRUE      \* a refusal creates nothing (spurious refusals of the function itself are judged at MinAda)
     ELSE LET o == Parse(e.r.bytes) IN
          IF IsErr(o) THEN Fail("C07", "OutMin/output-malformed", sc, o.why)
          ELSE LET ci == CoinItem(o)
                   coin == ArgN(ci)
                   AddrClass == LET a == OutAddrItem(o).str IN IF a # <<>> /\ a[1] \div 16 = 8 THEN "byron" ELSE IF a # <<>> /\ a[1] \div 16 \in {4, 5} THEN "pointer" ELSE "shelley" IN
               /\ Obl("C07", sc, <<"outmin", o.mt, Len(e.r.bytes), Len(ci.arg), Len(e.cpb_n)>>)
               /\ Chk(OutMinAdaOk(o, cpb), "C07", "OutMin/created-output-below-min-ada/" \o AddrClass, sc,
                      [has |-> ToBE(coin, 0), need |-> ToBE(MinAdaOf(o, cpb), 0), size |-> Len(e.r.bytes)])
Other(e) == UNCHANGED <<env, pp, keys, byron, balanced, stale, feeReq, lastTx, colSt, colPct, scripts, attach, sdhFresh, rereg>>
Init == l = 1 /\ env = <<>> /\ pp = <<>> /\ keys = <<>> /\ byron = <<>> /\ balanced = FALSE /\ stale = FALSE /\ feeReq = <<"none">> /\ lastTx = <<>> /\ colSt = "unset" /\ colPct = <<>> /\ scripts = <<>> /\ attach = [p \in 0..5 |-> {}] /\ sdhFresh = <<>> /\ rereg = FALSE
Next == /\ l <= Len(Rec)
        /\ LET e == Rec[l] IN
           CASE e.ev = "Reset" -> Reset(e)
             [] e.ev = "Op" -> Op(e)
             [] e.ev = "Built" -> Built(e)
             [] e.ev = "MinAda" -> MinAda(e) [] e.ev = "OutMin" -> OutMin(e)
             [] OTHER -> Other(e)
        /\ (l = Len(Rec) => Done(l))
        /\ l' = l + 1
====
