---- MODULE Trace_Deposits ----
(* C20 trace validator. The body bytes are parsed by CBOR.tla; deposits and         *)
(* implicit input are computed by LedgerRules from the certificates, withdrawals    *)
(* and proposals found IN THE BYTES, and compared with the stand-alone helpers      *)
(* (on the constructed and on the decoded body) and with the builder's figures.     *)
EXTENDS LedgerRules, TraceLib
VARIABLE l
P == "C20"
\* result r = {ok, v_n} | {err}: exact value x, or an error exactly when x does not fit 64 bits
Figure(r, x, who, what, sc) ==
  IF Has(r, "panic") THEN Fail(P, who \o "/" \o what \o "/panic", sc, r.panic)
  ELSE IF Has(r, "ok") THEN
       /\ Chk(FromBE(r.v_n) = x, P, who \o "/" \o what \o "/wrong-value", sc, [got |-> r.v_n, want |-> ToBE(x, 0)])
       /\ (Has(r, "has_assets") => Chk(~r.has_assets, P, who \o "/" \o what \o "/not-pure-lovelace", sc, 0))
  ELSE Chk(~FitsU64(x), P, who \o "/" \o what \o "/spurious-error", sc, [err |-> r.err, want |-> ToBE(x, 0)])
\* a map-typed field: the same entries, in whatever order (the withdrawals builder writes them in the ledger's account order)
SameMapField(b1, i1, b2, i2, key) == (HasK(i1, key) = HasK(i2, key)) /\ (HasK(i1, key) =>
   LET m1 == GetK(i1, key) m2 == GetK(i2, key)
       pairs(b, m) == {<<Span(b, m.kids[2*j-1]), Span(b, m.kids[2*j])>> : j \in 1..(Len(m.kids) \div 2)} IN
   m1.mt = 5 /\ m2.mt = 5 /\ Len(m1.kids) = Len(m2.kids) /\ pairs(b1, m1) = pairs(b2, m2))
SameField(b1, i1, b2, i2, key) == (HasK(i1, key) = HasK(i2, key)) /\ (HasK(i1, key) => Span(b1, GetK(i1, key)) = Span(b2, GetK(i2, key)))
Judge(e) ==
  LET sc == e.sc IN
  IF Has(e, "panic") THEN Fail(P, "Dep/panic", sc, e.panic) ELSE
  LET body == Parse(e.body) ppv == [kd |-> FromBE(e.pp.kd_n), pd |-> FromBE(e.pp.pd_n)] IN
  IF IsErr(body) THEN Fail(P, "Dep/body-malformed", sc, body.why) ELSE
  LET dep == Deposits(body, ppv) imp == ImplicitInput(body, ppv) IN
  /\ Obl(P, sc, <<IF Has(e, "phase") THEN e.phase ELSE 0, e.n, [j \in 1..Len(Elems(body,4)) |-> CertKind(Elems(body,4)[j])], FitsU64(dep), FitsU64(imp)>>)
  /\ Figure(e.h_dep, dep, "Helper", "deposit", sc)
  /\ Figure(e.h_imp, imp, "Helper", "implicit-input", sc)
  /\ IF Has(e.h2, "ok") THEN Figure(e.h2.dep, dep, "HelperDecoded", "deposit", sc) /\ Figure(e.h2.imp, imp, "HelperDecoded", "implicit-input", sc)
     ELSE Fail(P, "Dep/body-does-not-decode", sc, e.h2)
  /\ IF ~Has(e.b, "ok") THEN Note(P, "builder-refused", sc, e.b)
     ELSE /\ Figure(e.b.dep, dep, "Builder", "deposit", sc)
          /\ Figure(e.b.imp, imp, "Builder", "implicit-input", sc)
          \* the builder balances the same certificates / withdrawals / proposals that it emits
          /\ (Has(e.b.body, "ok") =>
                LET bb == Parse(e.b.body.bytes) IN
                Chk(~IsErr(bb) /\ SameField(e.body, body, e.b.body.bytes, bb, 4) /\ SameMapField(e.body, body, e.b.body.bytes, bb, 5) /\ SameField(e.body, body, e.b.body.bytes, bb, 20),
                    P, "Builder/emits-different-content", sc, 0))
Init == l = 1
Next == /\ l <= Len(Rec)
        /\ Rec[l].ev = "Dep"
        /\ Judge(Rec[l])
        /\ (l = Len(Rec) => Done(l))
        /\ l' = l + 1
====
