---- MODULE MC_Fees ----
(* Exhaustive on the model: the closed form used by the implementation (L1)      *)
(* equals the ledger's tier recursion (L0) on the whole grid; every grid point   *)
(* is emitted as a scenario for the real functions.                              *)
EXTENDS Fees, TraceLib, FiniteSets
VARIABLE c
U64 == U64Max
B(n) == ToBE(n, 0)
Sizes == {0, 1, 25599, 25600, 25601, 51199, 51200, 51201, 76800, 204800, 204801, 1024000, 1048575}
Prices == { R(Zero, One), R(FromSmall(15), One), R(One, FromSmall(3)), R(FromSmall(44), FromSmall(25)),
            R(FromSmall(6), FromSmall(4)), R(One, U64), R(U64, One), R(U64, U64), R(FromSmall(577), FromSmall(10000)) }
Units == { Zero, One, FromSmall(14000000), Pow2(32), Sub(Pow2(63), One), Pow2(63), U64 }
Coefs == { Zero, One, FromSmall(44), Pow2(32), Sub(Pow2(33), One), Sub(Pow2(63), One), Pow2(63), U64 }
Consts == { Zero, FromSmall(155381), U64 }
LSizes == { Zero, One, FromSmall(2), FromSmall(3), FromSmall(16384), Pow2(31), Sub(Pow2(32), One) }
\* sizes far beyond the 200 KiB ledger cap (the quantifier runs to 2^32): decided by the zero-price and lower-bound rules
BigSizes == {FromSmall(6246399), FromSmall(6246400), FromSmall(25600*457+1), FromSmall(2147483647), Sub(Pow2(32), One)}
BigPrices == {R(Zero, One), R(Zero, U64), R(FromSmall(577), FromSmall(10000)), R(One, U64)}
Cases == [fn : {"ref"}, size : Sizes, p : Prices] \cup [fn : {"refbig"}, size : BigSizes, p : BigPrices]
   \cup [fn : {"exu"}, mem : Units, steps : Units, pm : Prices, ps : {R(FromSmall(721), FromSmall(10000000)), R(Zero, One), R(U64, One), R(One, FromSmall(3))}]
   \cup [fn : {"lin"}, size : LSizes, a : Coefs, b : Consts]
Init == c \in Cases
Next == UNCHANGED c
Scn == CASE c.fn = "refbig" -> [t |-> "SCN", fn |-> "ref", size_n |-> B(c.size), pn_n |-> B(c.p.n), pd_n |-> B(c.p.d)]
         [] c.fn = "ref" -> [t |-> "SCN", fn |-> "ref", size_n |-> B(FromSmall(c.size)), pn_n |-> B(c.p.n), pd_n |-> B(c.p.d)]
         [] c.fn = "exu" -> [t |-> "SCN", fn |-> "exu", mem_n |-> B(c.mem), steps_n |-> B(c.steps),
                             mn_n |-> B(c.pm.n), md_n |-> B(c.pm.d), sn_n |-> B(c.ps.n), sd_n |-> B(c.ps.d)]
         [] c.fn = "lin" -> [t |-> "SCN", fn |-> "lin", size_n |-> B(c.size), a_n |-> B(c.a), b_n |-> B(c.b)]
\* L1 = L0 on the grid
ClosedEqRecursion == c.fn = "ref" => REq(ClosedForm(c.size, c.p), RefScriptFeeExact(c.size, c.p))
\* floor is monotone in size (sanity of the definition)
\* the shortcuts of RefExpect agree with the recursion where both are computable (41 tiers)
ShortcutsSound == c.fn = "ref" => LET x == RefExpect(FromSmall(c.size), c.p) y == RefScriptFeeExact(c.size, c.p) IN
                    IF x.k = "overflow" THEN Geq(y.n, Mul(P64, y.d)) ELSE REq(x.x, y)
\* every big-size case is decided without unfolding (or is small enough to unfold): 1/(2^64-1) at 244 tiers is the exception, left to thorough
BigDecided == c.fn = "refbig" /\ ~(c.p.n = One /\ Lt(c.size, FromSmall(25600*457))) => RefExpect(c.size, c.p).k \in {"val", "overflow"}
Monotone == c.fn = "ref" /\ c.size > 0 =>
   LET x == RefScriptFeeExact(c.size, c.p) y == RefScriptFeeExact(c.size - 1, c.p) IN Leq(Mul(y.n, x.d), Mul(x.n, y.d))
EmitScn == Emit(Scn)
====
