---- MODULE MC_BigNat ----
EXTENDS BigNat, TLC
V(a) == ToSmall(a)
ASSUME \A x \in {0,1,255,256,65535,65536,1000000,123456789} : V(FromSmall(x)) = x
ASSUME \A x \in 0..300 : \A y \in {0,1,255,256,257,70000} : V(Add(FromSmall(x),FromSmall(y))) = x+y /\ V(Mul(FromSmall(x),FromSmall(y))) = x*y /\ V(Mul(FromSmall(y),FromSmall(x))) = x*y
ASSUME Mul(U64Max, U64Max) = Add(Sub(Pow2(128), Pow2(65)), One)
ASSUME \A x \in {0,5,255,256,70000,9999999} : \A d \in {1,3,10,58,256,1000} : LET qr == DivModSmall(FromSmall(x),d) IN V(qr[1]) = x \div d /\ qr[2] = x % d
ASSUME Dec(FromBE(<<255,255,255,255,255,255,255,255>>)) = <<49,56,52,52,54,55,52,52,48,55,51,55,48,57,53,53,49,54,49,53>>
ASSUME FromDec(Dec(U64Max)) = U64Max /\ Dec(FromSmall(1000000)) = <<49,48,48,48,48,48,48>> /\ Dec(Zero) = <<48>> /\ Dec(FromSmall(999999)) = <<57,57,57,57,57,57>>
ASSUME \A x \in {0, 7, 123456, 1234567, 100000000} : V(FromDec(Dec(FromSmall(x)))) = x
ASSUME \A x \in {0, 5, 255, 256, 70000, 9999999, 123456789} : \A d \in {1, 3, 255, 256, 257, 65536, 10000000, 123456790} :
          LET qr == DivMod(FromSmall(x), FromSmall(d)) IN V(qr[1]) = x \div d /\ V(qr[2]) = x % d
ASSUME DivMod(Mul(U64Max, U64Max), U64Max) = <<U64Max, Zero>> /\ CeilDiv(Add(Mul(U64Max, U64Max), One), U64Max) = P64 /\ FloorDiv(FromSmall(7), FromSmall(8)) = Zero
====
