CONSTANT Depth = 5
INIT Init
NEXT Next
INVARIANT GeneratorConforms
INVARIANT EmitScn
CHECK_DEADLOCK FALSE
