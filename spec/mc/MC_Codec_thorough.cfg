CONSTANTS
 Depth = 5
 Types = {"transaction", "body", "output", "value", "mint", "certificate", "witness_set", "native_script", "plutus_data", "auxiliary_data", "metadata", "metadatum", "input", "redeemers", "vkeywitness", "bootstrap_witness", "voting_procedures", "proposal", "script_ref", "drep", "protocol_param_update", "gov_action", "header_body", "header", "block", "operational_cert", "versioned_block"}
INIT Init
NEXT Next
INVARIANT GeneratorConforms
INVARIANT EmitScn
CHECK_DEADLOCK FALSE
