---- MODULE MC_TxBuilder ----
(* Bounded instance of TxBuilder and scenario generator: every order of issuing up  *)
(* to MaxOps operations out of a pool (inputs, outputs, deposit / refund            *)
(* certificates, withdrawal, mint, burn, mint-with-output, donation, fee requests), *)
(* the balancing call at ANY point of the history (further calls may follow it),    *)
(* and the validating build at the end.                                             *)
(* Units are mapped to lovelace amounts that straddle the CBOR width classes.       *)
EXTENDS TxBuilder, TraceLib, BigNat
B(n) == ToBE(n, 0)
\* unit -> lovelace: 1 unit = 2 ADA (key deposit size); big inputs cross 2^32
Lov(c) == MulSmall(FromSmall(2000000), c)
Pool == { [op |-> "AddInput", id |-> 1, c |-> 3, a |-> 0], [op |-> "AddInput", id |-> 2, c |-> 2500, a |-> 5], [op |-> "AddInput", id |-> 3, c |-> 1, a |-> 0],
          [op |-> "AddOutput", id |-> 1, c |-> 1, a |-> 0], [op |-> "AddOutput", id |-> 2, c |-> 2, a |-> 2],
          [op |-> "Deposit", c |-> 1, a |-> 0], [op |-> "Refund", c |-> 1, a |-> 0], [op |-> "Withdraw", c |-> 1, a |-> 0],
          [op |-> "Mint", c |-> 0, a |-> 3], [op |-> "Burn", c |-> 0, a |-> 2], [op |-> "MintOut", c |-> 1, a |-> 4], [op |-> "Donate", c |-> 1, a |-> 0],
          \* fee requests: a fixed fee below / at / above what the transaction needs, a requested minimum above it
          [op |-> "SetFee", c |-> 0, a |-> 0], [op |-> "SetFee", c |-> 1, a |-> 0], [op |-> "SetFee", c |-> 3, a |-> 0], [op |-> "SetMinFee", c |-> 2, a |-> 0] }
Asset(q) == IF q = 0 THEN <<>> ELSE <<[mp |-> 9, n |-> <<66>>, q_n |-> B(FromSmall(q))]>>
JOp(o) ==
  CASE o.op = "AddInput"  -> [op |-> "AddInput", u |-> o.id]
    [] o.op = "AddOutput" -> [op |-> "AddOutput", to |-> [kind |-> "ent", k |-> 10 + o.id], value |-> [coin_n |-> B(Lov(o.c)), assets |-> Asset(o.a)]]
    [] o.op = "Deposit"   -> [op |-> "SetCerts", certs |-> <<[k |-> 7, g |-> TRUE, cred |-> [k |-> 5], coin_n |-> B(Lov(o.c))]>>]
    [] o.op = "Refund"    -> [op |-> "SetCerts", certs |-> <<[k |-> 8, g |-> TRUE, cred |-> [k |-> 5], coin_n |-> B(Lov(o.c))]>>]
    [] o.op = "Withdraw"  -> [op |-> "SetWithdrawals", wds |-> <<[k |-> 6, amt_n |-> B(Lov(o.c))]>>]
    [] o.op = "Mint"      -> [op |-> "SetMint", mints |-> <<[mp |-> 9, n |-> <<66>>, amt |-> [neg |-> FALSE, mag_n |-> B(FromSmall(o.a))]]>>]
    [] o.op = "Burn"      -> [op |-> "SetMint", mints |-> <<[mp |-> 9, n |-> <<66>>, amt |-> [neg |-> TRUE, mag_n |-> B(FromSmall(o.a))]]>>]
    [] o.op = "MintOut"   -> [op |-> "AddMintAssetAndOutput", mp |-> 9, n |-> <<66>>, amt |-> [neg |-> FALSE, mag_n |-> B(FromSmall(o.a))], to |-> [kind |-> "ent", k |-> 12], coin_n |-> B(Lov(o.c))]
    [] o.op = "Donate"    -> [op |-> "SetDonation", n |-> B(Lov(o.c))]
    [] o.op = "SetFee"    -> [op |-> "SetFee", n |-> B(Lov(o.c))]
    [] o.op = "SetMinFee" -> [op |-> "SetMinFee", n |-> B(Lov(o.c))]
    [] o.op = "AddChange" -> [op |-> "AddChange", to |-> [kind |-> "ent", k |-> 15]]
    [] o.op = "Build"     -> [op |-> "Build"]
\* Deposit and Refund both go through SetCerts, Mint and Burn through SetMint: the later call replaces the earlier one (the
\* model's Apply says the same), and MintOut adds to whatever mint is held at that moment - every order is a scenario
Utxo == << [u |-> 1, addr |-> [kind |-> "ent", k |-> 1], value |-> [coin_n |-> B(Lov(3)), assets |-> <<>>]],
           [u |-> 2, addr |-> [kind |-> "base", k |-> 2], value |-> [coin_n |-> B(Lov(2500)), assets |-> Asset(5)]],
           [u |-> 3, addr |-> [kind |-> "byron", k |-> 3], value |-> [coin_n |-> B(Lov(1)), assets |-> <<>>]] >>
PP == [a |-> 44, b |-> 155381, cpb |-> 4310, maxval |-> 5000, maxtx |-> 16384, kd_n |-> B(Lov(1)), pd_n |-> B(Lov(250)), prefer_pure_change |-> FALSE, no_burn |-> FALSE]
\* one scenario per finished behaviour: the calls in the order the model made them (balancing at any point, further calls after
\* it, the validating build last), then a second build
EmitScn == phase \in {"built", "refused"} =>
   Emit([t |-> "SCN", pp |-> PP, utxo |-> Utxo, model |-> phase,
         ops |-> [i \in 1..Len(issued) |-> JOp(issued[i])] \o <<[op |-> "BuildAgain"]>>])
StateConstraint == TRUE
====
