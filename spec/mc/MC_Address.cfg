CONSTANT Fills = {"mix", "term", "cont", "tail"}
INIT Init
NEXT Next
INVARIANT Total
INVARIANT Inverse
INVARIANT PtrForms2
INVARIANT EmitScn
CHECK_DEADLOCK FALSE
