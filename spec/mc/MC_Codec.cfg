CONSTANT Depth = 3
INIT Init
NEXT Next
INVARIANT GeneratorConforms
INVARIANT EmitScn
CHECK_DEADLOCK FALSE
