CONSTANT Depth = 3
INIT Init
NEXT Next
INVARIANT Confluent
INVARIANT EmitScn
CHECK_DEADLOCK FALSE
