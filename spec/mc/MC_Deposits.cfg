CONSTANT MaxOps = 2
INIT Init
NEXT Next
INVARIANT TablesAgree
INVARIANT Exclusive
INVARIANT EmitScn
CHECK_DEADLOCK FALSE
