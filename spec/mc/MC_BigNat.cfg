
