CONSTANT MaxOps = 3
INIT Init
NEXT Next
INVARIANT WellFormedEnc
INVARIANT SameDataEnc
INVARIANT EmitScn
CHECK_DEADLOCK FALSE
