CONSTANTS
 Elems = {1, 2, 3}
 MaxInit = 3
 MaxAdds = 2
 Paths = {"new", "cbor", "cbor_untagged", "json", "cbor_decoded_adds", "builder"}
INIT MCInit
NEXT MCNext
INVARIANT NoDuplicates
INVARIANT FirstInsertionOrder
INVARIANT IndexConsistent
INVARIANT EmitScn
CHECK_DEADLOCK FALSE
