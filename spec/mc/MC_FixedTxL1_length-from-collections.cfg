CONSTANTS
 Keys = {0, 1, 2, 3, 6}
 Elems = {1, 3}
 MaxAdds = 3
 Variant = "length-from-collections"
INIT Init
NEXT Next
INVARIANT WellFormed
INVARIANT UntouchedPreserved
INVARIANT TouchedRight
CHECK_DEADLOCK FALSE
