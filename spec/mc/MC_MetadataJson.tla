---- MODULE MC_MetadataJson ----
(* Bounded model of the schema conversions (C17): TLC enumerates a universe of metadata,     *)
(* datum and JSON trees (each-choice over leaf classes, containers to depth 2) and checks,   *)
(* on the specification's own functions,                                                    *)
(*   Inverse1   md -> json -> md is the identity under "no" (ascending maps) and "detailed"  *)
(*              whenever the first conversion succeeds                                       *)
(*   Inverse2   json -> md -> json is the identity under every schema on normal forms        *)
(*   Inverse3   every datum -> detailed json -> datum is the identity (and never fails)      *)
(*   Domain     MdEnc fails exactly outside InSchema                                         *)
(*   ChunkLaw   Unchunk . Chunk = id, every chunk <= 64                                      *)
(* Every case is also emitted as a scenario for the real library (harness driver "json").    *)
EXTENDS MdTrees, TraceLib
VARIABLE c
Fill(n, v) == [i \in 1..n |-> v]
\* ------------------------------------------------------------ leaves
I(n) == SPos(FromSmall(n))
NegP(a) == SI(TRUE, a)
IntVals == {I(0), I(1), I(24), NegP(One), SPos(Sub(P63, One)), SPos(P63), SPos(U64Max), NegP(P63), NegP(Add(P63, One)), NegP(P64)}
BigVals == {SPos(P64), NegP(Add(P64, One)), SPos(Pow2(520))}
Texts == {<<>>, <<97>>, <<48,120>>, <<48,120,97,98>>, <<48,120,65,66>>, <<49,50>>, <<45,53>>, Fill(64, 98), <<195,169>>, <<34, 92, 10>>}
ByteStrs == {<<>>, <<1, 2>>, <<171>>, Fill(64, 9), <<104, 105>>, <<1>>, <<195, 40>>, <<194, 133>>, <<127>>}
MdLeaves == {MInt(v) : v \in IntVals} \cup {MText(s) : s \in Texts} \cup {MBytes(s) : s \in {b \in ByteStrs : Len(b) <= 64}}
dM == MInt(I(7))
MdKeyPairs == { <<MText(<<97>>), MText(<<98>>)>>, <<MText(<<98>>), MText(<<97>>)>>, <<MText(<<49>>), MInt(I(1))>>, <<MInt(I(2)), MInt(I(1))>>, <<MBytes(<<1>>), MText(<<48,120,48,49>>)>>,
                <<MText(<<97>>), MText(<<97,97>>)>>, <<MText(<<49,48>>), MText(<<57>>)>> }
MdC1 == {MList(<<>>), MMap(<<>>)} \cup {MList(<<x>>) : x \in MdLeaves} \cup {MList(<<x, dM>>) : x \in MdLeaves}
        \cup {MMap(<< <<k, dM>> >>) : k \in MdLeaves} \cup {MMap(<< <<MText(<<107>>), v>> >>) : v \in MdLeaves}
        \cup {MMap(<< <<p[1], dM>>, <<p[2], MText(<<118>>)>> >>) : p \in MdKeyPairs}
MdC2 == {MList(<<x>>) : x \in MdC1} \cup {MMap(<< <<MText(<<107>>), x>> >>) : x \in MdC1} \cup {MMap(<< <<x, dM>> >>) : x \in {MList(<<dM>>), MMap(<< <<dM, dM>> >>), MList(<<>>)}}
MdU == MdLeaves \cup MdC1 \cup MdC2
\* ------------------------------------------------------------ datums
PdLeaves == {PInt(v) : v \in IntVals \cup BigVals} \cup {PBytes(s) : s \in ByteStrs \cup {Fill(65, 9), Fill(130, 104)}}
dP == PInt(I(7))
PdC1 == {PList(<<>>), PMap(<<>>), PConstr(Zero, <<>>)} \cup {PList(<<x>>) : x \in PdLeaves} \cup {PList(<<x, dP>>) : x \in PdLeaves}
        \cup {PMap(<< <<k, dP>> >>) : k \in PdLeaves} \cup {PMap(<< <<dP, v>> >>) : v \in PdLeaves}
        \cup {PMap(<< <<dP, PInt(I(1))>>, <<dP, PInt(I(2))>>, <<PBytes(<<1>>), dP>> >>), PMap(<< <<PInt(I(2)), dP>>, <<PInt(I(1)), dP>> >>),
              PMap(<< <<PBytes(<<49>>), dP>>, <<PInt(I(1)), dP>> >>)}
        \cup {PConstr(a, <<dP>>) : a \in {Zero, FromSmall(6), FromSmall(7), FromSmall(127), FromSmall(128), U64Max}}
        \cup {PConstr(One, <<x>>) : x \in PdLeaves}
PdC2 == {PList(<<x>>) : x \in PdC1} \cup {PMap(<< <<x, dP>> >>) : x \in PdC1} \cup {PMap(<< <<dP, x>> >>) : x \in PdC1} \cup {PConstr(FromSmall(2), <<x, dP>>) : x \in PdC1}
PdU == PdLeaves \cup PdC1 \cup PdC2
\* ------------------------------------------------------------ JSON documents: inside each schema, in and out of normal form, and just outside
Nums == { <<48>>, <<45,48>>, <<49>>, <<45,49>>, <<49,56,52,52,54,55,52,52,48,55,51,55,48,57,53,53,49,54,49,53>>, <<49,56,52,52,54,55,52,52,48,55,51,55,48,57,53,53,49,54,49,54>>,
          <<45,57,50,50,51,51,55,50,48,51,54,56,53,52,55,55,53,56,48,56>>, <<45,57,50,50,51,51,55,50,48,51,54,56,53,52,55,55,53,56,48,57>>,
          <<49,46,53>>, <<49,101,50>>, <<49,46,48>>, <<49,50,51,52,53,54,55,56,57,48,49,50,51,52,53,54,55,56,57,48,49,50,51,52,53,54,55,56,57,48,49,50,51,52,53,54,55,56,57,48,49>> }
Hx(n, ch) == <<48,120>> \o Fill(n, ch)
Strs == {<<>>, <<97>>, <<48,120>>, <<48,120,97,98>>, <<48,120,65,66>>, <<48,120,97>>, <<48,120,122,122>>, Fill(64, 98), Fill(65, 98), Hx(128, 97), Hx(130, 97), Fill(128, 97), Fill(130, 97),
         Fill(32, 195) , <<49,50>>, <<1>>, <<34,92>>, <<195,169>>, <<97,98>>, <<65,66>>, <<97,98,99>>}
\* Fill(32,195) is not valid UTF-8 and cannot be written as JSON text: removed below
\* text whose second / first character is a multi-byte one (byte offsets 1..3 fall inside a character)
MultiByte == {<<97, 195, 169>>, <<226, 130, 172>>, <<226, 130, 172, 49>>, <<240, 159, 154, 128>>, <<48, 195, 169>>, <<48, 120, 195, 169>>}
JStrs == {s \in Strs : IsUtf8(s)} \cup MultiByte \cup {[i \in 1..64 |-> IF i % 2 = 1 THEN 195 ELSE 169], [i \in 1..65 |-> IF i = 65 THEN 97 ELSE IF i % 2 = 1 THEN 195 ELSE 169]}
Keys == {<<>>, <<97>>, <<49,50>>, <<45,53>>, <<43,53>>, <<48,48,55>>, <<45,48>>, <<48,120>>, <<48,120,97,98>>, <<48,120,65,66>>, <<48,120,97>>, Fill(64, 98), Fill(65, 98), <<49,95,48>>,
         <<57,57,57,57,57,57,57,57,57,57,57,57,57,57,57,57,57,57,57,57>>, <<45,57,50,50,51,51,55,50,48,51,54,56,53,52,55,55,53,56,48,57>>,
         <<45,49,56,52,52,54,55,52,52,48,55,51,55,48,57,53,53,49,54,49,54>>, <<45,49,56,52,52,54,55,52,52,48,55,51,55,48,57,53,53,49,54,49,55>>,
         <<49,50,51,52,53,54,55,56,57,48,49,50,51,52,53,54,55,56,57,48,49,50,51,52,53,54,55,56,57,48,49,50,51,52,53,54,55,56,57,48,49>>, <<107>>, <<118>>, <<105,110,116>>}
KeysAll == Keys \cup MultiByte
JLeaves == {JNull, JBool(TRUE), JBool(FALSE)} \cup {JNum(n) : n \in Nums} \cup {JStr(s) : s \in JStrs}
dJ == JNum(<<55>>)
Obj1(k, v) == JObj(<< <<k, v>> >>)
Obj2(k1, v1, k2, v2) == IF BytesLt(k1, k2) THEN JObj(<< <<k1, v1>>, <<k2, v2>> >>) ELSE JObj(<< <<k2, v2>>, <<k1, v1>> >>)
\* plain documents (no / basic schemas, Plutus basic)
JP1 == {JArr(<<>>), JObj(<<>>)} \cup {JArr(<<x>>) : x \in JLeaves} \cup {JArr(<<x, dJ>>) : x \in JLeaves} \cup {Obj1(k, dJ) : k \in KeysAll} \cup {Obj1(<<107>>, v) : v \in JLeaves}
       \cup {Obj2(<<97>>, dJ, <<98>>, JStr(<<118>>)), Obj2(<<49>>, dJ, <<48,49>>, JStr(<<118>>)), Obj2(<<49>>, dJ, <<43,49>>, JStr(<<118>>)), Obj2(<<49,48>>, dJ, <<57>>, JStr(<<118>>)), Obj2(<<48,120,97,98>>, dJ, <<48,120,65,66>>, dJ)}
JP2 == {JArr(<<x>>) : x \in JP1} \cup {Obj1(<<107>>, x) : x \in JP1}
JPlain == JLeaves \cup JP1 \cup JP2
\* tagged documents (detailed schemas)
TagKeys == {kInt, kString, kBytes, kList, kMap, <<102,111,111>>, kConstructor}
Entry(k, v) == JObj(<< <<kK, k>>, <<kV, v>> >>)
tI(n) == Obj1(kInt, JNum(n))
JT0 == {Obj1(t, v) : t \in TagKeys, v \in JLeaves}
dT == tI(<<55>>)
JT1 == {Obj1(kList, JArr(<<>>)), Obj1(kMap, JArr(<<>>)), JObj(<<>>), Obj2(kInt, JNum(<<49>>), kString, JStr(<<97>>)), Obj1(kList, dT), Obj1(kMap, dT), Obj1(kMap, JArr(<<dT>>)),
         Obj1(kMap, JArr(<<JObj(<< <<kK, dT>> >>)>>)), Obj1(kMap, JArr(<<JObj(<< <<kV, dT>> >>)>>)),
         Obj1(kMap, JArr(<<JObj(<< <<kK, dT>>, <<kV, dT>>, <<<<120>>, dT>> >>)>>)),
         Obj1(kMap, JArr(<<Entry(dT, tI(<<49>>)), Entry(dT, tI(<<50>>))>>)),
         Obj1(kMap, JArr(<<Entry(tI(<<50>>), dT), Entry(tI(<<49>>), dT)>>)),
         Obj1(kMap, JArr(<<Entry(Obj1(kBytes, JStr(<<97,98>>)), dT), Entry(Obj1(kBytes, JStr(<<65,66>>)), dT)>>)),
         Obj2(kConstructor, JNum(<<49>>), kFields, JArr(<<>>)), Obj2(kConstructor, JNum(<<49>>), kFields, JArr(<<dT>>)), Obj2(kConstructor, JNum(<<45,49>>), kFields, JArr(<<>>)),
         Obj2(kConstructor, JNum(<<45,48>>), kFields, JArr(<<>>)), Obj2(kConstructor, JNum(<<49,46,48>>), kFields, JArr(<<>>)), Obj2(kConstructor, JStr(<<49>>), kFields, JArr(<<>>)),
         Obj2(kConstructor, JNum(<<49,56,52,52,54,55,52,52,48,55,51,55,48,57,53,53,49,54,49,53>>), kFields, JArr(<<>>)),
         Obj2(kConstructor, JNum(<<49,56,52,52,54,55,52,52,48,55,51,55,48,57,53,53,49,54,49,54>>), kFields, JArr(<<>>)),
         Obj2(kConstructor, JNum(<<49>>), kFields, dT), Obj2(kConstructor, JNum(<<49>>), kInt, JNum(<<49>>)), Obj2(kFields, JArr(<<>>), kInt, JNum(<<49>>)),
         JObj(<< <<kConstructor, JNum(<<49>>)>>, <<kFields, JArr(<<>>)>>, <<kInt, JNum(<<49>>)>> >>)}
        \cup {Obj1(kList, JArr(<<x>>)) : x \in JT0} \cup {Obj1(kMap, JArr(<<Entry(x, dT)>>)) : x \in JT0} \cup {Obj1(kMap, JArr(<<Entry(dT, x)>>)) : x \in JT0}
        \cup {Obj2(kConstructor, JNum(<<50>>), kFields, JArr(<<x>>)) : x \in JT0}
        \cup {Obj1(kList, JArr(<<x>>)) : x \in JLeaves}
JT2 == {Obj1(kList, JArr(<<x, dT>>)) : x \in JT1} \cup {Obj1(kMap, JArr(<<Entry(x, dT)>>)) : x \in JT1}
JTagged == JLeaves \cup JT0 \cup JT1 \cup JT2
BytesU == {<<>>, <<1>>, Fill(63, 3), Fill(64, 3), Fill(65, 3), Fill(128, 3), Fill(129, 3), [i \in 1..200 |-> i]}
Cases == {[kind |-> "md", md |-> x] : x \in MdU} \cup {[kind |-> "pd", pd |-> x] : x \in PdU}
         \cup {[kind |-> "jplain", js |-> x] : x \in JPlain} \cup {[kind |-> "jtagged", js |-> x] : x \in JTagged} \cup {[kind |-> "bytes", b |-> x] : x \in BytesU}
Init == c \in Cases
Next == UNCHANGED c
\* ------------------------------------------------------------ laws on the specification
Show(what, x) == PrintT(<<what, x>>) /\ FALSE
Inverse1 == c.kind = "md" =>
   /\ LET j == MdDec("detailed", c.md) IN IsE(j) \/ MdEnc("detailed", j) = c.md \/ Show("Inverse1-detailed", c.md)
   /\ LET j == MdDec("no", c.md) IN IsE(j) \/ ~MdAscending(c.md) \/ MdEnc("no", j) = c.md \/ Show("Inverse1-no", c.md)
   /\ LET j == MdDec("no", c.md) IN IsE(j) \/ (~IsE(MdEnc("no", j)) /\ MdSameContent(MdEnc("no", j), c.md)) \/ Show("Inverse1-no-content", c.md)
Inverse2 == c.kind \in {"jplain", "jtagged"} => \A sch \in {"no", "basic", "detailed"} :
   LET m == MdEnc(sch, c.js) IN IsE(m) \/ ~NormalForm(sch, c.js) \/ MdDec(sch, m) = c.js \/ Show("Inverse2-" \o sch, c.js)
Inverse3 == c.kind = "pd" => LET j == PlDec("detailed", c.pd) IN (~IsE(j) /\ PlEnc("detailed", j) = c.pd) \/ Show("Inverse3", c.pd)
Domain == c.kind \in {"jplain", "jtagged"} => \A sch \in {"no", "basic", "detailed"} : (IsE(MdEnc(sch, c.js)) <=> ~InSchema(sch, c.js)) \/ Show("Domain-" \o sch, c.js)
ChunkLaw == c.kind = "bytes" => /\ Unchunk(Chunk(c.b)) = [b |-> c.b] \/ Show("Chunks", c.b)
                              /\ \A i \in 1..Len(Chunk(c.b).xs) : Len(Chunk(c.b).xs[i].s) <= 64 /\ Len(Chunk(c.b).xs[i].s) > 0
\* the generator's own consistency: trees -> bytes -> trees, text is ASCII/UTF-8
TreesRoundTrip == /\ c.kind = "md" => MdOfItem(Parse(Canon(MdTree(c.md)))) = c.md \/ Show("MdTree", c.md)
                  /\ c.kind = "pd" => PdOfItem(Parse(Canon(PdTree(c.pd)))) = c.pd \/ Show("PdTree", c.pd)
\* ------------------------------------------------------------ scenarios
EmitScn == Emit(CASE c.kind = "md" -> [t |-> "SCN", kind |-> "md", md |-> Canon(MdTree(c.md))]
                  [] c.kind = "pd" -> [t |-> "SCN", kind |-> "pd", pd |-> Canon(PdTree(c.pd))]
                  [] c.kind = "jplain" -> [t |-> "SCN", kind |-> "jplain", text |-> JsonText(c.js)]
                  [] c.kind = "jtagged" -> [t |-> "SCN", kind |-> "jtagged", text |-> JsonText(c.js)]
                  [] c.kind = "bytes" -> [t |-> "SCN", kind |-> "bytes", b |-> c.b])
====
