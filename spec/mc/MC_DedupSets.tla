---- MODULE MC_DedupSets ----
EXTENDS DedupSets, TraceLib
VARIABLE ninit
\* ninit remembers how many elements came through the constructor path (history variable for the scenario)
MCInit == Init /\ ninit = 0
MCNext == (InitElem /\ ninit' = ninit + 1) \/ (EndInit /\ UNCHANGED ninit) \/ (Add /\ UNCHANGED ninit)
EmitScn == phase = "adds" => Emit([t |-> "SCN", kind |-> "set", path |-> path, init |-> SubSeq(arrived, 1, ninit), adds |-> SubSeq(arrived, ninit + 1, Len(arrived)),
                                   expect |-> vec])
\* asset-name orders: all permutations of four names of lengths 0,1,1,2 under two policies
Names == << <<>>, <<1>>, <<2>>, <<1, 0>> >>
Perms == {p \in [1..4 -> 1..4] : \A i, j \in 1..4 : i # j => p[i] # p[j]}
ASSUME \A p \in Perms : \A q \in {<<1, 2>>, <<2, 1>>} : Emit([t |-> "SCN", kind |-> "assets", order |-> [i \in 1..4 |-> [p |-> q[1 + (i % 2)], n |-> Names[p[i]]]]])
\* names of 23 / 24 / 25 / 32 bytes under ONE policy: from 24 bytes on the length no longer sits in the head byte of the key, and the longer
\* names here are bytewise SMALLER than the shorter ones (canonical order is by length first)
Rep(n, b) == [i \in 1..n |-> b]
LongNames == << Rep(23, 4), Rep(24, 3), Rep(25, 2), Rep(32, 1) >>
ASSUME \A p \in Perms : Emit([t |-> "SCN", kind |-> "assets", order |-> [i \in 1..4 |-> [p |-> 1, n |-> LongNames[p[i]]]]])
====
