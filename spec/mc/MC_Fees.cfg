INIT Init
NEXT Next
INVARIANT ClosedEqRecursion
INVARIANT Monotone
INVARIANT ShortcutsSound
INVARIANT BigDecided
INVARIANT EmitScn
CHECK_DEADLOCK FALSE
