INIT Init
NEXT Next
INVARIANT ClosedEqRecursion
INVARIANT Monotone
INVARIANT EmitScn
CHECK_DEADLOCK FALSE
