CONSTANT Depth = 4
INIT Init
NEXT Next
INVARIANT Confluent
INVARIANT EmitScn
CHECK_DEADLOCK FALSE
