CONSTANT Fills = {"mix", "term", "cont", "tail", "zero", "ff"}
INIT Init
NEXT Next
INVARIANT Total
INVARIANT Inverse
INVARIANT PtrForms2
INVARIANT EmitScn
CHECK_DEADLOCK FALSE
