---- MODULE MC_KeyAlgebra ----
(* Bounded model of the key algebra (C12). Cases: every derivation path of depth <= Depth    *)
(* over the index lattice {0, 1, 2^31-1, 2^31, 2^31+1, 2^32-1}. For a path TLC checks on the   *)
(* term algebra that all routes commute (Confluent): switching to the public side at any       *)
(* level j and deriving the rest publicly yields the SAME normal-form term as deriving          *)
(* privately and taking the public key last, and is ERR exactly when a hardened index comes     *)
(* after the switch. Each case is emitted as a scenario that walks every route on the real      *)
(* library; further fixed scenarios cover the sign/verify matrix, every encoding of every       *)
(* kind, and the password container lattice.                                                   *)
EXTENDS KeyAlgebra, TraceLib
CONSTANT Depth
VARIABLE c
M31 == 2147483647
Ixs == {[hard |-> FALSE, n |-> 0], [hard |-> FALSE, n |-> 1], [hard |-> FALSE, n |-> M31], [hard |-> TRUE, n |-> 0], [hard |-> TRUE, n |-> 1], [hard |-> TRUE, n |-> M31]}
Paths == UNION {[1..d -> Ixs] : d \in 1..Depth}
\* private chain: term after the first j steps of path p
RECURSIVE Priv(_,_)
Priv(p, j) == IF j = 0 THEN Root(1) ELSE Der(Priv(p, j - 1), p[j])
\* route that switches to the public side after level j
RECURSIVE Route(_,_,_)
Route(p, j, upto) == IF upto = j THEN Apply([op |-> "pub"], Priv(p, j))
                     ELSE LET prev == Route(p, j, upto - 1) IN IF prev = ERR THEN ERR ELSE Apply([op |-> "dpub", ix |-> p[upto]], prev)
Confluent == c.kind = "path" => LET p == c.p d == Len(p) IN
               \A j \in 0..d : LET r == Route(p, j, d) IN
                  /\ (r = ERR) = (\E q \in (j+1)..d : p[q].hard)
                  /\ (r # ERR => r = Pub(Priv(p, d)))
\* ---------------------------------------------------------------- scenarios (operation lists; result of operation #i is register #i)
Op1(name) == [op |-> name]
\* tw = <<>>: the path starts at a root the library generated; tw = <<byte, mask>>: at that root imported with bits or-ed in
\* (register numbers below are relative to the start register s0)
PathOpsFrom(p, tw) ==
  LET d == Len(p)
      s0 == IF tw = <<>> THEN 0 ELSE 1
      pre == IF tw = <<>> THEN <<[op |-> "root", i |-> 1]>> ELSE <<[op |-> "root", i |-> 1], [op |-> "tweak", a |-> 1, byte |-> tw[1], mask |-> tw[2]]>>
      chain == pre \o [j \in 1..d |-> [op |-> "derive", a |-> s0 + j, ix |-> p[j]]]               \* registers s0+1..s0+d+1: levels 0..d
      \* for level j (register j+1): pub, then dpub along the rest until the first hardened index (inclusive: it must be refused)
      RECURSIVE Pubs(_,_)
      Pubs(j, acc) == IF j > d THEN acc ELSE
          LET start == Len(acc) + 1
              stopAt == IF \E q \in (j+1)..d : p[q].hard THEN CHOOSE q \in (j+1)..d : p[q].hard /\ \A q2 \in (j+1)..(q-1) : ~p[q2].hard ELSE d
              steps == [q \in 1..(stopAt - j) |-> [op |-> "dpub", a |-> start + q - 1, ix |-> p[j + q]]] IN
          Pubs(j + 1, acc \o <<[op |-> "pub", a |-> s0 + j + 1]>> \o steps)
      withPubs == Pubs(0, chain)
      n == Len(withPubs)
      leaf == s0 + d + 1
      msg == <<1, 2, 3>>
      h == [i \in 1..32 |-> i] IN
  withPubs \o << [op |-> "raw", a |-> leaf], [op |-> "topub", a |-> n + 1], [op |-> "pub", a |-> leaf], [op |-> "rawpub", a |-> n + 3],
                 [op |-> "sign", a |-> n + 1, m |-> msg], [op |-> "verify", a |-> n + 2, m |-> msg, s |-> n + 5], [op |-> "verify", a |-> n + 4, m |-> msg, s |-> n + 5],
                 [op |-> "verify", a |-> n + 2, m |-> <<1, 2>>, s |-> n + 5], [op |-> "hash", a |-> n + 2],
                 [op |-> "sign", a |-> n + 1, m |-> h], [op |-> "witness", a |-> n + 1, h |-> h], [op |-> "icarus", a |-> leaf, h |-> h], [op |-> "daedalus", a |-> leaf, h |-> h],
                 \* legacy keys that are not BIP32-Ed25519 keys: low bits of the scalar set, bit 254 cleared, bit 255 set, another extension byte
                 [op |-> "daedalus", a |-> leaf, h |-> h, mutate |-> [byte |-> 0, xor |-> 1]], [op |-> "daedalus", a |-> leaf, h |-> h, mutate |-> [byte |-> 31, xor |-> 64]],
                 [op |-> "daedalus", a |-> leaf, h |-> h, mutate |-> [byte |-> 31, xor |-> 128]], [op |-> "daedalus", a |-> leaf, h |-> h, mutate |-> [byte |-> 40, xor |-> 1]] >>
\* sign / verify matrix: keys x messages, every signature against every key and message
MatrixOps ==
  LET keys == << <<[op |-> "normal", i |-> 1]>>, <<[op |-> "normal", i |-> 2]>>, <<[op |-> "root", i |-> 1], [op |-> "raw", a |-> 0]>>,
                 <<[op |-> "root", i |-> 1], [op |-> "derive", a |-> 0, ix |-> [hard |-> FALSE, n |-> 0]], [op |-> "raw", a |-> 0]>> >>
      msgs == << <<>>, <<0>>, [i \in 1..32 |-> 7], [i \in 1..200 |-> i] >>
      \* lay the key constructions out, each followed by topub; "a |-> 0" means "the previous register"
      RECURSIVE Lay(_,_,_,_)
      Lay(k, acc, sks, pks) == IF k > Len(keys) THEN [ops |-> acc, sks |-> sks, pks |-> pks] ELSE
          LET base == Len(acc)
              ks == [i \in 1..Len(keys[k]) |-> IF "a" \in DOMAIN keys[k][i] THEN [keys[k][i] EXCEPT !.a = base + i - 1] ELSE keys[k][i]]
              sk == base + Len(ks) IN
          Lay(k + 1, acc \o ks \o <<[op |-> "topub", a |-> sk]>>, Append(sks, sk), Append(pks, sk + 1))
      L == Lay(1, <<>>, <<>>, <<>>)
      nk == Len(keys) nm == Len(msgs)
      signs == [q \in 1..(nk * nm) |-> [op |-> "sign", a |-> L.sks[((q - 1) \div nm) + 1], m |-> msgs[((q - 1) % nm) + 1]]]
      sbase == Len(L.ops)
      verifs == [q \in 1..(nk * nm * nk * nm) |-> LET sg == ((q - 1) % (nk * nm)) + 1 pm == (q - 1) \div (nk * nm) IN
                   [op |-> "verify", a |-> L.pks[(pm \div nm) + 1], m |-> msgs[(pm % nm) + 1], s |-> sbase + sg]] IN
  L.ops \o signs \o verifs
Forms == <<"bytes", "hex", "bech32">>
CodecOps ==
  << [op |-> "root", i |-> 2], [op |-> "derive", a |-> 1, ix |-> [hard |-> TRUE, n |-> 1852]], [op |-> "pub", a |-> 2], [op |-> "raw", a |-> 2], [op |-> "topub", a |-> 4],
     [op |-> "normal", i |-> 9], [op |-> "topub", a |-> 6], [op |-> "sign", a |-> 4, m |-> <<9>>], [op |-> "sign", a |-> 6, m |-> <<9>>] >>
  \o [q \in 1..27 |-> [op |-> "codec", a |-> <<1, 2, 3, 4, 5, 6, 7, 8, 9>>[((q - 1) \div 3) + 1], form |-> Forms[((q - 1) % 3) + 1]]]
  \o << [op |-> "codec", a |-> 1, form |-> "xprv128"], [op |-> "codec", a |-> 2, form |-> "xprv128"] >>
\* password containers: password length around the SHA-256 / SHA-512 block sizes, plaintext lengths, every kind of wrong password and damaged container
PwLens == {1, 63, 64, 65, 127, 128, 129, 200}
DataLens == {0, 1, 33}
Pw(n) == [i \in 1..n |-> 1 + ((i * 7) % 250)]
EmipOps(pl, dl) ==
  LET pw == Pw(pl) data == [i \in 1..dl |-> (i * 3) % 256] salt == [i \in 1..32 |-> i] nonce == [i \in 1..12 |-> 100 + i] total == 60 + dl
      other == [pw EXCEPT ![pl] = IF pw[pl] = 9 THEN 8 ELSE 9] IN
  << [op |-> "encrypt", pw |-> pw, salt |-> salt, nonce |-> nonce, data |-> data],
     [op |-> "decrypt", a |-> 1, pw |-> pw],
     [op |-> "decrypt", a |-> 1, pw |-> pw, sha512_of_pw |-> TRUE],
     [op |-> "decrypt", a |-> 1, pw |-> pw, append0 |-> 1],
     [op |-> "decrypt", a |-> 1, pw |-> other],
     [op |-> "decrypt", a |-> 1, pw |-> SubSeq(pw, 1, pl - 1) \o <<0>>],
     \* related passwords, each right after a use of the right one: proper prefixes (also the empty one), an extension
     [op |-> "decrypt", a |-> 1, pw |-> SubSeq(pw, 1, pl - 1)],
     [op |-> "decrypt", a |-> 1, pw |-> pw],
     [op |-> "decrypt", a |-> 1, pw |-> pw \o <<77>>],
     [op |-> "decrypt", a |-> 1, pw |-> pw],
     [op |-> "decrypt", a |-> 1, pw |-> <<>>],
     [op |-> "decrypt", a |-> 1, pw |-> SubSeq(pw, 1, (pl + 1) \div 2)],
     [op |-> "decrypt", a |-> 1, pw |-> pw, cut |-> 1],
     [op |-> "decrypt", a |-> 1, pw |-> pw, cut |-> dl] >>
  \o [q \in 1..Cardinality({0, 31, 32, 43, 44, 59, 60, total - 1} \cap 0..(total - 1)) |->
        [op |-> "decrypt", a |-> 1, pw |-> pw, flip |-> LET S == {0, 31, 32, 43, 44, 59, 60, total - 1} \cap 0..(total - 1) IN CHOOSE x \in S : Cardinality({y \in S : y < x}) = q - 1]]
  \o << [op |-> "encrypt", pw |-> pw, salt |-> SubSeq(salt, 1, 31), nonce |-> nonce, data |-> data], [op |-> "encrypt", pw |-> pw, salt |-> salt, nonce |-> nonce \o <<1>>, data |-> data],
        [op |-> "encrypt", pw |-> <<>>, salt |-> salt, nonce |-> nonce, data |-> data] >>
PathOps(p) == PathOpsFrom(p, <<>>)
\* imported keys: bits of the scalar's top byte (index 31, 0-based) and of the chain code that a generated key never has set
Tweaks == {<<31, 32>>, <<31, 128>>, <<0, 7>>, <<70, 255>>}
ShortPaths == UNION {[1..d -> Ixs] : d \in 1..2}
Cases == {[kind |-> "path", p |-> p] : p \in Paths} \cup {[kind |-> "tpath", p |-> p, tw |-> t] : p \in ShortPaths, t \in Tweaks} \cup {[kind |-> "matrix"], [kind |-> "codec"]} \cup {[kind |-> "emip3", pl |-> pl, dl |-> dl] : pl \in PwLens, dl \in DataLens}
Init == c \in Cases
Next == UNCHANGED c
EmitScn == Emit([t |-> "SCN", ops |-> CASE c.kind = "path" -> PathOps(c.p) [] c.kind = "tpath" -> PathOpsFrom(c.p, c.tw) [] c.kind = "matrix" -> MatrixOps [] c.kind = "codec" -> CodecOps [] OTHER -> EmipOps(c.pl, c.dl)])
====
