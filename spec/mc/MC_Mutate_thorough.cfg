CONSTANTS
 Depth = 3
 Stride = 2
INIT Init
NEXT Next
INVARIANT EmitScn
CHECK_DEADLOCK FALSE
