---- MODULE MC_Numeric ----
(* Operand lattice x operations for the amount types (scenario generator), and   *)
(* model-level checks: the Value laws hold for the specification's own operators *)
(* on a small universe; the CBOR integer grammar is self-inverse on the lattice.  *)
EXTENDS Numeric, TraceLib
CONSTANT Tier          \* "quick" | "thorough"
VARIABLE c
B(n) == ToBE(n, 0)
L == { Zero, One, FromSmall(23), FromSmall(24), FromSmall(255), FromSmall(256), FromSmall(65535), FromSmall(65536),
       Sub(Pow2(32), One), Pow2(32), Sub(P63, One), P63, U64Max }
Big == { P64, Add(P64, One), Pow2(65), Sub(Pow2(127), One), Pow2(127), Pow2(128), Sub(Pow2(512), One) }
SL == {SPos(x) : x \in L} \cup {SI(TRUE, x) : x \in L} \cup {SI(TRUE, Add(P63, One)), SI(TRUE, P64), SPos(Sub(Pow2(31), One)), SI(TRUE, Pow2(31)), SI(TRUE, Add(Pow2(31), One)), SPos(Pow2(31))}
SBig == {SPos(x) : x \in Big} \cup {SI(TRUE, x) : x \in Big}
J(x) == [neg |-> x.neg, mag_n |-> B(x.mag)]
Malformed == { <<>>, <<45>>, <<43,53>>, <<48,53>>, <<53,32>>, <<48,120,49,48>>, <<45,48>>, <<49,95,48>>, <<32,49>> }
\* non-minimal CBOR integer encodings and non-integers
OddCbor == { <<24,1>>, <<25,0,1>>, <<27,0,0,0,0,0,0,0,1>>, <<56,0>>, <<59,255,255,255,255,255,255,255,255>>, <<64>>, <<246>>, <<>>, <<24>>, <<194,65,1>>, <<195,64>>,
             <<194,73,1,0,0,0,0,0,0,0,0>>, <<195,73,1,0,0,0,0,0,0,0,0>>, <<194,72,255,255,255,255,255,255,255,255>>, <<195,72,255,255,255,255,255,255,255,255>>, <<194,95,65,1,65,2,255>>, <<194,66,0,1>> }
\* dividends / divisors of both signs, exact and inexact quotients, the 64-bit edges
Dvd == {SPos(Zero), SPos(One), SI(TRUE, One), SPos(FromSmall(7)), SI(TRUE, FromSmall(7)), SPos(FromSmall(6)), SI(TRUE, FromSmall(6)), SPos(U64Max), SI(TRUE, P64), SPos(Pow2(127)), SI(TRUE, Add(P64, One))}
Dvs == {SPos(One), SI(TRUE, One), SPos(FromSmall(2)), SI(TRUE, FromSmall(2)), SPos(FromSmall(3)), SI(TRUE, FromSmall(3)), SPos(U64Max), SI(TRUE, P64)}
\* values for the real Value type: two asset ids under one policy plus one under another, quantities {absent, 0, 1, 2^64-1}
VIds == {<<<<1>>, <<>>>>, <<<<2>>, <<7>>>>}
VQs == {Zero, One, U64Max}
ValsJ == {[coin |-> k, ma |-> m] : k \in {Zero, One, U64Max}, m \in UNION {[S -> VQs] : S \in SUBSET VIds}}
JV(v) == [coin_n |-> B(v.coin), ma |-> TRUE,
          assets |-> LET ids == DOMAIN v.ma
                         RECURSIVE Sq(_) Sq(S) == IF S = {} THEN <<>> ELSE LET x == CHOOSE y \in S : TRUE IN <<[p |-> x[1], n |-> x[2], q_n |-> B(v.ma[x])]>> \o Sq(S \ {x})
                     IN Sq(ids)]
BinOps == {"checked_add", "checked_mul", "checked_sub", "clamped_sub", "max", "less_than", "compare"}
Cases ==
   {[ty |-> "BigNum", op |-> o, a |-> [a_n |-> B(x), b_n |-> B(y)]] : o \in BinOps, x \in L, y \in L}
   \cup {[ty |-> "BigNum", op |-> "from_str", a |-> [s |-> s]] : s \in {Dec(x) : x \in L \cup Big} \cup Malformed \cup {<<45,49>>}}
   \cup {[ty |-> "BigNum", op |-> "from_bytes", a |-> [bytes |-> b]] : b \in {EUInt(x) : x \in L} \cup OddCbor}
   \cup {[ty |-> "Int", op |-> o, a |-> [a_n |-> B(x)]] : o \in {"new", "new_negative"}, x \in L}
   \cup {[ty |-> "Int", op |-> "new_i32", a |-> [a |-> J(x)]] : x \in {SPos(Zero), SPos(One), SI(TRUE, One), I32Min, I32Max, SPos(FromSmall(65536)), SI(TRUE, FromSmall(256))}}
   \cup {[ty |-> "Int", op |-> "from_str", a |-> [s |-> s]] : s \in {SDec(x) : x \in SL \cup SBig} \cup Malformed}
   \cup {[ty |-> "Int", op |-> "from_bytes", a |-> [bytes |-> b]] : b \in {ESInt(x) : x \in SL} \cup OddCbor}
   \cup {[ty |-> "Int", op |-> "from_bigint", a |-> [a |-> J(x)]] : x \in SL \cup SBig}
   \cup {[ty |-> "BigInt", op |-> "from_str", a |-> [s |-> s]] : s \in {SDec(x) : x \in SL \cup SBig} \cup Malformed}
   \cup {[ty |-> "BigInt", op |-> o, a |-> [a |-> J(x), b |-> J(y)]] : o \in {"add", "sub", "mul"}, x \in SL \cup (IF Tier = "thorough" THEN SBig ELSE {}), y \in SL}
   \cup {[ty |-> "BigInt", op |-> o, a |-> [a |-> J(x)]] : o \in {"abs", "increment"}, x \in SL \cup SBig}
   \cup {[ty |-> "BigInt", op |-> o, a |-> [a |-> J(x), b |-> J(y)]] : o \in {"div_floor", "div_ceil"}, x \in Dvd, y \in Dvs}
   \cup {[ty |-> "BigInt", op |-> "pow", a |-> [a |-> J(x), e |-> k]] : x \in {SPos(Zero), SPos(One), SI(TRUE, One), SPos(FromSmall(12)), SI(TRUE, FromSmall(10)), SPos(U64Max), SI(TRUE, P64)}, k \in {0, 1, 2, 3, 7}}
   \cup {[ty |-> "Value", op |-> o, a |-> [a |-> JV(v), b |-> JV(w)]] : o \in {"compare", "checked_add", "checked_sub", "clamped_sub"}, v \in ValsJ, w \in ValsJ}
   \cup {[ty |-> "BigInt", op |-> "from_bignum", a |-> [a_n |-> B(x)]] : x \in L}
   \cup {[ty |-> "BigInt", op |-> "from_bytes", a |-> [bytes |-> b]] : b \in {ESInt(x) : x \in SL} \cup OddCbor}
Init == c \in Cases
Next == UNCHANGED c
EmitScn == Emit([t |-> "SCN", ty |-> c.ty, op |-> c.op, a |-> c.a])
\* the expectation function is total on the generated cases and never "free" for canonical input
ExpectDefined == c.ty # "Value" => LET x == CASE c.ty = "BigNum" -> BigNumOp(c.op, c.a) [] c.ty = "Int" -> IntCtor(c.op, c.a) [] OTHER -> BigIntOp(c.op, c.a) IN x.k \in {"u", "s", "b", "err", "free", "div"}
\* ---- model-level laws (evaluated once)
\* CBOR integer grammar: Parse . Enc = id on the signed lattice, and the encoding is the shortest
ASSUME \A x \in SL : InIntRange(x) => LET it == Parse(ESInt(x)) IN ~IsErr(it) /\ SIntOf(it) = x /\ ShortestHead(it)
ASSUME \A x \in L \cup Big : FromDec(Dec(x)) = x
ASSUME \A x \in SL \cup SBig : CanonDec(SDec(x)) /\ DecS(SDec(x)) = x
ASSUME \A s \in Malformed : ~CanonDec(s)
\* signed arithmetic sanity: (x + y) - y = x, x * 1 = x, commutativity
ASSUME \A x \in SL, y \in SL : SSub(SAdd(x, y), y) = x /\ SAdd(x, y) = SAdd(y, x) /\ SMul(x, y) = SMul(y, x)
\* Value laws on a small universe: 2 asset ids, quantities {absent, 0, 1, 2^64-1}, coin {0, 1, 2^64-1}
Ids == {<<<<1>>, <<>>>>, <<<<1>>, <<7>>>>}
Qs == {Zero, One, U64Max}
Mas == UNION {[S -> Qs] : S \in SUBSET Ids}
Vals == {[coin |-> k, ma |-> m] : k \in Qs, m \in Mas}
ASSUME \A a \in Vals, b \in Vals : VEq(VAdd(a, b), VAdd(b, a)) /\ VLeq(b, VAdd(a, b)) /\ VEq(VSub(VAdd(a, b), b), a)
ASSUME \A a \in Vals, b \in Vals : (VLeq(a, b) /\ VLeq(b, a)) <=> VEq(a, b)
ASSUME \A a \in Vals, b \in Vals, d \in {v \in Vals : v.coin # U64Max} : VEq(VAdd(VAdd(a, b), d), VAdd(a, VAdd(b, d)))
ASSUME \A a \in Vals, b \in Vals : VLeq(b, a) => VEq(VAdd(VSub(a, b), b), a)
====
