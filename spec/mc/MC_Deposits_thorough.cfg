CONSTANT MaxOps = 3
INIT Init
NEXT Next
INVARIANT TablesAgree
INVARIANT Exclusive
INVARIANT EmitScn
CHECK_DEADLOCK FALSE
