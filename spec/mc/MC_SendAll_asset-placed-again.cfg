CONSTANTS
 Assets <- MCAssets
 PolicyOf <- MCPolicyOf
 MaxTx = 12
 MaxVal = 1
 Fee = 1
 Variant = "asset-placed-again"
INIT Init
NEXT Next
INVARIANT Partition
INVARIANT TxOk
INVARIANT Bookkeeping
INVARIANT NoSpuriousRefusal
CHECK_DEADLOCK FALSE
