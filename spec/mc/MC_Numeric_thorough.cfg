CONSTANT Tier = "thorough"
INIT Init
NEXT Next
INVARIANT ExpectDefined
INVARIANT EmitScn
CHECK_DEADLOCK FALSE
