CONSTANTS
 OpsPool <- Pool
 MaxOps = 4
 FeeOf = 1
 MinAda = 1
INIT Init
NEXT Next
INVARIANT Balanced
INVARIANT BuiltOk
INVARIANT BalancedBuilds
INVARIANT OrderIrrelevant
INVARIANT LastWriterWins
INVARIANT EmitScn
CONSTRAINT StateConstraint
CHECK_DEADLOCK FALSE
