CONSTANTS
 OpsPool <- Pool
 MaxOps = 5
 FeeOf = 1
 MinAda = 1
INIT Init
NEXT Next
INVARIANT Balanced
INVARIANT OrderIrrelevant
INVARIANT LastWriterWins
INVARIANT EmitScn
CONSTRAINT StateConstraint
CHECK_DEADLOCK FALSE
