---- MODULE MC_Mutate ----
(* Bases for structure-aware mutation (C02): for each typed schema its default instance  *)
(* and a spread of each-choice instances, emitted with the byte span and major type of    *)
(* EVERY node as found by CBOR!Parse, so that mutations are applied at structural          *)
(* positions (heads, lengths, item boundaries), not at random offsets.                     *)
EXTENDS ConwaySchema, CDDLGen, TraceLib
CONSTANTS Depth, Stride
VARIABLE c
Types == {"transaction", "body", "output", "value", "mint", "certificate", "witness_set", "native_script", "plutus_data", "auxiliary_data", "metadata",
          "metadatum", "input", "redeemers", "vkeywitness", "bootstrap_witness", "voting_procedures", "proposal", "script_ref", "drep", "vkeywitnesses", "bootstrap_witnesses",
          "protocol_param_update", "gov_action", "header_body", "header", "operational_cert"}
RECURSIVE Spans(_)
Spans(it) == <<[lo |-> it.lo, hi |-> it.hi, mt |-> it.mt, ai |-> it.ai]>> \o Flat([j \in 1..Len(it.kids) |-> Spans(it.kids[j])])
All(ty) == K1(Schema, Schema[ty], Depth)
\* every Stride-th instance in a fixed (CHOOSE-determined) enumeration would need an order; use a hash of the bytes instead
Pick(x) == LET b == Canon(x) IN (Len(b) * 31 + b[Len(b)] + b[(Len(b) + 1) \div 2]) % Stride = 0
\* the default, every alternative at the top node (each optional field present once, all present at once), and a spread of deeper ones
Cases == UNION {{[ty |-> ty, tree |-> x] : x \in {y \in All(ty) : Pick(y)} \cup {Default(Schema, Schema[ty])} \cup Variants(Schema, Schema[ty])} : ty \in Types}
Init == c \in Cases
Next == UNCHANGED c
EmitScn == LET b == Canon(c.tree) IN Emit([t |-> "SCN", kind |-> "base", type |-> c.ty, bytes |-> b, spans |-> Spans(Parse(b))])
====
