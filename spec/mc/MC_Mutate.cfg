CONSTANTS
 Depth = 3
 Stride = 12
INIT Init
NEXT Next
INVARIANT EmitScn
CHECK_DEADLOCK FALSE
