---- MODULE MC_Codec ----
(* Each-choice instances of the typed schemas (generator) and the self-consistency of   *)
(* the schema transcription: every generated instance conforms to its schema in the      *)
(* ledger profile, and decoding its canonical bytes gives back the same data             *)
(* (Parse . Canon = id on the grammar).                                                  *)
EXTENDS ConwaySchema, CDDLGen, TraceLib
CONSTANT Depth
VARIABLE c
Types == {"transaction", "body", "output", "value", "mint", "certificate", "witness_set", "native_script", "plutus_data", "auxiliary_data", "metadata",
          "metadatum", "input", "redeemers", "vkeywitness", "bootstrap_witness", "voting_procedures", "proposal", "script_ref", "drep",
          "protocol_param_update", "gov_action", "header_body", "header", "block", "operational_cert"}
Cases == UNION {{[ty |-> ty, tree |-> x] : x \in K1(Schema, Schema[ty], Depth) \cup {Default(Schema, Schema[ty])}} : ty \in Types}
Init == c \in Cases
Next == UNCHANGED c
Bytes == Canon(c.tree)
EmitScn == Emit([t |-> "SCN", type |-> c.ty, bytes |-> Bytes])
GeneratorConforms == LET it == Parse(Bytes) r == IF IsErr(it) THEN <<"malformed", it.why>> ELSE Conforms(Schema, c.ty, it, "ledger") IN
                     IF r = OK THEN TRUE ELSE PrintT(<<"GENERATOR-DISAGREES", c.ty, r, Bytes>>) /\ FALSE
====
