---- MODULE MC_Codec ----
(* Each-choice instances of the typed schemas (generator) and the self-consistency of   *)
(* the schema transcription: every generated instance conforms to its schema in the      *)
(* ledger profile, and decoding its canonical bytes gives back the same data             *)
(* (Parse . Canon = id on the grammar).                                                  *)
EXTENDS ConwaySchema, CDDLGen, TraceLib
CONSTANTS Depth, Types
VARIABLE c
Cases == UNION {{[ty |-> ty, tree |-> x] : x \in K1(Schema, Schema[ty], Depth) \cup {Default(Schema, Schema[ty])}} : ty \in Types}
Init == c \in Cases
Next == UNCHANGED c
Bytes == Canon(c.tree)
EmitScn == Emit([t |-> "SCN", type |-> c.ty, bytes |-> Bytes])
GeneratorConforms == LET it == Parse(Bytes) r == IF IsErr(it) THEN <<"malformed", it.why>> ELSE Conforms(Schema, c.ty, it, "ledger") IN
                     IF r = OK THEN TRUE ELSE PrintT(<<"GENERATOR-DISAGREES", c.ty, r, Bytes>>) /\ FALSE
====
