---- MODULE MC_FixedTx ----
(* Scenario generator for C04: base transactions (every witness-set key absent /    *)
(* present / present-but-empty in turn) x every single non-canonical encoding choice *)
(* (Encodings!Deviations) x add-signature histories of length <= MaxOps. Model-level  *)
(* check: every generated encoding is well-formed CBOR and carries the same data as   *)
(* the canonical one (the generator only changes the ENCODING), except for the         *)
(* duplicated-key deviation.                                                           *)
EXTENDS Encodings, TraceLib
CONSTANT MaxOps
VARIABLE c
H(k, n) == [i \in 1..n |-> k]
In(k) == A(<<Bs(H(k, 32)), U(FromSmall(k))>>)
Out(k, coin) == A(<<Bs(<<97>> \o H(k, 28)), U(coin)>>)
Body == M(<< <<U(Zero), T(258, A(<<In(1), In(2)>>))>>, <<U(One), A(<<Out(3, FromSmall(1000000)), Out(4, Pow2(32))>>)>>, <<U(FromSmall(2)), U(FromSmall(170000))>>,
             <<U(FromSmall(3)), U(FromSmall(500))>> >>)
VkeyW(k) == A(<<Bs(H(k, 32)), Bs(H(k + 1, 64))>>)
NativeS(k) == A(<<U(Zero), Bs(H(k, 28))>>)
BootW(k) == A(<<Bs(H(k, 32)), Bs(H(k + 1, 64)), Bs(H(k + 2, 32)), Bs(<<160>>)>>)
\* witness-set variants: which keys are present (with elements) / present but empty / absent
WsVariants == { M(<<>>),
                M(<< <<U(Zero), T(258, A(<<VkeyW(9)>>))>> >>),
                M(<< <<U(Zero), T(258, A(<<>>))>> >>),
                M(<< <<U(Zero), A(<<VkeyW(9), VkeyW(9)>>)>>, <<U(One), T(258, A(<<NativeS(5)>>))>> >>),
                M(<< <<U(One), A(<<>>)>> >>),
                M(<< <<U(Zero), T(258, A(<<VkeyW(9)>>))>>, <<U(FromSmall(2)), T(258, A(<<BootW(20)>>))>> >>),
                M(<< <<U(FromSmall(2)), T(258, A(<<>>))>>, <<U(FromSmall(4)), T(258, A(<<U(One), U(One)>>))>> >>),
                M(<< <<U(Zero), T(258, A(<<VkeyW(9)>>))>>, <<U(FromSmall(4)), A(<<>>)>>, <<U(FromSmall(5)), M(<<>>)>> >>),
                M(<< <<U(FromSmall(5)), A(<<>>)>>, <<U(FromSmall(6)), T(258, A(<<Bs(H(7, 5))>>))>>, <<U(FromSmall(7)), A(<<>>)>> >>) }
\* the three forms of auxiliary data: Shelley (metadata map), Shelley-MA ([metadata, native scripts]), Alonzo (#6.259 map)
Md == M(<< <<U(FromSmall(674)), Tx(<<104, 105>>)>> >>)
AuxOf(form) == CASE form = "map" -> Md [] form = "array" -> A(<<Md, A(<<NativeS(5)>>)>>)
                 [] form = "tag" -> T(259, M(<< <<U(Zero), Md>>, <<U(One), A(<<NativeS(5)>>)>>, <<U(FromSmall(3)), A(<<Bs(H(7, 5))>>)>> >>))
                 \* present but holding nothing, in each of the three forms (kept verbatim like any other auxiliary data)
                 [] form = "emap" -> M(<<>>) [] form = "earray" -> A(<<M(<<>>), A(<<>>)>>) [] form = "etag" -> T(259, M(<<>>))
                 [] form = "etag2" -> T(259, M(<< <<U(Zero), M(<<>>)>>, <<U(One), A(<<>>)>> >>)) [] OTHER -> Sp(246)
\* aux = <<arity, form>>: four elements, or the pre-Alonzo three-element layout without the validity flag
TxOf(ws, aux) == IF aux[1] = 4 THEN A(<<Body, ws, Sp(245), AuxOf(aux[2])>>) ELSE A(<<Body, ws, AuxOf(aux[2])>>)
OpsSet == {"vkey1", "vkey2", "boot1"}
Histories == UNION {[1..n -> OpsSet] : n \in 0..MaxOps}
W1 == M(<< <<U(Zero), T(258, A(<<VkeyW(9)>>))>> >>)
W2 == M(<< <<U(Zero), A(<<VkeyW(9), VkeyW(9)>>)>>, <<U(One), T(258, A(<<NativeS(5)>>))>> >>)
NoDev == <<<<-1>>, "none">>
NoPair == <<NoDev, NoDev, NoDev>>
\* several deviations at once, one per PART (body, witness set, auxiliary data): for every part one representative node per deviation
\* kind, all combinations over two and three parts (the parts are encoded separately and spliced in verbatim)
PairKinds == {"w1", "w2", "w4", "w8", "wide", "indef", "chunk1", "chunk2"}
Reps(t) == {CHOOSE d \in Deviations(t) : d[2] = k : k \in {x \in PairKinds : \E d \in Deviations(t) : d[2] = x}}
PairSet == LET rb == Reps(Body) rw == Reps(W1) ra == Reps(AuxOf("tag")) IN
           {<<b, w, NoDev>> : b \in rb, w \in rw} \cup {<<b, NoDev, a>> : b \in rb, a \in ra} \cup {<<NoDev, w, a>> : w \in rw, a \in ra}
           \cup {<<b, w, a>> : b \in rb, w \in rw, a \in ra}
Cases == {[ws |-> w, aux |-> <<4, "none">>, dev |-> d, hist |-> h, pair |-> NoPair] : w \in WsVariants, d \in {NoDev}, h \in Histories}
    \cup {[ws |-> W1, aux |-> <<4, "tag">>, dev |-> <<<<-1>>, pr[1][2] \o "+" \o pr[2][2] \o "+" \o pr[3][2]>>, hist |-> h, pair |-> pr] : pr \in PairSet, h \in {<<>>, <<"vkey1", "boot1">>}}
    \cup UNION {{[ws |-> wa[1], aux |-> wa[2], dev |-> d, hist |-> h, pair |-> NoPair] : d \in Deviations(TxOf(wa[1], wa[2])), h \in {<<>>, <<"vkey1">>, <<"boot1">>, <<"vkey1", "boot1">>}} :
                 wa \in {<<W1, <<4, "map">>>>, <<W2, <<4, "map">>>>, <<W1, <<4, "array">>>>, <<W1, <<4, "tag">>>>, <<W1, <<3, "map">>>>, <<W1, <<3, "array">>>>}}
EmptyAux == {[ws |-> W1, aux |-> <<ar, f>>, dev |-> NoDev, hist |-> h, pair |-> NoPair] : ar \in {3, 4}, f \in {"emap", "earray", "etag", "etag2"}, h \in {<<>>, <<"vkey1">>, <<"vkey1", "boot1">>}}
Init == c \in Cases \cup EmptyAux
Next == UNCHANGED c
Part(t, d) == Raw(Enc(t, <<>>, d[1], d[2]))
Bytes == IF c.pair = NoPair THEN Enc(TxOf(c.ws, c.aux), <<>>, c.dev[1], c.dev[2])
         ELSE Canon(A(<<Part(Body, c.pair[1]), Part(c.ws, c.pair[2]), Sp(245), Part(AuxOf(c.aux[2]), c.pair[3])>>))
\* the body and witness-set spans of the (deviated) transaction, for the read-only views of a body alone / inside a block
PartSpan(i) == LET it == Parse(Bytes) IN IF ~IsErr(it) /\ it.mt = 4 /\ Len(it.kids) >= 2 THEN Span(Bytes, it.kids[i]) ELSE <<>>
EmitScn == Emit([t |-> "SCN", kind |-> "tx", bytes |-> Bytes, dev |-> c.dev[2], ops |-> c.hist, body |-> IF c.hist = <<>> THEN PartSpan(1) ELSE <<>>, ws |-> IF c.hist = <<>> THEN PartSpan(2) ELSE <<>>])
WellFormedEnc == WellFormed(Bytes)
SameDataEnc == c.dev[2] \notin {"dupkey", "drop", "swap"} => SameData(Parse(Bytes), Parse(Canon(TxOf(c.ws, c.aux))))
====
