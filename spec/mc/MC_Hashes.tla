---- MODULE MC_Hashes ----
(* Scenario lattice for the stand-alone hashing helpers (C09): redeemer count x redeemer form *)
(* (map / legacy array) x datums (none / empty / one / two / big) x every subset of the three  *)
(* Plutus versions x cost lists (empty, small, negative, 64-bit). On the specification TLC      *)
(* checks that the language-view map is in canonical key order (shorter encoded key first) and  *)
(* well-formed, and that the V1 entry is the double encoding.                                   *)
EXTENDS LedgerRules, Encodings, TraceLib
VARIABLE c
Datas == <<U(One), Bs(<<1, 2, 3>>), T(121, A(<<>>)), [k |-> "iarr", xs |-> <<U(FromSmall(24))>>]>>
Red(i) == [tag |-> (i * 3) % 6, ix |-> i - 1, data |-> Datas[((i - 1) % 4) + 1], mem |-> FromSmall(1000 * i), steps |-> IF i = 2 THEN Pow2(33) ELSE FromSmall(7)]
RedTree(n, form) == IF form = "map" THEN M([i \in 1..n |-> <<A(<<U(FromSmall(Red(i).tag)), U(FromSmall(Red(i).ix))>>), A(<<Red(i).data, A(<<U(Red(i).mem), U(Red(i).steps)>>)>>)>>])
                    ELSE A([i \in 1..n |-> A(<<U(FromSmall(Red(i).tag)), U(FromSmall(Red(i).ix)), Red(i).data, A(<<U(Red(i).mem), U(Red(i).steps)>>)>>)])
DatTree(d) == CASE d = "empty" -> A(<<>>) [] d = "one" -> A(<<U(One)>>) [] d = "two" -> [k |-> "iarr", xs |-> <<U(One), Bs(<<9, 9>>)>>]
                [] d = "set" -> T(258, A(<<T(122, A(<<U(One)>>))>>)) [] OTHER -> A(<<[k |-> "cbytes", s |-> [i \in 1..70 |-> i]]>>)
CostLists == << <<>>, <<U(Zero), U(One)>>, <<U(FromSmall(24)), NI(Zero), U(Sub(Pow2(32), One)), NI(Sub(Pow2(63), One)), U(Sub(Pow2(63), One))>> >>
CmTree(langs, cl) == LET sel == SelectSeq(<<1, 2, 3>>, LAMBDA v : v \in langs) IN M([i \in 1..Len(sel) |-> <<U(FromSmall(sel[i] - 1)), A(CostLists[((cl + sel[i]) % 3) + 1])>>])
Cases == {[kind |-> "sdh", n |-> n, form |-> f, d |-> d, langs |-> L, cl |-> cl] : n \in 0..2, f \in {"map", "array"}, d \in {"none", "empty", "one", "two", "set", "big"}, L \in SUBSET {1, 2, 3}, cl \in 0..2}
Init == c \in Cases
Next == UNCHANGED c
CostOf(v) == LET t == CostLists[((c.cl + v) % 3) + 1] IN [j \in 1..Len(t) |-> IF t[j].k = "uint" THEN SPos(t[j].n) ELSE SI(TRUE, Add(t[j].n, One))]
Views == LangViews(c.langs, CostOf)
ViewsCanonical == LET it == Parse(Views) IN
   /\ ~IsErr(it) /\ it.mt = 5 /\ Len(it.kids) = 2 * Cardinality(c.langs)
   /\ \A i \in 1..((Len(it.kids) \div 2) - 1) : LET a == Span(Views, it.kids[2*i-1]) b == Span(Views, it.kids[2*i+1]) IN Len(a) < Len(b) \/ (Len(a) = Len(b) /\ LexLt(a, b))
   /\ (1 \in c.langs => LET k == it.kids[Len(it.kids) - 1] v == it.kids[Len(it.kids)] IN k.mt = 2 /\ k.str = <<0>> /\ v.mt = 2 /\ LET inner == Parse(v.str) IN ~IsErr(inner) /\ inner.mt = 4 /\ inner.indef)
EmitScn == Emit(IF c.d = "none" THEN [t |-> "SCN", kind |-> "sdh", red |-> Canon(RedTree(c.n, c.form)), cm |-> Canon(CmTree(c.langs, c.cl))]
                ELSE [t |-> "SCN", kind |-> "sdh", red |-> Canon(RedTree(c.n, c.form)), dat |-> Canon(DatTree(c.d)), cm |-> Canon(CmTree(c.langs, c.cl))])
====
