INIT Init
NEXT Next
INVARIANT ViewsCanonical
INVARIANT EmitScn
CHECK_DEADLOCK FALSE
