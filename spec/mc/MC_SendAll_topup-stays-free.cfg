CONSTANTS
 Assets <- MCAssets
 PolicyOf <- MCPolicyOf
 MaxTx = 5
 MaxVal = 1
 Fee = 1
 Variant = "topup-stays-free"
INIT Init
NEXT Next
INVARIANT Partition
INVARIANT TxOk
INVARIANT Bookkeeping
INVARIANT NoSpuriousRefusal
CHECK_DEADLOCK FALSE
