---- MODULE MC_Deposits ----
(* All histories of at most MaxOps additions of certificates (19 kinds, explicit    *)
(* amounts small and at the 64-bit boundary), withdrawals and proposals. Invariant: *)
(* the helper's and the builder's tables give the ledger's totals (L1a = L1b = L0)  *)
(* and overflow is reported exactly when the exact sum exceeds 2^64-1. Every        *)
(* reachable state is emitted as a scenario.                                        *)
EXTENDS Deposits, TraceLib, FiniteSets
CONSTANTS MaxOps
VARIABLES certs, wds, props, pp
vars == <<certs, wds, props, pp>>
B(n) == ToBE(n, 0)
Amts == {FromSmall(2000000), U64Max}
CertChoices == {[k |-> k, coin |-> Zero] : k \in (0..18) \ CoinKinds} \cup {[k |-> k, coin |-> a] : k \in CoinKinds, a \in Amts}
WdAmts == {Zero, FromSmall(5), U64Max}
PPs == {[kd |-> FromSmall(2000000), pd |-> FromSmall(500000000)], [kd |-> U64Max, pd |-> One]}
Init == certs = <<>> /\ wds = <<>> /\ props = <<>> /\ pp \in PPs
NOps == Len(certs) + Len(wds) + Len(props)
AddCert == \E c \in CertChoices : certs' = Append(certs, c) /\ UNCHANGED <<wds, props, pp>>
AddWd == \E a \in WdAmts : wds' = Append(wds, a) /\ UNCHANGED <<certs, props, pp>>
AddProp == \E a \in WdAmts : props' = Append(props, a) /\ UNCHANGED <<certs, wds, pp>>
Next == NOps < MaxOps /\ (AddCert \/ AddWd \/ AddProp)
Id(x) == x
L0Deposit == Add(SumBy(certs, LAMBDA c : L0Dep(c, pp.kd, pp.pd)), SumBy(props, Id))
L0Implicit == Add(SumBy(wds, Id), SumBy(certs, LAMBDA c : L0Ref(c, pp.kd, pp.pd)))
TablesAgree ==
  /\ Add(SumBy(certs, LAMBDA c : HelperDep(c, pp.kd, pp.pd)), SumBy(props, Id)) = L0Deposit
  /\ Add(SumBy(certs, LAMBDA c : BuilderDep(c, pp.kd, pp.pd)), SumBy(props, Id)) = L0Deposit
  /\ Add(SumBy(wds, Id), SumBy(certs, LAMBDA c : HelperRef(c, pp.kd, pp.pd))) = L0Implicit
  /\ Add(SumBy(wds, Id), SumBy(certs, LAMBDA c : BuilderRef(c, pp.kd, pp.pd))) = L0Implicit
\* every kind is either deposit-bearing, refund-bearing or neutral - never both
Exclusive == \A i \in 1..Len(certs) : L0Dep(certs[i], pp.kd, pp.pd) = Zero \/ L0Ref(certs[i], pp.kd, pp.pd) = Zero
\* distinct credentials per position so that the set-typed certificate collection keeps every entry
EmitScn == Emit([t |-> "SCN", pp |-> [kd_n |-> B(pp.kd), pd_n |-> B(pp.pd)],
                 certs |-> [i \in 1..Len(certs) |-> [k |-> certs[i].k, cred |-> [t |-> 0, h |-> i], pool |-> 20 + i, coin_n |-> B(certs[i].coin)]],
                 wds |-> [i \in 1..Len(wds) |-> [cred |-> [t |-> 0, h |-> 30 + i], net |-> 0, amt_n |-> B(wds[i])]],
                 props |-> [i \in 1..Len(props) |-> [dep_n |-> B(props[i]), cred |-> [t |-> 0, h |-> 40 + i]]]])
====
