CONSTANTS
 Assets <- MCAssets
 PolicyOf <- MCPolicyOf
 MaxTx = 12
 MaxVal = 3
 Fee = 1
 Variant = "none"
INIT Init
NEXT Next
INVARIANT Partition
INVARIANT TxOk
INVARIANT Bookkeeping
INVARIANT NoSpuriousRefusal
INVARIANT EmitScn
CHECK_DEADLOCK FALSE
