---- MODULE MC_Address ----
(* Exhaustive structural lattice: all 256 header bytes x payload lengths 0..80,     *)
(* with several content fills (terminators / continuations for the pointer tail),   *)
(* plus pointer triples over limb-boundary values in minimal, non-minimal,          *)
(* overflowing and unterminated encodings. Model-level checks: Classify is total;   *)
(* ToBytes . Classify = id on canonical addresses; the variable-length natural      *)
(* codec is self-inverse.                                                           *)
EXTENDS Address, TraceLib
CONSTANT Fills
VARIABLE c
Fill(f, i, n) == CASE f = "zero" -> 0 [] f = "term" -> 127 [] f = "cont" -> 128 [] f = "ff" -> 255
                   [] f = "mix" -> (i * 37 + 11) % 256
                   [] f = "tail" -> (IF i >= n - 1 THEN (i * 13) % 128 ELSE 128 + ((i * 29) % 128))     \* continuation run ending in terminators
Nats == {Zero, One, FromSmall(127), FromSmall(128), FromSmall(16383), FromSmall(16384), Sub(Pow2(32), One), Pow2(32), Sub(Pow2(63), One), Pow2(63), U64Max}
PtrForms == {"min", "lead80", "over", "unterminated", "trailing"}
Cases == [k : {"lattice"}, h : 0..255, n : 0..80, f : Fills]
    \cup [k : {"ptr"}, h : {64, 65, 79, 80}, a : Nats, b : {Zero, U64Max, FromSmall(128)}, cc : {Zero, FromSmall(127), U64Max}, form : PtrForms]
Bytes(x) == IF x.k = "lattice" THEN IF x.n = 0 THEN <<>> ELSE <<x.h>> \o [i \in 1..(x.n - 1) |-> Fill(x.f, i, x.n - 1)]
            ELSE LET hash == [i \in 1..28 |-> (i * 5 + x.h) % 256]
                     A == VarNatEnc(x.a) Bv == VarNatEnc(x.b) C == VarNatEnc(x.cc) IN
                 CASE x.form = "min" -> <<x.h>> \o hash \o A \o Bv \o C
                   [] x.form = "lead80" -> <<x.h>> \o hash \o <<128>> \o A \o Bv \o C          \* non-minimal first natural
                   [] x.form = "over" -> <<x.h>> \o hash \o <<130, 128, 128, 128, 128, 128, 128, 128, 128, 0>> \o Bv \o C    \* 2^64 * 2: too large
                   [] x.form = "unterminated" -> <<x.h>> \o hash \o A \o Bv \o [i \in 1..Len(C) |-> 128 + (C[i] % 128)]
                   [] x.form = "trailing" -> <<x.h>> \o hash \o A \o Bv \o C \o <<0>>
Init == c \in Cases
Next == UNCHANGED c
EmitScn == Emit([t |-> "SCN", bytes |-> Bytes(c)])
Total == LET r == Classify(Bytes(c)) IN r.ok \in {"yes", "no", "byron"}
Inverse == LET r == Classify(Bytes(c)) IN (r.ok = "yes" /\ r.canonical) => ToBytes(r) = Bytes(c)
PtrForms2 == c.k = "ptr" => LET r == Classify(Bytes(c)) IN
   CASE c.form = "min" -> r.ok = "yes" /\ r.ptr = <<c.a, c.b, c.cc>> /\ r.canonical
     [] c.form = "lead80" -> r.ok = "yes" /\ r.ptr = <<c.a, c.b, c.cc>> /\ ~r.canonical
     [] c.form = "over" -> r.ok = "no" /\ r.why = "overflow"
     [] c.form = "unterminated" -> r.ok = "no" /\ r.why = "unterminated"
     [] c.form = "trailing" -> r.ok = "no" /\ r.why = "trailing"
ASSUME \A n \in Nats : LET e == VarNatEnc(n) r == VarNat(e, 1) IN r.ok /\ r.v = n /\ r.next = Len(e) + 1 /\ r.minimal
====
