INIT Init
NEXT Next
INVARIANT Inverse1
INVARIANT Inverse2
INVARIANT Inverse3
INVARIANT Domain
INVARIANT ChunkLaw
INVARIANT TreesRoundTrip
INVARIANT EmitScn
CHECK_DEADLOCK FALSE
