CONSTANTS N = 4
 Vals <- MCVals
 OutsSet <- MCOuts
 F = 0
 B = 1
INIT Init
NEXT Next
INVARIANT Sound
INVARIANT NoDoubleCount
INVARIANT Bookkeeping
INVARIANT HonestFailure
INVARIANT EmitDone
INVARIANT EmitInit
CHECK_DEADLOCK FALSE
