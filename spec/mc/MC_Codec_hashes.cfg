CONSTANTS
 Depth = 3
 Types = {"auxiliary_data", "plutus_data"}
INIT Init
NEXT Next
INVARIANT GeneratorConforms
INVARIANT EmitScn
CHECK_DEADLOCK FALSE
