---- MODULE MC_CoinSelection ----
EXTENDS CoinSelection, TraceLib
MCOuts == {<<3>>, <<2,3>>, <<3,3>>, <<1,4>>}
MCVals == {1,2,3,5}
\* one scenario line per terminated behaviour: the offered coins, the outputs, the draw script and the model's prediction
EmitDone == pc = "done" => Emit([t |-> "SCN", strat |-> "RandomImprove", mode |-> "replay", unit |-> 1000000, a |-> 0, b |-> B * 1000000,
                                 utxos |-> [i \in 1..N |-> U[i]], outs |-> outs, draws |-> [i \in 1..Len(draws) |-> draws[i][2]],
                                 ns |-> [i \in 1..Len(draws) |-> draws[i][1]],
                                 pred |-> [result |-> result, selected |-> [i \in 1..N |-> i \in selected]]])
\* scenarios for the exhaustive schedule walk on the real code: the initial states of the model
EmitInit == pc = "start" => Emit([t |-> "SCN", strat |-> "RandomImprove", mode |-> "explore", unit |-> 1000000, a |-> 44, b |-> 155381,
                                  utxos |-> [i \in 1..N |-> U[i]], outs |-> outs])
====
