---- MODULE MC_SendAll ----
(* Bounded instance of SendAll (every UTxO set of <= 3 outputs over three assets in two policies and three       *)
(* lovelace levels, under four limit classes) and scenario generator for the real create_send_all: each initial   *)
(* state is one scenario. Abstract limits map to byte limits that bite at the same places: MaxVal = 1 -> a value  *)
(* size that holds one asset entry but not two, MaxTx small -> a transaction size that holds about two inputs.    *)
EXTENDS SendAll, TraceLib, BigNat
B(n) == ToBE(n, 0)
MCAssets == {1, 2, 3}
MCPolicyOf == (1 :> 1) @@ (2 :> 1) @@ (3 :> 2)
\* lovelace levels: dust that cannot carry an asset on its own / an ordinary amount / a big one (crosses 2^32)
Lov(a) == CASE a = 1 -> FromSmall(1100000) [] a = 4 -> FromSmall(6000000) [] OTHER -> MulSmall(FromSmall(1500000000), 3)
Names == (1 :> <<65>>) @@ (2 :> <<66, 66>>) @@ (3 :> <<>>)
Kinds == <<"ent", "byron", "base">>
JAssets(S) == LET RECURSIVE F(_) F(T) == IF T = {} THEN <<>> ELSE LET a == CHOOSE x \in T : \A y \in T : x <= y IN
                    <<[p |-> <<MCPolicyOf[a]>>, n |-> Names[a], q_n |-> B(FromSmall(10 + a))]>> \o F(T \ {a}) IN F(S)
JUtxo == [i \in 1..Len(utxo) |-> [tx |-> 30 + i, ix |-> i - 1, addr |-> [kind |-> Kinds[i], k |-> i], value |-> [coin_n |-> B(Lov(utxo[i].ada)), assets |-> JAssets(utxo[i].assets)]]]
PPs == { [a |-> 44, b |-> 155381, cpb |-> 4310, maxval |-> mv, maxtx |-> mt] : mv \in {5000, 75}, mt \in {16384, 420} }
\* one scenario per initial state and limit class (the model's own limits are those of the cfg; the others are replayed only)
EmitScn == (status = "run" /\ cur = Empty /\ done = <<>>) =>
   \A pp \in PPs : Emit([t |-> "SCN", pp |-> pp, target |-> [kind |-> "ent", k |-> 15], utxo |-> JUtxo,
                          model |-> [maxtx |-> MaxTx, maxval |-> MaxVal]])
\* the outcomes the model reaches for each UTxO set (drift information for the orchestrator: number of transactions)
EmitOutcome == status \in {"ok", "err"} => Emit([t |-> "OUTCOME", utxo |-> JUtxo, status |-> status, ntx |-> Len(done), maxtx |-> MaxTx, maxval |-> MaxVal])
====
