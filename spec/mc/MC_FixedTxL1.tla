---- MODULE MC_FixedTxL1 ----
EXTENDS FixedTx
====
