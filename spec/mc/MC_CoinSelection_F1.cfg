CONSTANTS N = 4
 Vals <- MCVals
 OutsSet <- MCOuts
 F = 1
 B = 1
INIT Init
NEXT Next
INVARIANT Sound
INVARIANT NoDoubleCount
INVARIANT Bookkeeping
INVARIANT HonestFailure
CHECK_DEADLOCK FALSE
