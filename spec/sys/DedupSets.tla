---- MODULE DedupSets ----
(* C16. Set-typed collections. L0: the collection is the first-occurrence          *)
(* subsequence of everything that ever arrived (constructor list, then additions),  *)
(* and Serialize emits exactly that sequence. L1: the implementation shape - an      *)
(* element vector plus a membership index that must be updated together on every     *)
(* arrival path (add one by one, list decoded from CBOR, list read from JSON).        *)
EXTENDS Integers, Sequences, FiniteSets
CONSTANTS Elems, MaxInit, MaxAdds, Paths
VARIABLES path, arrived, vec, idx, phase
vars == <<path, arrived, vec, idx, phase>>
\* first-occurrence subsequence
RECURSIVE FirstOccC(_,_,_)
FirstOccC(s, i, acc) == IF i > Len(s) THEN acc ELSE FirstOccC(s, i + 1, IF \E j \in 1..Len(acc) : acc[j] = s[i] THEN acc ELSE Append(acc, s[i]))
FirstOcc(s) == FirstOccC(s, 1, <<>>)
Init == path \in Paths /\ arrived = <<>> /\ vec = <<>> /\ idx = {} /\ phase = "init"
\* every arrival path funnels into the same step: push iff the index does not know the element, and record it in the index
Arrive(x) == /\ arrived' = Append(arrived, x)
             /\ IF x \in idx THEN UNCHANGED <<vec, idx>> ELSE vec' = Append(vec, x) /\ idx' = idx \cup {x}
\* constructor list (decoded from CBOR / JSON; the "new" path has an empty list)
\* "cbor_decoded_adds": the list is decoded from CBOR and the elements that arrive through add() were themselves DECODED from their
\* legacy encoding (nested sets without tag 258) - the same element whatever encoding detail its value remembers
InitElem == /\ phase = "init" /\ path # "new" /\ Len(arrived) < MaxInit
            /\ \E x \in Elems : Arrive(x)
            /\ UNCHANGED <<path, phase>>
EndInit == phase = "init" /\ phase' = "adds" /\ UNCHANGED <<path, arrived, vec, idx>>
Add == /\ phase = "adds" /\ Len(arrived) < MaxInit + MaxAdds
       /\ \E x \in Elems : Arrive(x)
       /\ UNCHANGED <<path, phase>>
Next == InitElem \/ EndInit \/ Add
\* ---- L0
NoDuplicates == \A i, j \in 1..Len(vec) : i # j => vec[i] # vec[j]
FirstInsertionOrder == vec = FirstOcc(arrived)
IndexConsistent == idx = {vec[i] : i \in 1..Len(vec)}
====
