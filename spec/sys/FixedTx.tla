---- MODULE FixedTx ----
(* C04, L1: the byte-preserving witness set of a FixedTransaction as the state machine the     *)
(* code implements (protocol_types/witnesses/fixed_tx_witnesses_set.rs and the serializer in     *)
(* serialization/witnesses/transaction_witnesses_set.rs): per field a parsed, de-duplicated      *)
(* collection and a cache of the original bytes ("raw part"); adding a key / bootstrap witness   *)
(* drops the cache of exactly that field; the serializer writes the cache when there is one,     *)
(* otherwise the collection when it is not empty, and announces a map length.                    *)
(* L0 (the property): the output is a well-formed map; an untouched field is emitted exactly     *)
(* when the input had it, as the input's bytes; a touched field holds the original elements      *)
(* followed by the added ones (first occurrence only).                                           *)
(* Original bytes are abstract tokens: <<"orig", k>> stands for the bytes of field k in the      *)
(* input, whatever non-canonical encoding they use.                                              *)
(* Variant selects the implementation: "as-built", or a seeded defect, so that TLC shows the     *)
(* invariants are sensitive: "invalidate-other-cache" (add_bootstrap_witness drops the vkey      *)
(* cache), "length-from-collections" (map length counted from non-empty collections while raw    *)
(* parts are still written - the defect repaired in 55a6504), "no-dedup".                        *)
EXTENDS Integers, Sequences, FiniteSets
CONSTANTS Keys, Elems, MaxAdds, Variant
VARIABLES inp, parsed, raw, touched, added, loaded
vars == <<inp, parsed, raw, touched, added, loaded>>
\* a field: p = present, e = elements (<<>> when absent); TLC needs one shape for all values of a variable
No == [p |-> FALSE, e |-> <<>>]
Yes(s) == [p |-> TRUE, e |-> s]
PlutusKeys == {3, 6, 7} \cap Keys
Addable == {0, 2} \cap Keys
\* first occurrences, in order
RECURSIVE Dedup(_)
Dedup(s) == IF s = <<>> THEN <<>> ELSE LET r == Dedup(SubSeq(s, 1, Len(s) - 1)) x == s[Len(s)] IN IF \E i \in 1..Len(r) : r[i] = x THEN r ELSE Append(r, x)
AddNew(s, x) == IF Variant = "no-dedup" \/ ~\E i \in 1..Len(s) : s[i] = x THEN Append(s, x) ELSE s
InputShapes == {No} \cup {Yes(s) : s \in {<<>>, <<1>>, <<1, 1>>, <<1, 2>>}}
Init == /\ inp \in [Keys -> InputShapes]
        /\ parsed = [k \in Keys |-> No] /\ raw = [k \in Keys |-> FALSE] /\ touched = {} /\ added = [k \in Addable |-> <<>>] /\ loaded = FALSE
\* from_bytes: every present field is parsed (sets de-duplicate) and its bytes are kept (raw[k]: the cache of field k holds the input's bytes of field k)
Load == /\ ~loaded /\ loaded' = TRUE
        /\ parsed' = [k \in Keys |-> IF inp[k].p THEN Yes(Dedup(inp[k].e)) ELSE No]
        /\ raw' = [k \in Keys |-> inp[k].p]
        /\ UNCHANGED <<inp, touched, added>>
TotalAdded == LET RECURSIVE S(_) S(ks) == IF ks = {} THEN 0 ELSE LET k == CHOOSE x \in ks : TRUE IN Len(added[k]) + S(ks \ {k}) IN S(Addable)
Add(k, x) == /\ loaded /\ k \in Addable /\ TotalAdded < MaxAdds
             /\ parsed' = [parsed EXCEPT ![k] = Yes(AddNew(parsed[k].e, x))]
             /\ raw' = [raw EXCEPT ![IF Variant = "invalidate-other-cache" /\ k = 2 /\ 0 \in Keys THEN 0 ELSE k] = FALSE]
             /\ touched' = touched \cup {k}
             /\ added' = [added EXCEPT ![k] = Append(added[k], x)]
             /\ UNCHANGED <<inp, loaded>>
Next == Load \/ \E k \in Addable, x \in Elems : Add(k, x)
Spec == Init /\ [][Next]_vars
\* ---------------------------------------------------------------- the serializer (a function of the state)
\* the three Plutus script fields live in one collection: it "is some" when any of them was present
Some(k) == IF k \in PlutusKeys THEN \E q \in PlutusKeys : parsed[q].p ELSE parsed[k].p
NonEmpty(k) == parsed[k].p /\ parsed[k].e # <<>>
Emitted(k) == Some(k) /\ (raw[k] \/ NonEmpty(k))
Announced == IF Variant = "length-from-collections" THEN Cardinality({k \in Keys : NonEmpty(k)}) ELSE Cardinality({k \in Keys : Some(k) /\ (raw[k] \/ NonEmpty(k))})
\* what is written for field k: the input's bytes of field k, or an encoding of the collection
FieldOut(k) == IF raw[k] THEN [orig |-> TRUE, e |-> <<>>] ELSE [orig |-> FALSE, e |-> parsed[k].e]
\* ---------------------------------------------------------------- L0
WellFormed == loaded => Announced = Cardinality({k \in Keys : Emitted(k)})
UntouchedPreserved == loaded => \A k \in Keys \ touched : IF inp[k].p THEN Emitted(k) /\ FieldOut(k) = [orig |-> TRUE, e |-> <<>>] ELSE ~Emitted(k)
TouchedRight == loaded => \A k \in touched :
    LET RECURSIVE Fold(_,_) Fold(acc, i) == IF i > Len(added[k]) THEN acc ELSE Fold(IF \E j \in 1..Len(acc) : acc[j] = added[k][i] THEN acc ELSE Append(acc, added[k][i]), i + 1)
        want == Fold(Dedup(inp[k].e), 1) IN
    Emitted(k) /\ FieldOut(k) = [orig |-> FALSE, e |-> want]
====
