---- MODULE Fees ----
(* C15. The ledger's definitions of the three stand-alone fee functions, over    *)
(* BigNat. Rationals are records [n, d] of naturals (d > 0).                     *)
EXTENDS BigNat
R(n, d) == [n |-> n, d |-> d]
RAdd(x, y) == R(Add(Mul(x.n, y.d), Mul(y.n, x.d)), Mul(x.d, y.d))
RMul(x, y) == R(Mul(x.n, y.n), Mul(x.d, y.d))
RMulN(x, k) == R(Mul(x.n, k), x.d)
REq(x, y) == Mul(x.n, y.d) = Mul(y.n, x.d)
RZero == R(Zero, One)
RIsFloor(q, x) == IsFloor(q, x.n, x.d)
RIsCeil(q, x) == IsCeil(q, x.n, x.d)

\* ---- linear fee:  a * size + b
LinearFee(size, a, b) == Add(Mul(a, size), b)

\* ---- script fee: ceil(mem * pm + steps * ps)
ExUnitsCostExact(mem, steps, pm, ps) == RAdd(RMulN(pm, mem), RMulN(ps, steps))

\* ---- reference-script fee, the ledger's tierRefScriptFee:
\*   go acc price n | n < inc   = floor(acc + n * price)
\*                  | otherwise = go (acc + inc * price) (mult * price) (n - inc)
\* size is a TLC integer here (bounded grid), inc = 25600, mult = 6/5.
TierInc == 25600
Mult == R(FromSmall(6), FromSmall(5))
\* Exact rational arithmetic on a common denominator: at tier k every quantity is a
\* multiple of 1/(base.d * 5^k), so acc and price are carried as numerators over den.
RECURSIVE TierGo(_,_,_,_)
TierGo(accN, priceN, den, n) ==
   IF n < TierInc THEN R(Add(accN, Mul(priceN, FromSmall(n))), den)
   ELSE LET acc2 == MulSmall(Add(accN, Mul(priceN, FromSmall(TierInc))), 5)     \* re-based to den * 5
            price2 == MulSmall(priceN, 6)                                       \* (6/5) * price over den * 5
            den2 == MulSmall(den, 5)
        \* the IF forces the values before the recursive call (TLC passes arguments lazily)
        IN IF Len(acc2) + Len(price2) + Len(den2) >= 0 THEN TierGo(acc2, price2, den2, n - TierInc) ELSE RZero
RefScriptFeeExact(size, base) == TierGo(Zero, base.n, base.d, size)

\* What the definition allows for an arbitrary size (BigNat) without unfolding thousands of tiers:
\*  - a zero price makes every tier free;
\*  - 1.2^4 > 2, so the fee is at least (n/d) * 25600 * 1.2^(k-1) >= (n/d) * 2^(14 + (k-1) div 4): when that already
\*    reaches 2^64 the floor cannot fit (sound lower bound; d < 2^64 makes it decide every k >= 457);
\*  - otherwise the exact rational by the tier recursion.
SurelyOverflows(k, base) == k >= 1 /\ Geq(Mul(base.n, Pow2(14 + ((k-1) \div 4))), Mul(P64, base.d))
RefExpect(sizeN, base) ==
  IF base.n = Zero THEN [k |-> "val", x |-> RZero]
  ELSE LET kq == DivModSmall(sizeN, TierInc)[1] IN
       IF Lt(FromSmall(4000), kq) \/ SurelyOverflows(ToSmall(kq), base) THEN [k |-> "overflow"]
       ELSE [k |-> "val", x |-> RefScriptFeeExact(ToSmall(sizeN), base)]

\* ---- L1: the closed form the library evaluates (geometric progression sum)
\*   tier_price * (1 - m^k)/(1 - m) + base * m^k * partial,   m = 6/5
RECURSIVE PowS(_,_,_)
PowS(b, k, acc) == IF k = 0 THEN acc ELSE LET a2 == MulSmall(acc, b) IN IF Len(a2) >= 0 THEN PowS(b, k-1, a2) ELSE Zero
ClosedForm(size, base) ==
  LET k == size \div TierInc  part == size % TierInc
      p6 == PowS(6, k, One)  p5 == PowS(5, k, One)
      \* (m^k - 1)/(m - 1) = 5 * (6^k - 5^k) / 5^k
      full == Mul(Mul(base.n, FromSmall(TierInc)), MulSmall(Sub(p6, p5), 5))
      last == Mul(Mul(base.n, p6), FromSmall(part))
  IN R(Add(full, last), Mul(base.d, p5))
====
