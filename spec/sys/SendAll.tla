---- MODULE SendAll ----
(* L1 of the send-all batch builder (tx_batch_builder.rs + batch_tools/asset_categorizer.rs), one action per    *)
(* step of TxBatchBuilder::build:                                                                                *)
(*   AppendAsset  = try_append_next_asset_utxos -> make_candidate -> prototype_append (+ try_append_pure_ada_utxo *)
(*                  when the proposal lacks lovelace),                                                            *)
(*   AppendAda    = try_append_pure_ada_utxo when no asset-carrying UTxO is left,                                 *)
(*   CloseTx      = the inner `while let Some(..)` loop ends: the proposal becomes a transaction,                 *)
(*   GiveUp       = "Unable to build transaction batch" / "utxo value is too big".                               *)
(* Sizes are abstract: a transaction "weighs" one unit per input and one per asset entry in its outputs          *)
(* (MaxTx), an output value holds at most MaxVal asset entries, an output with n asset entries needs             *)
(* MinAda(n) lovelace units, a transaction pays Fee units. The categorizer keeps its free UTxOs in HashSets,      *)
(* so WHICH candidate is tried first is not determined: the model takes every order (TLC explores them all).     *)
(* L0 (the property C13 at this level of abstraction) is the invariant Partition /\ TxOk on every state with     *)
(* status = "ok".                                                                                                *)
EXTENDS Integers, Sequences, FiniteSets
CONSTANTS Assets,        \* asset ids
          PolicyOf,      \* asset id -> policy id
          MaxTx, MaxVal, Fee,
          Variant        \* "none", or the name of a seeded slip (sensitivity control: each must violate an invariant)
VARIABLES utxo,          \* the supplied UTxO set: id -> [ada, assets]   (chosen in Init, constant afterwards)
          freeA, freeP,  \* asset-carrying / pure-lovelace UTxOs not yet placed
          cur,           \* the open proposal: [ins |-> set of ids, outs |-> sequence of asset sets]
          done,          \* closed proposals
          status         \* "run" | "ok" | "err"
vars == <<utxo, freeA, freeP, cur, done, status>>
MinAda(n) == 1 + n
Empty == [ins |-> {}, outs |-> <<>>]
RECURSIVE SumAda(_)
SumAda(S) == IF S = {} THEN 0 ELSE LET x == CHOOSE y \in S : TRUE IN utxo[x].ada + SumAda(S \ {x})
RECURSIVE SumSeq(_)
SumSeq(s) == IF s = <<>> THEN 0 ELSE Head(s) + SumSeq(Tail(s))
UsedAssets(p) == UNION {p.outs[i] : i \in 1..Len(p.outs)}
Weight(p) == Cardinality(p.ins) + SumSeq([i \in 1..Len(p.outs) |-> Cardinality(p.outs[i])]) + Len(p.outs)
NeedAda(p) == SumSeq([i \in 1..Len(p.outs) |-> MinAda(Cardinality(p.outs[i]))]) + Fee
HaveAda(p) == SumAda(p.ins)
\* prototype_append: the assets of u that the proposal does not hold yet go to the last output while they fit,
\* the rest opens further outputs (add_assets_to_proposal_output); assets already held stay where they are
RECURSIVE Place(_, _)
Place(outs, S) ==
  IF S = {} THEN outs
  ELSE IF outs # <<>> /\ Cardinality(outs[Len(outs)]) < MaxVal
       THEN LET a == CHOOSE x \in S : TRUE IN Place([outs EXCEPT ![Len(outs)] = @ \cup {a}], S \ {a})
       ELSE LET a == CHOOSE x \in S : TRUE IN Place(Append(outs, {a}), S \ {a})
WithUtxo(p, u) ==
  LET new == IF Variant = "asset-placed-again" THEN utxo[u].assets \ (IF p.outs = <<>> THEN {} ELSE p.outs[Len(p.outs)]) ELSE utxo[u].assets \ UsedAssets(p)
      outs0 == IF p.outs = <<>> THEN <<{}>> ELSE p.outs IN
  [ins |-> p.ins \cup {u}, outs |-> Place(outs0, new)]
\* try_append_pure_ada_utxo on a proposal that lacks lovelace: the free pure UTxOs are taken until the need is met
\* (get_next_pure_ada_utxo_by_amount); any subset that is just enough is a possible outcome of the real selection
Topped(p) ==
  IF HaveAda(p) >= NeedAda(p) THEN {p}
  ELSE {[p EXCEPT !.ins = @ \cup T] : T \in {X \in SUBSET (freeP \ p.ins) : X # {} /\ SumAda(p.ins \cup X) >= NeedAda(p)
                                                  /\ \A y \in X : SumAda(p.ins \cup (X \ {y})) < NeedAda(p)}}
\* candidate order of try_append_next_asset_utxos: an asset the proposal already holds, else an asset of a policy it
\* already holds, else any asset still free
Cand1 == {u \in freeA : utxo[u].assets \cap UsedAssets(cur) # {}}
Cand2 == {u \in freeA : \E a \in utxo[u].assets, b \in UsedAssets(cur) : PolicyOf[a] = PolicyOf[b]}
Fits(p) == IF Variant = "size-before-topup" THEN Cardinality(p.ins \ freeP) + Weight([p EXCEPT !.ins = {}]) <= MaxTx ELSE Weight(p) <= MaxTx
Results(u) == {q \in Topped(WithUtxo(cur, u)) : Fits(q)}
Appendable(S) == {u \in S : Fits(WithUtxo(cur, u)) /\ Results(u) # {}}
Tier == IF Appendable(Cand1) # {} THEN Appendable(Cand1) ELSE IF Appendable(Cand2) # {} THEN Appendable(Cand2) ELSE Appendable(freeA)

Init == /\ utxo \in UNION {[1..n -> [ada : {1, 4, 40}, assets : SUBSET Assets]] : n \in 1..3}
        /\ freeA = {u \in DOMAIN utxo : utxo[u].assets # {}} /\ freeP = {u \in DOMAIN utxo : utxo[u].assets = {}}
        /\ cur = Empty /\ done = <<>> /\ status = "run"
AppendAsset ==
  /\ status = "run" /\ freeA # {} /\ Tier # {}
  /\ \E u \in Tier : \E q \in Results(u) :
        /\ cur' = q /\ freeA' = freeA \ {u}
        \* (the pure UTxOs taken along for their lovelace leave the free list too: remove_pure_ada_utxo)
        /\ freeP' = IF Variant = "topup-stays-free" THEN freeP ELSE freeP \ q.ins
  /\ UNCHANGED <<utxo, done, status>>
AppendAda ==
  /\ status = "run" /\ freeA = {} /\ freeP # {}
  /\ \E u \in freeP : LET q0 == [ins |-> cur.ins \cup {u}, outs |-> IF cur.outs = <<>> THEN <<{}>> ELSE cur.outs] IN
        \E q \in Topped(q0) : Fits(q) /\ cur' = q /\ freeP' = freeP \ q.ins
  /\ UNCHANGED <<utxo, freeA, done, status>>
CanAppend == (freeA # {} /\ Tier # {}) \/ (freeA = {} /\ \E u \in freeP : \E q \in Topped([ins |-> cur.ins \cup {u}, outs |-> IF cur.outs = <<>> THEN <<{}>> ELSE cur.outs]) : Fits(q))
CloseTx ==
  /\ status = "run" /\ ~CanAppend /\ cur # Empty
  /\ done' = Append(done, cur) /\ cur' = Empty
  /\ status' = IF freeA = {} /\ freeP = {} THEN "ok" ELSE "run"
  /\ UNCHANGED <<utxo, freeA, freeP>>
GiveUp ==
  /\ status = "run" /\ ~CanAppend /\ cur = Empty
  /\ status' = IF freeA = {} /\ freeP = {} THEN "ok" ELSE "err"
  /\ UNCHANGED <<utxo, freeA, freeP, cur, done>>
Next == AppendAsset \/ AppendAda \/ CloseTx \/ GiveUp
Spec == Init /\ [][Next]_vars
\* ---- L0: what a successful batch is
Partition == status = "ok" =>
   /\ UNION {done[i].ins : i \in 1..Len(done)} = DOMAIN utxo
   /\ \A i, j \in 1..Len(done) : i # j => done[i].ins \cap done[j].ins = {}
TxOk == \A i \in 1..Len(done) : LET p == done[i] IN
   /\ p.ins # {}
   /\ Weight(p) <= MaxTx
   /\ \A k \in 1..Len(p.outs) : Cardinality(p.outs[k]) <= MaxVal
   \* every asset of the inputs is paid out, in exactly one output, and nothing else is
   /\ UsedAssets(p) = UNION {utxo[u].assets : u \in p.ins}
   /\ \A k, m \in 1..Len(p.outs) : k # m => p.outs[k] \cap p.outs[m] = {}
   \* the lovelace of the inputs covers every output's minimum and the fee (the remainder goes to the last output)
   /\ HaveAda(p) >= NeedAda(p)
\* bookkeeping of the categorizer: a UTxO is free, or in the open proposal, or in a closed one - never two of these
Bookkeeping ==
   LET placed == cur.ins \cup UNION {done[i].ins : i \in 1..Len(done)} IN
   /\ (freeA \cup freeP) \cap placed = {}
   /\ (freeA \cup freeP) \cup placed = DOMAIN utxo
\* a refusal is never issued while everything could still be placed one UTxO per transaction (design-level observation,
\* checked as a property of the model only; the statement of C13 speaks about successful batches)
NoSpuriousRefusal == status = "err" => \E u \in freeA \cup freeP :
   {q \in Topped(WithUtxo(Empty, u)) : Fits(q)} = {}
====
