---- MODULE CoinSelection ----
(* C08. L1: the random-improve strategy for lovelace at the grain of              *)
(* tx_builder.rs (cip2_random_improve_by + phase 3 of add_inputs_from), one action *)
(* per critical section; every gen_range(0..n) is a nondeterministic choice and is *)
(* recorded in the history variable `draws`. Abstract amounts are small integers;  *)
(* F is the fee added to the target per committed input, B the fee of the          *)
(* transaction before selection. L0 is the invariant Sound.                        *)
(* The model follows the code AFTER the two repairs made in this project:          *)
(*  - after an improvement swap the new index leaves `available` and the old one   *)
(*    returns to it (the two set operations were inverted);                        *)
(*  - inputs are associated with output POSITIONS, not output contents (two equal  *)
(*    outputs shared one list and every input in it was committed twice).          *)
EXTENDS Integers, Sequences, FiniteSets, TLC
CONSTANTS N,        \* number of offered UTxOs
          Vals,     \* set of possible coin values
          OutsSet,  \* set of possible output sequences (ascending, as the code sorts them)
          F, B
VARIABLES U, outs, pc, relevant, available, assoc, inTot, outTot, oi, added, availCoins,
          po, pa, selected, result, draws
vars == <<U, outs, pc, relevant, available, assoc, inTot, outTot, oi, added, availCoins, po, pa, selected, result, draws>>
Sum(f, S) == LET RECURSIVE G(_) G(T) == IF T = {} THEN 0 ELSE LET x == CHOOSE y \in T : TRUE IN f[x] + G(T \ {x}) IN G(S)
SumSeq(s) == LET RECURSIVE G(_) G(i) == IF i > Len(s) THEN 0 ELSE s[i] + G(i+1) IN G(1)
Abs(x) == IF x < 0 THEN -x ELSE x
\* Vec::swap_remove(k) (1-based k): element k replaced by the last, last dropped
SwapRemove(s, k) == IF k = Len(s) THEN SubSeq(s, 1, Len(s)-1) ELSE [SubSeq(s, 1, Len(s)-1) EXCEPT ![k] = s[Len(s)]]
\* the k-th smallest element of a set of integers (BTreeSet::iter().nth(k-1))
Nth(S, k) == CHOOSE x \in S : Cardinality({y \in S : y < x}) = k - 1
Init ==
  /\ U \in [1..N -> Vals]
  /\ outs \in OutsSet
  /\ pc = "start" /\ relevant = [i \in 1..N |-> i] /\ available = 1..N
  /\ assoc = [k \in 1..Len(outs) |-> <<>>]
  /\ inTot = 0 /\ outTot = 0 /\ oi = 0 /\ added = 0 /\ availCoins = 0 /\ po = 0 /\ pa = 0
  /\ selected = {} /\ result = "none" /\ draws = <<>>
Start == /\ pc = "start"
         /\ outTot' = SumSeq(outs) + B
         /\ oi' = Len(outs) /\ added' = 0 /\ availCoins' = 0
         /\ pc' = "p1_out"
         /\ UNCHANGED <<U, outs, relevant, available, assoc, inTot, po, pa, selected, result, draws>>
\* phase 1: outputs in descending order of amount
P1Out == /\ pc = "p1_out"
         /\ IF oi = 0 THEN /\ pc' = (IF relevant # <<>> THEN "p2" ELSE "commit") /\ po' = 1 /\ pa' = 1 /\ UNCHANGED <<added, oi>>
            ELSE /\ added' = availCoins /\ pc' = "p1_pick" /\ UNCHANGED <<po, pa, oi>>
         /\ UNCHANGED <<U, outs, relevant, available, assoc, inTot, outTot, availCoins, selected, result, draws>>
P1Pick == /\ pc = "p1_pick"
          /\ IF added >= outs[oi]
             THEN /\ availCoins' = added - outs[oi] /\ oi' = oi - 1 /\ pc' = "p1_out"
                  /\ UNCHANGED <<relevant, available, assoc, added, result, draws>>
             ELSE IF relevant = <<>> THEN /\ result' = "insufficient" /\ pc' = "done" /\ UNCHANGED <<relevant, available, assoc, added, availCoins, oi, draws>>
             ELSE \E k \in 1..Len(relevant) :
                    LET i == relevant[k] IN
                    /\ draws' = Append(draws, <<Len(relevant), k-1>>)
                    /\ relevant' = SwapRemove(relevant, k)
                    /\ available' = available \ {i}
                    /\ added' = added + U[i]
                    /\ assoc' = [assoc EXCEPT ![oi] = Append(@, i)]
                    /\ UNCHANGED <<availCoins, oi, pc, result>>
          /\ UNCHANGED <<U, outs, inTot, outTot, po, pa, selected>>
\* phase 2: outputs ascending; for each associated index one random candidate
P2 == /\ pc = "p2"
      /\ IF po > Len(outs) THEN /\ pc' = "commit" /\ po' = 1 /\ pa' = 1 /\ UNCHANGED <<relevant, available, assoc, draws>>
         ELSE IF pa > Len(assoc[po]) THEN /\ po' = po + 1 /\ pa' = 1 /\ UNCHANGED <<pc, relevant, available, assoc, draws>>
         ELSE \E k \in 1..Len(relevant) :
              LET i == assoc[po][pa] j == relevant[k]
                  ideal == 2 * outs[po]  mx == 3 * outs[po]
                  closer == Abs(ideal - U[j]) < Abs(ideal - U[i])
              IN /\ draws' = Append(draws, <<Len(relevant), k-1>>)
                 /\ IF closer /\ U[j] < mx
                    THEN /\ assoc' = [assoc EXCEPT ![po][pa] = j]
                         /\ relevant' = [relevant EXCEPT ![k] = i]
                         /\ available' = (available \ {j}) \cup {i}
                         /\ pa' = pa + 1 /\ UNCHANGED <<po, pc>>
                    ELSE /\ pa' = pa + 1 /\ UNCHANGED <<po, pc, assoc, relevant, available>>
      /\ UNCHANGED <<U, outs, inTot, outTot, oi, added, availCoins, selected, result>>
\* commit: every associated input goes into the builder; its fee is added to the target
Commit == /\ pc = "commit"
          /\ IF po > Len(outs) THEN /\ pc' = "p3" /\ UNCHANGED <<po, pa, inTot, outTot, selected>>
             ELSE IF pa > Len(assoc[po]) THEN /\ po' = po + 1 /\ pa' = 1 /\ UNCHANGED <<pc, inTot, outTot, selected>>
             ELSE LET i == assoc[po][pa] IN
                    /\ inTot' = inTot + U[i]
                    /\ outTot' = outTot + F
                    /\ selected' = selected \cup {i}
                    /\ pa' = pa + 1 /\ UNCHANGED <<po, pc>>
          /\ UNCHANGED <<U, outs, relevant, available, assoc, oi, added, availCoins, result, draws>>
\* phase 3: top up for fees from what is still available
P3 == /\ pc = "p3"
      /\ IF inTot >= outTot THEN /\ result' = "ok" /\ pc' = "done" /\ UNCHANGED <<available, inTot, outTot, selected, draws>>
         ELSE IF available = {} THEN /\ result' = "insufficient" /\ pc' = "done" /\ UNCHANGED <<available, inTot, outTot, selected, draws>>
         ELSE \E k \in 1..Cardinality(available) :
                LET i == Nth(available, k) IN
                /\ draws' = Append(draws, <<Cardinality(available), k-1>>)
                /\ available' = available \ {i}
                /\ inTot' = inTot + U[i]
                /\ outTot' = outTot + F
                /\ selected' = selected \cup {i}
                /\ UNCHANGED <<result, pc>>
      /\ UNCHANGED <<U, outs, relevant, assoc, oi, added, availCoins, po, pa>>
Next == Start \/ P1Out \/ P1Pick \/ P2 \/ Commit \/ P3
\* ---- L0 -----------------------------------------------------------------------
\* success => the inputs really in the builder cover outputs + fee (B + F per real input)
Sound == result = "ok" => Sum(U, selected) >= SumSeq(outs) + B + F * Cardinality(selected)
\* the running total is the real total: no input is counted twice (this is what the two defects broke)
NoDoubleCount == pc \in {"p3", "done"} => inTot = Sum(U, selected)
\* the bookkeeping sets stay consistent: an index is available iff it is neither associated nor committed
AssocSet == UNION {{assoc[o][k] : k \in 1..Len(assoc[o])} : o \in 1..Len(outs)}
Bookkeeping == pc \in {"p1_out", "p1_pick", "p2", "commit"} => available = (1..N) \ AssocSet
\* failure is honest when no fee is charged per input: everything offered together is not enough
HonestFailure == result = "insufficient" /\ F = 0 /\ pc = "done" /\ selected # {} => Sum(U, 1..N) < SumSeq(outs) + B
====
