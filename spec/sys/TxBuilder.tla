---- MODULE TxBuilder ----
(* L1 of the builder's value accounting (tx_builder.rs get_total_input /           *)
(* get_total_output / add_change_if_needed, pure-lovelace and one-asset view), one *)
(* action per public call. Amounts are small integers ("units"); the minimum fee    *)
(* is an uninterpreted constant FeeOf and the minimum ADA of a change output MinAda.*)
(* L0 is the invariant Balanced on every built state after a successful balancing:  *)
(*   inputs + withdrawals + refunds + mint = outputs + fee + deposits + burn +       *)
(*   donation, for lovelace and for the asset.                                       *)
EXTENDS Integers, Sequences, FiniteSets
CONSTANTS OpsPool,      \* set of operation records that may be issued (each at most once)
          MaxOps, FeeOf, MinAda
VARIABLES issued,       \* the calls made so far, in order (operation records, plus the markers AddChange / Build)
          pending,      \* operations still to be issued
          st,           \* the builder's accounting state
          feeReq,       \* fee request: <<"none">> | <<"exact", f>> | <<"atleast", f>>  (set_fee / set_min_fee)
          phase         \* "ops" | "balanced" | "failed" | "stale" (balancing succeeded, further calls followed) | "built" | "refused"
vars == <<issued, pending, st, feeReq, phase>>
\* st: the builder's accounting state. Certificates and the mint are HELD AS A WHOLE by the builder: set_certs_builder /
\* set_mint_builder replace what was there (Deposit / Refund and Mint / Burn below), while the older entry point
\* add_mint_asset_and_output works on the mint the builder holds and adds an output carrying the minted quantity (MintOut).
\* mint is the signed net quantity of the one asset.
Zero0 == [inC |-> 0, inA |-> 0, outC |-> 0, outA |-> 0, dep |-> 0, ref |-> 0, wd |-> 0, mint |-> 0, don |-> 0,
          fee |-> -1, chC |-> 0, chA |-> 0, burnt |-> 0]
Init == /\ issued = <<>> /\ pending \in {S \in SUBSET OpsPool : Cardinality(S) <= MaxOps /\ \E o \in S : o.op = "AddInput"} /\ st = Zero0 /\ feeReq = <<"none">> /\ phase = "ops"
Apply(s, o) ==
  CASE o.op = "AddInput"  -> [s EXCEPT !.inC = @ + o.c, !.inA = @ + o.a]
    [] o.op = "AddOutput" -> [s EXCEPT !.outC = @ + o.c, !.outA = @ + o.a]
    [] o.op = "Deposit"   -> [s EXCEPT !.dep = o.c, !.ref = 0]
    [] o.op = "Refund"    -> [s EXCEPT !.ref = o.c, !.dep = 0]
    [] o.op = "Withdraw"  -> [s EXCEPT !.wd = o.c]
    [] o.op = "Mint"      -> [s EXCEPT !.mint = o.a]
    [] o.op = "Burn"      -> [s EXCEPT !.mint = 0 - o.a]
    [] o.op = "MintOut"   -> [s EXCEPT !.mint = @ + o.a, !.outC = @ + o.c, !.outA = @ + o.a]
    [] o.op = "Donate"    -> [s EXCEPT !.don = o.c]
    [] OTHER -> s
\* operations that write the same held part do not commute
Part(o) == CASE o.op \in {"Deposit", "Refund"} -> "certs" [] o.op \in {"Mint", "Burn", "MintOut"} -> "mint" [] OTHER -> "none"
Commuting(S) == \A x, y \in S : x # y /\ Part(x) = Part(y) => Part(x) = "none"
\* a call on the builder; after a successful balancing every further call makes the report stale (phase "stale").
\* set_fee / set_min_fee only record a REQUEST; a fee that add_change_if_needed has already finalised is not touched by a later request.
IsReq(o) == o.op \in {"SetFee", "SetMinFee"}
Issue == /\ phase \in {"ops", "balanced", "stale", "failed"} /\ pending # {}
         /\ \E o \in pending :
               /\ issued' = Append(issued, o) /\ pending' = pending \ {o}
               /\ st' = IF IsReq(o) THEN st ELSE Apply(st, o)
               /\ feeReq' = IF o.op = "SetFee" THEN <<"exact", o.c>> ELSE IF o.op = "SetMinFee" THEN <<"atleast", o.c>> ELSE feeReq
         /\ phase' = IF phase \in {"balanced", "stale"} THEN "stale" ELSE phase
TotalInC(s) == s.inC + s.wd + s.ref
TotalOutC(s) == s.outC + s.dep + s.don
TotalInA(s) == s.inA + (IF s.mint > 0 THEN s.mint ELSE 0)
TotalOutA(s) == s.outA + (IF s.mint < 0 THEN 0 - s.mint ELSE 0)
\* the fee a request turns a computed minimum m into (TxBuilderFee::get_new_fee / set_final_fee)
Wanted(m) == IF feeReq[1] = "exact" THEN feeReq[2] ELSE IF feeReq[1] = "atleast" /\ feeReq[2] > m THEN feeReq[2] ELSE m
\* add_change_if_needed, callable once (a finalised fee makes the next call fail: "Cannot calculate change if fee was explicitly
\* specified"): change = total input - total output - fee; asset change needs MinAda; a leftover too small for a change output
\* is folded into the fee - unless an exact fee was requested and the leftover exceeds it
Balance == /\ phase \in {"ops", "failed"} /\ st.fee = -1 /\ \E i \in 1..Len(issued) : issued[i].op = "AddInput"
           /\ issued[Len(issued)].op # "AddChange"          \* (a failed call repeated at once fails again: not a new behaviour)
           /\ LET cC == TotalInC(st) - TotalOutC(st) cA == TotalInA(st) - TotalOutA(st) f0 == Wanted(FeeOf) IN
              IF cC < f0 \/ cA < 0 THEN phase' = "failed" /\ UNCHANGED st
              ELSE IF cA > 0 THEN (IF cC - f0 < MinAda THEN phase' = "failed" /\ UNCHANGED st
                                   ELSE phase' = "balanced" /\ st' = [st EXCEPT !.fee = f0, !.chC = cC - f0, !.chA = cA])
              ELSE IF cC - f0 >= MinAda THEN phase' = "balanced" /\ st' = [st EXCEPT !.fee = f0, !.chC = cC - f0]
              ELSE IF feeReq[1] = "exact" /\ cC > feeReq[2] THEN phase' = "failed" /\ UNCHANGED st
              ELSE phase' = "balanced" /\ st' = [st EXCEPT !.fee = IF feeReq[1] = "exact" THEN feeReq[2] ELSE cC, !.burnt = cC - f0]       \* leftover folded into the fee
           /\ issued' = Append(issued, [op |-> "AddChange", c |-> 0, a |-> 0])
           /\ UNCHANGED <<pending, feeReq>>
\* build_tx: validate_fee (the fee in force is at least the minimum) and validate_balance (the ledger equation on the builder's own
\* totals, change outputs included), then the transaction
FeeInForce == IF st.fee # -1 THEN st.fee ELSE IF feeReq[1] = "none" THEN -1 ELSE feeReq[2]
Equation(f) == /\ TotalInC(st) = TotalOutC(st) + st.chC + f
               /\ TotalInA(st) = TotalOutA(st) + st.chA
Build == /\ phase \in {"ops", "balanced", "stale", "failed"} /\ issued # <<>>
         /\ phase' = IF FeeInForce >= FeeOf /\ Equation(FeeInForce) THEN "built" ELSE "refused"
         /\ issued' = Append(issued, [op |-> "Build", c |-> 0, a |-> 0])
         /\ UNCHANGED <<pending, st, feeReq>>
Next == Issue \/ Balance \/ Build
\* ---- L0
Balanced == phase = "balanced" =>
   /\ Equation(st.fee)
   \* (a fee the caller fixed below the minimum is taken as it is by the balancing call; it is the validating build that refuses it)
   /\ (feeReq[1] # "exact" => st.fee >= FeeOf)
   /\ (st.chC > 0 => st.chC >= MinAda)
   \* a requested minimum is a lower bound, a fixed fee is used exactly (requests made before the balancing call)
   /\ (feeReq[1] = "atleast" => st.fee >= feeReq[2])
   /\ (feeReq[1] = "exact" => st.fee = feeReq[2])
\* whatever a validating build produces - straight after balancing, after further calls, or without any balancing call when the
\* caller fixed the fee and the outputs himself - satisfies the equation with a sufficient fee
BuiltOk == phase = "built" => FeeInForce >= FeeOf /\ Equation(FeeInForce)
\* a build straight after a successful balancing never refuses
BalancedBuilds == ~(phase = "refused" /\ Len(issued) >= 2 /\ issued[Len(issued) - 1].op = "AddChange" /\ st.fee # -1 /\ ~(feeReq[1] = "exact" /\ feeReq[2] < FeeOf))
\* the order of issuing the operations does not matter for the accounting - as long as no two of them write the same held part
OrderIrrelevant == phase = "ops" /\ pending = {} /\ Commuting({issued[i] : i \in 1..Len(issued)}) =>
   st = LET Vals == {issued[i] : i \in 1..Len(issued)} \ {o \in {issued[i] : i \in 1..Len(issued)} : IsReq(o)}
            RECURSIVE F(_,_) F(S, s) == IF S = {} THEN s ELSE LET o == CHOOSE x \in S : TRUE IN F(S \ {o}, Apply(s, o)) IN F(Vals, Zero0)
\* ... and where they do, the last writer wins (what the replaced call contributed is gone, not added)
LastWriterWins == phase = "ops" /\ pending = {} =>
   /\ (\E i \in 1..Len(issued) : issued[i].op \in {"Deposit", "Refund"}) =>
        LET j == CHOOSE i \in 1..Len(issued) : issued[i].op \in {"Deposit", "Refund"} /\ \A k \in (i+1)..Len(issued) : issued[k].op \notin {"Deposit", "Refund"} IN
        st.dep + st.ref = issued[j].c
====
