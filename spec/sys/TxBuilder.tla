---- MODULE TxBuilder ----
(* L1 of the builder's value accounting (tx_builder.rs get_total_input /           *)
(* get_total_output / add_change_if_needed, pure-lovelace and one-asset view), one *)
(* action per public call. Amounts are small integers ("units"); the minimum fee    *)
(* is an uninterpreted constant FeeOf and the minimum ADA of a change output MinAda.*)
(* L0 is the invariant Balanced on every built state after a successful balancing:  *)
(*   inputs + withdrawals + refunds + mint = outputs + fee + deposits + burn +       *)
(*   donation, for lovelace and for the asset.                                       *)
EXTENDS Integers, Sequences, FiniteSets
CONSTANTS OpsPool,      \* set of operation records that may be issued (each at most once)
          MaxOps, FeeOf, MinAda
VARIABLES issued, pending, st, phase
vars == <<issued, pending, st, phase>>
\* st: the builder's accounting state. Certificates and the mint are HELD AS A WHOLE by the builder: set_certs_builder /
\* set_mint_builder replace what was there (Deposit / Refund and Mint / Burn below), while the older entry point
\* add_mint_asset_and_output works on the mint the builder holds and adds an output carrying the minted quantity (MintOut).
\* mint is the signed net quantity of the one asset.
Zero0 == [inC |-> 0, inA |-> 0, outC |-> 0, outA |-> 0, dep |-> 0, ref |-> 0, wd |-> 0, mint |-> 0, don |-> 0,
          fee |-> -1, chC |-> 0, chA |-> 0, burnt |-> 0]
Init == /\ issued = <<>> /\ pending \in {S \in SUBSET OpsPool : Cardinality(S) <= MaxOps /\ \E o \in S : o.op = "AddInput"} /\ st = Zero0 /\ phase = "ops"
Apply(s, o) ==
  CASE o.op = "AddInput"  -> [s EXCEPT !.inC = @ + o.c, !.inA = @ + o.a]
    [] o.op = "AddOutput" -> [s EXCEPT !.outC = @ + o.c, !.outA = @ + o.a]
    [] o.op = "Deposit"   -> [s EXCEPT !.dep = o.c, !.ref = 0]
    [] o.op = "Refund"    -> [s EXCEPT !.ref = o.c, !.dep = 0]
    [] o.op = "Withdraw"  -> [s EXCEPT !.wd = o.c]
    [] o.op = "Mint"      -> [s EXCEPT !.mint = o.a]
    [] o.op = "Burn"      -> [s EXCEPT !.mint = 0 - o.a]
    [] o.op = "MintOut"   -> [s EXCEPT !.mint = @ + o.a, !.outC = @ + o.c, !.outA = @ + o.a]
    [] o.op = "Donate"    -> [s EXCEPT !.don = o.c]
    [] OTHER -> s
\* operations that write the same held part do not commute
Part(o) == CASE o.op \in {"Deposit", "Refund"} -> "certs" [] o.op \in {"Mint", "Burn", "MintOut"} -> "mint" [] OTHER -> "none"
Commuting(S) == \A x, y \in S : x # y /\ Part(x) = Part(y) => Part(x) = "none"
Issue == /\ phase = "ops" /\ pending # {}
         /\ \E o \in pending : issued' = Append(issued, o) /\ pending' = pending \ {o} /\ st' = Apply(st, o)
         /\ UNCHANGED phase
TotalInC(s) == s.inC + s.wd + s.ref
TotalOutC(s) == s.outC + s.dep + s.don
TotalInA(s) == s.inA + (IF s.mint > 0 THEN s.mint ELSE 0)
TotalOutA(s) == s.outA + (IF s.mint < 0 THEN 0 - s.mint ELSE 0)
\* add_change_if_needed: change = total input - total output - fee; asset change needs MinAda; small leftovers are burnt into the fee
Balance == /\ phase = "ops" /\ pending = {}
           /\ LET cC == TotalInC(st) - TotalOutC(st) cA == TotalInA(st) - TotalOutA(st) IN
              IF cC < FeeOf \/ cA < 0 THEN phase' = "failed" /\ UNCHANGED st
              ELSE IF cA > 0 THEN (IF cC - FeeOf < MinAda THEN phase' = "failed" /\ UNCHANGED st
                                   ELSE phase' = "balanced" /\ st' = [st EXCEPT !.fee = FeeOf, !.chC = cC - FeeOf, !.chA = cA])
              ELSE IF cC - FeeOf >= MinAda THEN phase' = "balanced" /\ st' = [st EXCEPT !.fee = FeeOf, !.chC = cC - FeeOf]
              ELSE phase' = "balanced" /\ st' = [st EXCEPT !.fee = cC, !.burnt = cC - FeeOf]       \* leftover folded into the fee
           /\ UNCHANGED <<issued, pending>>
Next == Issue \/ Balance
\* ---- L0
Balanced == phase = "balanced" =>
   /\ TotalInC(st) = TotalOutC(st) + st.chC + st.fee
   /\ TotalInA(st) = TotalOutA(st) + st.chA
   /\ st.fee >= FeeOf
   /\ (st.chC > 0 => st.chC >= MinAda)
\* the order of issuing the operations does not matter for the accounting - as long as no two of them write the same held part
OrderIrrelevant == phase = "ops" /\ pending = {} /\ Commuting({issued[i] : i \in 1..Len(issued)}) =>
   st = LET RECURSIVE F(_,_) F(S, s) == IF S = {} THEN s ELSE LET o == CHOOSE x \in S : TRUE IN F(S \ {o}, Apply(s, o)) IN F({issued[i] : i \in 1..Len(issued)}, Zero0)
\* ... and where they do, the last writer wins (what the replaced call contributed is gone, not added)
LastWriterWins == phase = "ops" /\ pending = {} =>
   /\ (\E i \in 1..Len(issued) : issued[i].op \in {"Deposit", "Refund"}) =>
        LET j == CHOOSE i \in 1..Len(issued) : issued[i].op \in {"Deposit", "Refund"} /\ \A k \in (i+1)..Len(issued) : issued[k].op \notin {"Deposit", "Refund"} IN
        st.dep + st.ref = issued[j].c
====
