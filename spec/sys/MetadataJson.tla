---- MODULE MetadataJson ----
(* C17, schema part. The three metadata <-> JSON schemas, the two Plutus datum <-> JSON      *)
(* schemas and the chunked-bytes helpers as total functions over abstract trees. Strings are  *)
(* byte sequences (UTF-8), so "looks like hex", "looks like a number", "at most 64 bytes",     *)
(* "valid UTF-8 without control characters" are decidable in the specification. Integers are  *)
(* BigNat signed values, number literals are kept as their text.                              *)
(*   MdEnc(sch, js) / MdDec(sch, md)      sch \in {"no", "basic", "detailed"}                  *)
(*   PlEnc(sch, js) / PlDec(sch, pd)      sch \in {"basic", "detailed"}                        *)
(*   Chunk(bytes) / Unchunk(md)                                                               *)
(* Every function returns a tree or E(reason). InSchema / NormalForm are written separately    *)
(* from the conversions; MC_MetadataJson checks with TLC that they agree and that the          *)
(* conversions are mutually inverse where the property says so.                               *)
EXTENDS Integers, Sequences, FiniteSets, BigNat
E(why) == [err |-> why]
IsE(x) == "err" \in DOMAIN x
\* ---------------------------------------------------------------- trees
JNull == [j |-> "null"]
JBool(b) == [j |-> "bool", b |-> b]
JNum(lit) == [j |-> "num", lit |-> lit]          \* the literal, ASCII
JStr(s) == [j |-> "str", s |-> s]
JArr(xs) == [j |-> "arr", xs |-> xs]
JObj(kvs) == [j |-> "obj", kvs |-> kvs]          \* <<key bytes, value>>, keys strictly ascending bytewise (serde_json's BTreeMap)
MInt(v) == [m |-> "int", v |-> v]                \* v: BigNat signed [neg, mag]
MBytes(s) == [m |-> "bytes", s |-> s]
MText(s) == [m |-> "text", s |-> s]
MList(xs) == [m |-> "list", xs |-> xs]
MMap(kvs) == [m |-> "map", kvs |-> kvs]          \* <<key, value>> in insertion order, keys distinct
PInt(v) == [p |-> "int", v |-> v]
PBytes(s) == [p |-> "bytes", s |-> s]
PList(xs) == [p |-> "list", xs |-> xs]
PMap(kvs) == [p |-> "map", kvs |-> kvs]          \* <<key, value>> in serialization order: values of one key adjacent, keys in first-insertion order
PConstr(alt, xs) == [p |-> "constr", alt |-> alt, xs |-> xs]      \* alt: BigNat
\* ---------------------------------------------------------------- strings
IsDigit(c) == c >= 48 /\ c <= 57
IsHexDigit(c) == IsDigit(c) \/ (c >= 97 /\ c <= 102) \/ (c >= 65 /\ c <= 70)
HexVal(c) == IF IsDigit(c) THEN c - 48 ELSE IF c >= 97 THEN c - 87 ELSE c - 55
HexChar(v) == IF v < 10 THEN 48 + v ELSE 87 + v
HexDecode(s) == IF Len(s) % 2 # 0 \/ \E i \in 1..Len(s) : ~IsHexDigit(s[i]) THEN E("bad-hex")
                ELSE [b |-> [i \in 1..(Len(s) \div 2) |-> HexVal(s[2*i-1]) * 16 + HexVal(s[2*i])]]
HexLower(b) == [i \in 1..(2 * Len(b)) |-> IF i % 2 = 1 THEN HexChar(b[(i+1) \div 2] \div 16) ELSE HexChar(b[i \div 2] % 16)]
Has0x(s) == Len(s) >= 2 /\ s[1] = 48 /\ s[2] = 120
After0x(s) == SubSeq(s, 3, Len(s))
Ox(b) == <<48, 120>> \o HexLower(b)
BytesLt(a, b) == LET RECURSIVE G(_) G(i) == IF i > Len(a) THEN i <= Len(b) ELSE IF i > Len(b) THEN FALSE
                                            ELSE IF a[i] < b[i] THEN TRUE ELSE IF a[i] > b[i] THEN FALSE ELSE G(i+1) IN G(1)
AllDigits(s) == s # <<>> /\ \A i \in 1..Len(s) : IsDigit(s[i])
SDec(v) == IF v.neg THEN <<45>> \o Dec(v.mag) ELSE Dec(v.mag)
\* a JSON number literal that is an integer (serde_json, arbitrary precision: the literal is kept and parsed on demand)
IntLit(lit) == LET neg == lit # <<>> /\ lit[1] = 45
                   body == IF neg THEN Tail(lit) ELSE lit IN
               IF AllDigits(body) THEN SI(neg, FromDec(body)) ELSE E("not-an-integer")
\* str::parse::<i128>: optional sign, at least one digit, fits
P127 == Pow2(127)
ParseI128(s) == LET sg == s # <<>> /\ s[1] \in {43, 45}
                    body == IF sg THEN Tail(s) ELSE s IN
                IF ~AllDigits(body) THEN E("nan")
                ELSE LET mag == FromDec(body) neg == sg /\ s[1] = 45 IN
                     IF (neg /\ Leq(mag, P127)) \/ (~neg /\ Lt(mag, P127)) THEN SI(neg, mag) ELSE E("i128-range")
\* num_bigint::BigInt::from_str: '-' (not followed by '+'), then '+' (not followed by '+'), first char a digit, underscores skipped
ParseBigInt(s) == LET neg == s # <<>> /\ s[1] = 45 /\ ~(Len(s) >= 2 /\ s[2] = 43)
                      s1 == IF neg THEN Tail(s) ELSE s
                      s2 == IF s1 # <<>> /\ s1[1] = 43 /\ ~(Len(s1) >= 2 /\ s1[2] = 43) THEN Tail(s1) ELSE s1 IN
                  IF s2 = <<>> \/ ~IsDigit(s2[1]) \/ \E i \in 1..Len(s2) : ~(IsDigit(s2[i]) \/ s2[i] = 95) THEN E("nan")
                  ELSE SI(neg, FromDec(SelectSeq(s2, IsDigit)))
\* well-formed UTF-8 (Unicode table 3-7)
Cont(c) == c >= 128 /\ c <= 191
Utf8From(s, i) == LET RECURSIVE G(_) G(k) ==
    IF k > Len(s) THEN TRUE ELSE LET c == s[k] at(d) == IF k + d <= Len(s) THEN s[k+d] ELSE 0 IN
    IF c < 128 THEN G(k+1)
    ELSE IF c >= 194 /\ c <= 223 THEN Cont(at(1)) /\ G(k+2)
    ELSE IF c = 224 THEN at(1) >= 160 /\ at(1) <= 191 /\ Cont(at(2)) /\ G(k+3)
    ELSE IF c = 237 THEN at(1) >= 128 /\ at(1) <= 159 /\ Cont(at(2)) /\ G(k+3)
    ELSE IF c >= 225 /\ c <= 239 THEN Cont(at(1)) /\ Cont(at(2)) /\ G(k+3)
    ELSE IF c = 240 THEN at(1) >= 144 /\ at(1) <= 191 /\ Cont(at(2)) /\ Cont(at(3)) /\ G(k+4)
    ELSE IF c >= 241 /\ c <= 243 THEN Cont(at(1)) /\ Cont(at(2)) /\ Cont(at(3)) /\ G(k+4)
    ELSE IF c = 244 THEN at(1) >= 128 /\ at(1) <= 143 /\ Cont(at(2)) /\ Cont(at(3)) /\ G(k+4)
    ELSE FALSE IN G(i)
IsUtf8(s) == Utf8From(s, 1)
\* char::is_control: U+0000..U+001F, U+007F..U+009F
HasControl(s) == \E i \in 1..Len(s) : s[i] < 32 \/ s[i] = 127 \/ (s[i] = 194 /\ i < Len(s) /\ s[i+1] >= 128 /\ s[i+1] <= 159)
\* ---------------------------------------------------------------- insertion into the library's ordered maps
\* hashlink LinkedHashMap::insert: an existing key moves to the back with the new value
MInsert(kvs, k, v) == Append(SelectSeq(kvs, LAMBDA e : e[1] # k), <<k, v>>)
\* PlutusMap::add_value: LinkedHashMap::entry(k).or_insert_with(..) moves an existing key to the back, so a further value of an
\* existing key takes the whole group of that key to the end
PAdd(kvs, k, v) == SelectSeq(kvs, LAMBDA e : e[1] # k) \o SelectSeq(kvs, LAMBDA e : e[1] = k) \o << <<k, v>> >>
\* serde_json Map (BTreeMap) insert: sorted by key bytes, an existing key keeps its place and gets the new value
JInsert(kvs, k, v) == LET lo == SelectSeq(kvs, LAMBDA e : BytesLt(e[1], k)) hi == SelectSeq(kvs, LAMBDA e : BytesLt(k, e[1])) IN lo \o << <<k, v>> >> \o hi
JGet(o, k) == LET ix == {i \in 1..Len(o.kvs) : o.kvs[i][1] = k} IN IF ix = {} THEN E("absent") ELSE o.kvs[CHOOSE i \in ix : TRUE][2]
JHas(o, k) == \E i \in 1..Len(o.kvs) : o.kvs[i][1] = k
\* ---------------------------------------------------------------- metadata: JSON -> metadatum
kInt == <<105,110,116>>  kString == <<115,116,114,105,110,103>>  kBytes == <<98,121,116,101,115>>  kList == <<108,105,115,116>>  kMap == <<109,97,112>>
kK == <<107>>  kV == <<118>>  kConstructor == <<99,111,110,115,116,114,117,99,116,111,114>>  kFields == <<102,105,101,108,100,115>>
NumToMd(lit) == LET v == IntLit(lit) IN
                IF IsE(v) THEN E("float") ELSE IF ~v.neg /\ Lt(v.mag, P64) THEN MInt(v) ELSE IF v.neg /\ Leq(v.mag, P63) THEN MInt(v) ELSE E("number-range")
TextMd(s) == IF Len(s) <= 64 THEN MText(s) ELSE E("text-over-64")
BytesMd(b) == IF Len(b) <= 64 THEN MBytes(b) ELSE E("bytes-over-64")
StrToMd(sch, s) == IF sch = "basic" /\ Has0x(s) /\ ~IsE(HexDecode(After0x(s))) THEN BytesMd(HexDecode(After0x(s)).b) ELSE TextMd(s)
RECURSIVE MdEnc(_,_), MdEncSeq(_,_,_,_), MdEncObj(_,_,_,_), MdEncEntries(_,_,_,_)
MdEncSeq(sch, xs, i, acc) == IF i > Len(xs) THEN MList(acc) ELSE LET x == MdEnc(sch, xs[i]) IN IF IsE(x) THEN x ELSE MdEncSeq(sch, xs, i+1, Append(acc, x))
\* the documented key conversion of the basic schema: a key that is an integer becomes one; the library parses it as i128 and
\* builds the integer WITHOUT a range check (deviation "key-int-unchecked": the value is outside the metadatum integer range)
KeyToMd(sch, k) == IF sch # "basic" THEN TextMd(k)
                   ELSE LET p == ParseI128(k) IN IF ~IsE(p) THEN (IF InIntRange(p) THEN MInt(p) ELSE E("key-integer-out-of-range")) ELSE StrToMd(sch, k)
MdEncObj(sch, kvs, i, acc) == IF i > Len(kvs) THEN MMap(acc) ELSE
    LET k == KeyToMd(sch, kvs[i][1]) IN IF IsE(k) THEN k ELSE
    LET v == MdEnc(sch, kvs[i][2]) IN IF IsE(v) THEN v ELSE MdEncObj(sch, kvs, i+1, MInsert(acc, k, v))
MdEncEntries(sch, es, i, acc) == IF i > Len(es) THEN MMap(acc) ELSE
    LET e == es[i] IN
    IF e.j # "obj" \/ ~JHas(e, kK) \/ ~JHas(e, kV) THEN E("map-entry-form") ELSE
    LET k == MdEnc(sch, JGet(e, kK)) IN IF IsE(k) THEN k ELSE
    LET v == MdEnc(sch, JGet(e, kV)) IN IF IsE(v) THEN v ELSE MdEncEntries(sch, es, i+1, MInsert(acc, k, v))
MdEnc(sch, js) ==
  IF sch \in {"no", "basic"} THEN
     (CASE js.j = "null" -> E("null") [] js.j = "bool" -> E("bool")
       [] js.j = "num" -> NumToMd(js.lit)
       [] js.j = "str" -> StrToMd(sch, js.s)
       [] js.j = "arr" -> MdEncSeq(sch, js.xs, 1, <<>>)
       [] js.j = "obj" -> MdEncObj(sch, js.kvs, 1, <<>>))
  ELSE IF js.j # "obj" \/ Len(js.kvs) # 1 THEN E("not-a-tagged-object")
  ELSE LET k == js.kvs[1][1] v == js.kvs[1][2] IN
       CASE k = kInt -> (IF v.j = "num" THEN NumToMd(v.lit) ELSE E("tag-mismatch"))
         [] k = kString -> (IF v.j = "str" THEN TextMd(v.s) ELSE E("tag-mismatch"))
         [] k = kBytes -> (IF v.j # "str" THEN E("tag-mismatch") ELSE LET h == HexDecode(v.s) IN IF IsE(h) THEN h ELSE BytesMd(h.b))
         [] k = kList -> (IF v.j = "arr" THEN MdEncSeq(sch, v.xs, 1, <<>>) ELSE E("tag-mismatch"))
         [] k = kMap -> (IF v.j = "arr" THEN MdEncEntries(sch, v.xs, 1, <<>>) ELSE E("tag-mismatch"))
         [] OTHER -> E("unknown-tag")
\* ---------------------------------------------------------------- metadata: metadatum -> JSON
IntToJ(v) == IF (~v.neg /\ Lt(v.mag, P64)) \/ (v.neg /\ Leq(v.mag, P63)) THEN JNum(SDec(v)) ELSE E("integer-range")
RECURSIVE MdDec(_,_), MdDecSeq(_,_,_,_), MdDecObj(_,_,_,_), MdDecEntries(_,_,_,_), JsonText(_)
MdDecSeq(sch, xs, i, acc) == IF i > Len(xs) THEN JArr(acc) ELSE LET x == MdDec(sch, xs[i]) IN IF IsE(x) THEN x ELSE MdDecSeq(sch, xs, i+1, Append(acc, x))
KeyToJ(sch, k) == CASE k.m = "text" -> [s |-> k.s]
                    [] k.m = "bytes" /\ sch # "no" -> [s |-> Ox(k.s)]
                    [] k.m = "int" /\ sch # "no" -> LET j == IntToJ(k.v) IN IF IsE(j) THEN j ELSE [s |-> j.lit]
                    [] OTHER -> E("key-type")
MdDecObj(sch, kvs, i, acc) == IF i > Len(kvs) THEN JObj(acc) ELSE
    LET k == KeyToJ(sch, kvs[i][1]) IN IF IsE(k) THEN k ELSE
    LET v == MdDec(sch, kvs[i][2]) IN IF IsE(v) THEN v ELSE MdDecObj(sch, kvs, i+1, JInsert(acc, k.s, v))
MdDecEntries(sch, kvs, i, acc) == IF i > Len(kvs) THEN JArr(acc) ELSE
    LET k == MdDec(sch, kvs[i][1]) IN IF IsE(k) THEN k ELSE
    LET v == MdDec(sch, kvs[i][2]) IN IF IsE(v) THEN v ELSE MdDecEntries(sch, kvs, i+1, Append(acc, JObj(<< <<kK, k>>, <<kV, v>> >>)))
Tagged(sch, tag, x) == IF IsE(x) \/ sch # "detailed" THEN x ELSE JObj(<< <<tag, x>> >>)
MdDec(sch, md) ==
  CASE md.m = "int" -> Tagged(sch, kInt, IntToJ(md.v))
    [] md.m = "bytes" -> Tagged(sch, kBytes, IF sch = "no" THEN E("bytes-in-no-conversions") ELSE IF sch = "basic" THEN JStr(Ox(md.s)) ELSE JStr(HexLower(md.s)))
    [] md.m = "text" -> Tagged(sch, kString, JStr(md.s))
    [] md.m = "list" -> Tagged(sch, kList, MdDecSeq(sch, md.xs, 1, <<>>))
    [] md.m = "map" -> Tagged(sch, kMap, IF sch = "detailed" THEN MdDecEntries(sch, md.kvs, 1, <<>>) ELSE MdDecObj(sch, md.kvs, 1, <<>>))
\* ---------------------------------------------------------------- what the schemas are (written independently of the conversions)
IsMdNumber(lit) == LET v == IntLit(lit) IN ~IsE(v) /\ ((~v.neg /\ Lt(v.mag, P64)) \/ (v.neg /\ Leq(v.mag, P63)))
RECURSIVE InSchema(_,_)
InSchema(sch, js) ==
  IF sch \in {"no", "basic"} THEN
     (CASE js.j \in {"null", "bool"} -> FALSE
       [] js.j = "num" -> IsMdNumber(js.lit)
       [] js.j = "str" -> IF sch = "basic" /\ Has0x(js.s) /\ ~IsE(HexDecode(After0x(js.s))) THEN Len(js.s) <= 130 ELSE Len(js.s) <= 64
       [] js.j = "arr" -> \A i \in 1..Len(js.xs) : InSchema(sch, js.xs[i])
       [] js.j = "obj" -> \A i \in 1..Len(js.kvs) : /\ InSchema(sch, js.kvs[i][2])
                                                    /\ LET k == js.kvs[i][1] IN
                                                       IF sch = "basic" /\ ~IsE(ParseI128(k)) THEN InIntRange(ParseI128(k)) ELSE InSchema(sch, JStr(k)))
  ELSE /\ js.j = "obj" /\ Len(js.kvs) = 1
       /\ LET k == js.kvs[1][1] v == js.kvs[1][2] IN
          CASE k = kInt -> v.j = "num" /\ IsMdNumber(v.lit)
            [] k = kString -> v.j = "str" /\ Len(v.s) <= 64
            [] k = kBytes -> v.j = "str" /\ ~IsE(HexDecode(v.s)) /\ Len(v.s) <= 128
            [] k = kList -> v.j = "arr" /\ \A i \in 1..Len(v.xs) : InSchema(sch, v.xs[i])
            [] k = kMap -> v.j = "arr" /\ \A i \in 1..Len(v.xs) : LET e == v.xs[i] IN e.j = "obj" /\ JHas(e, kK) /\ JHas(e, kV) /\ InSchema(sch, JGet(e, kK)) /\ InSchema(sch, JGet(e, kV))
            [] OTHER -> FALSE
\* normal form: the JSON document the reverse conversion produces for the value it denotes
IsLowerHex(s) == \A i \in 1..Len(s) : IsDigit(s[i]) \/ (s[i] >= 97 /\ s[i] <= 102)
CanonDec(s) == LET p == ParseI128(s) IN ~IsE(p) /\ SDec(p) = s
RECURSIVE NormalForm(_,_)
NormalForm(sch, js) ==
  IF sch \in {"no", "basic"} THEN
     (CASE js.j = "num" -> LET v == IntLit(js.lit) IN ~IsE(v) /\ SDec(v) = js.lit
       [] js.j = "str" -> sch = "no" \/ ~Has0x(js.s) \/ IsE(HexDecode(After0x(js.s))) \/ IsLowerHex(After0x(js.s))
       [] js.j = "arr" -> \A i \in 1..Len(js.xs) : NormalForm(sch, js.xs[i])
       [] js.j = "obj" -> /\ \A i \in 1..Len(js.kvs) : /\ NormalForm(sch, js.kvs[i][2])
                                                       /\ LET k == js.kvs[i][1] IN sch = "no" \/ (IF ~IsE(ParseI128(k)) THEN CanonDec(k) /\ IsMdNumber(k) ELSE NormalForm(sch, JStr(k)))
       [] OTHER -> TRUE)
  ELSE IF js.j # "obj" \/ Len(js.kvs) # 1 THEN TRUE
  ELSE LET k == js.kvs[1][1] v == js.kvs[1][2] IN
       CASE k = kInt /\ v.j = "num" -> LET x == IntLit(v.lit) IN ~IsE(x) /\ SDec(x) = v.lit
         [] k = kBytes /\ v.j = "str" -> IsLowerHex(v.s)
         [] k = kList /\ v.j = "arr" -> \A i \in 1..Len(v.xs) : NormalForm(sch, v.xs[i])
         [] k = kMap /\ v.j = "arr" -> /\ \A i \in 1..Len(v.xs) : LET e == v.xs[i] IN e.j = "obj" => (Len(e.kvs) = 2 /\ \A q \in 1..Len(e.kvs) : NormalForm(sch, e.kvs[q][2]))
                                      /\ \A a, b \in 1..Len(v.xs) : (a < b /\ v.xs[a].j = "obj" /\ v.xs[b].j = "obj" /\ JHas(v.xs[a], kK) /\ JHas(v.xs[b], kK)) => JGet(v.xs[a], kK) # JGet(v.xs[b], kK)
         [] OTHER -> TRUE
\* maps of the metadatum filled in ascending key order of the JSON form (the side condition of the property for the no-conversions schema)
RECURSIVE MdAscending(_)
MdAscending(md) == CASE md.m = "list" -> \A i \in 1..Len(md.xs) : MdAscending(md.xs[i])
                     [] md.m = "map" -> /\ \A i \in 1..Len(md.kvs) : MdAscending(md.kvs[i][1]) /\ MdAscending(md.kvs[i][2])
                                        /\ \A i \in 1..(Len(md.kvs) - 1) : md.kvs[i][1].m = "text" /\ md.kvs[i+1][1].m = "text" => BytesLt(md.kvs[i][1].s, md.kvs[i+1][1].s)
                     [] OTHER -> TRUE
RECURSIVE MdSameContent(_,_)
MdSameContent(a, b) == /\ a.m = b.m
                       /\ CASE a.m = "list" -> Len(a.xs) = Len(b.xs) /\ \A i \in 1..Len(a.xs) : MdSameContent(a.xs[i], b.xs[i])
                            [] a.m = "map" -> /\ Len(a.kvs) = Len(b.kvs)
                                              /\ \A i \in 1..Len(a.kvs) : \E j \in 1..Len(b.kvs) : MdSameContent(a.kvs[i][1], b.kvs[j][1]) /\ MdSameContent(a.kvs[i][2], b.kvs[j][2])
                            [] OTHER -> a = b
\* ---------------------------------------------------------------- Plutus datums
RECURSIVE PlEnc(_,_), PlEncSeq(_,_,_,_), PlEncObj(_,_,_,_), PlEncEntries(_,_,_,_)
NumToPl(lit) == LET v == IntLit(lit) IN IF IsE(v) THEN E("float") ELSE PInt(v)
PlStr(sch, s, isKey) ==
  IF sch = "basic" THEN
       IF Has0x(s) THEN (LET h == HexDecode(After0x(s)) IN IF IsE(h) THEN h ELSE PBytes(h.b))
       ELSE IF isKey /\ ~IsE(ParseBigInt(s)) THEN PInt(ParseBigInt(s))
       ELSE PBytes(s)
  ELSE IF Has0x(s) THEN E("0x-in-detailed") ELSE LET h == HexDecode(s) IN IF IsE(h) THEN h ELSE PBytes(h.b)
PlEncSeq(sch, xs, i, acc) == IF i > Len(xs) THEN [seq |-> acc] ELSE LET x == PlEnc(sch, xs[i]) IN IF IsE(x) THEN x ELSE PlEncSeq(sch, xs, i+1, Append(acc, x))
PlEncObj(sch, kvs, i, acc) == IF i > Len(kvs) THEN PMap(acc) ELSE
    LET k == PlStr(sch, kvs[i][1], TRUE) IN IF IsE(k) THEN k ELSE
    LET v == PlEnc(sch, kvs[i][2]) IN IF IsE(v) THEN v ELSE PlEncObj(sch, kvs, i+1, PAdd(acc, k, v))
PlEncEntries(sch, es, i, acc) == IF i > Len(es) THEN PMap(acc) ELSE
    LET e == es[i] IN
    IF e.j # "obj" \/ ~JHas(e, kK) \/ ~JHas(e, kV) THEN E("map-entry-form") ELSE
    LET k == PlEnc(sch, JGet(e, kK)) IN IF IsE(k) THEN k ELSE
    LET v == PlEnc(sch, JGet(e, kV)) IN IF IsE(v) THEN v ELSE PlEncEntries(sch, es, i+1, PAdd(acc, k, v))
PlEnc(sch, js) ==
  IF sch = "basic" THEN
     (CASE js.j = "null" -> E("null") [] js.j = "bool" -> E("bool")
       [] js.j = "num" -> NumToPl(js.lit)
       [] js.j = "str" -> PlStr(sch, js.s, FALSE)
       [] js.j = "arr" -> (LET r == PlEncSeq(sch, js.xs, 1, <<>>) IN IF IsE(r) THEN r ELSE PList(r.seq))
       [] js.j = "obj" -> PlEncObj(sch, js.kvs, 1, <<>>))
  ELSE IF js.j # "obj" THEN E("not-a-tagged-object")
  ELSE IF Len(js.kvs) = 1 THEN
       (LET k == js.kvs[1][1] v == js.kvs[1][2] IN
       CASE k = kInt -> (IF v.j = "num" THEN NumToPl(v.lit) ELSE E("tag-mismatch"))
         [] k = kBytes -> (IF v.j = "str" THEN PlStr(sch, v.s, FALSE) ELSE E("tag-mismatch"))
         [] k = kList -> (IF v.j = "arr" THEN (LET r == PlEncSeq(sch, v.xs, 1, <<>>) IN IF IsE(r) THEN r ELSE PList(r.seq)) ELSE E("tag-mismatch"))
         [] k = kMap -> (IF v.j = "arr" THEN PlEncEntries(sch, v.xs, 1, <<>>) ELSE E("tag-mismatch"))
         [] OTHER -> E("unknown-tag"))
  ELSE IF Len(js.kvs) # 2 THEN E("object-size")
  ELSE LET c == JGet(js, kConstructor) f == JGet(js, kFields) IN
       IF IsE(c) \/ c.j # "num" \/ IsE(IntLit(c.lit)) \/ IntLit(c.lit).neg \/ ~Lt(IntLit(c.lit).mag, P64) \/ (c.lit # <<>> /\ c.lit[1] = 45) THEN E("constructor")
       ELSE IF IsE(f) \/ f.j # "arr" THEN E("fields")
       ELSE LET r == PlEncSeq(sch, f.xs, 1, <<>>) IN IF IsE(r) THEN r ELSE PConstr(IntLit(c.lit).mag, r.seq)
RECURSIVE PlDec(_,_), PlDecSeq(_,_,_,_), PlDecEntries(_,_,_,_), PlDecObj(_,_,_,_)
PlDecSeq(sch, xs, i, acc) == IF i > Len(xs) THEN JArr(acc) ELSE LET x == PlDec(sch, xs[i]) IN IF IsE(x) THEN x ELSE PlDecSeq(sch, xs, i+1, Append(acc, x))
PlDecEntries(sch, kvs, i, acc) == IF i > Len(kvs) THEN JArr(acc) ELSE
    LET k == PlDec(sch, kvs[i][1]) IN IF IsE(k) THEN k ELSE
    LET v == PlDec(sch, kvs[i][2]) IN IF IsE(v) THEN v ELSE PlDecEntries(sch, kvs, i+1, Append(acc, JObj(<< <<kK, k>>, <<kV, v>> >>)))
PlKeyToJ(k) == CASE k.p = "int" -> [s |-> SDec(k.v)]
                 [] k.p = "bytes" -> [s |-> IF IsUtf8(k.s) THEN k.s ELSE Ox(k.s)]
                 [] OTHER -> E("key-type")
PlDecObj(sch, kvs, i, acc) == IF i > Len(kvs) THEN JObj(acc) ELSE
    LET k == PlKeyToJ(kvs[i][1]) IN IF IsE(k) THEN k ELSE
    IF (i < Len(kvs) /\ kvs[i+1][1] = kvs[i][1]) THEN E("several-values-for-a-key") ELSE
    LET v == PlDec(sch, kvs[i][2]) IN IF IsE(v) THEN v ELSE PlDecObj(sch, kvs, i+1, JInsert(acc, k.s, v))
PlDec(sch, pd) ==
  CASE pd.p = "constr" -> LET f == PlDecSeq(sch, pd.xs, 1, <<>>) IN IF IsE(f) THEN f ELSE JObj(<< <<kConstructor, JNum(Dec(pd.alt))>>, <<kFields, f>> >>)
    [] pd.p = "map" -> IF sch = "basic" THEN PlDecObj(sch, pd.kvs, 1, <<>>) ELSE Tagged(sch, kMap, PlDecEntries(sch, pd.kvs, 1, <<>>))
    [] pd.p = "list" -> Tagged(sch, kList, PlDecSeq(sch, pd.xs, 1, <<>>))
    [] pd.p = "int" -> Tagged(sch, kInt, JNum(SDec(pd.v)))
    [] pd.p = "bytes" -> Tagged(sch, kBytes, JStr(IF sch = "detailed" THEN HexLower(pd.s) ELSE IF IsUtf8(pd.s) /\ ~HasControl(pd.s) THEN pd.s ELSE Ox(pd.s)))
\* ---------------------------------------------------------------- chunked bytes
Chunk(b) == MList([i \in 1..((Len(b) + 63) \div 64) |-> MBytes(SubSeq(b, 64 * (i-1) + 1, IF 64 * i < Len(b) THEN 64 * i ELSE Len(b)))])
Unchunk(md) == IF md.m # "list" THEN E("not-a-list") ELSE IF \E i \in 1..Len(md.xs) : md.xs[i].m # "bytes" THEN E("not-bytes")
               ELSE [b |-> LET RECURSIVE G(_) G(i) == IF i > Len(md.xs) THEN <<>> ELSE md.xs[i].s \o G(i+1) IN G(1)]
\* ---------------------------------------------------------------- JSON text (what is handed to the library)
Hex2(c) == <<HexChar(c \div 16), HexChar(c % 16)>>
EscStr(s) == LET RECURSIVE G(_) G(i) == IF i > Len(s) THEN <<>> ELSE
                 (IF s[i] = 34 THEN <<92, 34>> ELSE IF s[i] = 92 THEN <<92, 92>> ELSE IF s[i] < 32 THEN <<92, 117, 48, 48>> \o Hex2(s[i]) ELSE <<s[i]>>) \o G(i+1) IN <<34>> \o G(1) \o <<34>>
JsonText(js) ==
  CASE js.j = "null" -> <<110,117,108,108>>
    [] js.j = "bool" -> IF js.b THEN <<116,114,117,101>> ELSE <<102,97,108,115,101>>
    [] js.j = "num" -> js.lit
    [] js.j = "str" -> EscStr(js.s)
    [] js.j = "arr" -> LET RECURSIVE G(_) G(i) == IF i > Len(js.xs) THEN <<>> ELSE (IF i > 1 THEN <<44>> ELSE <<>>) \o JsonText(js.xs[i]) \o G(i+1) IN <<91>> \o G(1) \o <<93>>
    [] js.j = "obj" -> LET RECURSIVE G(_) G(i) == IF i > Len(js.kvs) THEN <<>> ELSE (IF i > 1 THEN <<44>> ELSE <<>>) \o EscStr(js.kvs[i][1]) \o <<58>> \o JsonText(js.kvs[i][2]) \o G(i+1) IN <<123>> \o G(1) \o <<125>>
====
