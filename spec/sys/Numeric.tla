---- MODULE Numeric ----
(* C14. Exact semantics of the amount types. Each public operation is one action  *)
(* Op(ty, op, args, result); Expect gives what the mathematics allows:            *)
(*   [k |-> "u",   v |-> BigNat]   the call must return exactly this unsigned     *)
(*   [k |-> "s",   v |-> signed]   ... this signed integer                        *)
(*   [k |-> "b",   v |-> BOOLEAN]  ... this boolean                               *)
(*   [k |-> "err"]                 the exact result is not representable: the     *)
(*                                 call must fail explicitly (Err / None)         *)
(*   [k |-> "free"]                outside the statement (only "no panic")        *)
EXTENDS BigNat, Value, CBOR
U(a, k) == FromBE(a[k])
Sg(o) == SI(o.neg, FromBE(o.mag_n))
ExpU(v) == [k |-> "u", v |-> v]
ExpS(v) == [k |-> "s", v |-> v]
ExpB(v) == [k |-> "b", v |-> v]
ExpErr == [k |-> "err"]
Free == [k |-> "free"]
U64orErr(v) == IF FitsU64(v) THEN ExpU(v) ELSE ExpErr
IsDigits(s) == s # <<>> /\ \A i \in 1..Len(s) : s[i] \in 48..57
\* canonical decimal: no sign other than '-', no leading zeros (except "0"), no "-0"
CanonDec(s) == LET body == IF s # <<>> /\ s[1] = 45 THEN Tail(s) ELSE s IN
               IsDigits(body) /\ (Len(body) = 1 \/ body[1] # 48) /\ ~(s[1] = 45 /\ body = <<48>>)
DecS(s) == IF s[1] = 45 THEN SI(TRUE, FromDec(Tail(s))) ELSE SPos(FromDec(s))
SDec(x) == IF x.neg THEN <<45>> \o Dec(x.mag) ELSE Dec(x.mag)
I32Min == SI(TRUE, Pow2(31))
I32Max == SPos(Sub(Pow2(31), One))
InI32(x) == SCmp(I32Min, x) <= 0 /\ SCmp(x, I32Max) <= 0

\* ------------------------------------------------------------------ BigNum (u64)
BigNumOp(op, a) ==
  CASE op = "checked_add" -> U64orErr(Add(U(a,"a_n"), U(a,"b_n")))
    [] op = "checked_mul" -> U64orErr(Mul(U(a,"a_n"), U(a,"b_n")))
    [] op = "checked_sub" -> IF Geq(U(a,"a_n"), U(a,"b_n")) THEN ExpU(Sub(U(a,"a_n"), U(a,"b_n"))) ELSE ExpErr
    [] op = "clamped_sub" -> ExpU(Monus(U(a,"a_n"), U(a,"b_n")))       \* documented saturation
    [] op = "max" -> ExpU(MaxN(U(a,"a_n"), U(a,"b_n")))
    [] op = "less_than" -> ExpB(Lt(U(a,"a_n"), U(a,"b_n")))
    [] op = "compare" -> ExpS(LET c == Cmp(U(a,"a_n"), U(a,"b_n")) IN IF c < 0 THEN SI(TRUE, One) ELSE IF c > 0 THEN SPos(One) ELSE SPos(Zero))
    [] op = "from_str" -> IF CanonDec(a.s) /\ a.s[1] # 45 THEN U64orErr(FromDec(a.s))
                          ELSE IF CanonDec(a.s) THEN ExpErr ELSE Free
    [] op = "from_bytes" -> LET it == Parse(a.bytes) IN IF ~IsErr(it) /\ it.mt = 0 THEN ExpU(ArgN(it)) ELSE ExpErr
    [] OTHER -> Free
\* ------------------------------------------------------------------ Int (-2^64 .. 2^64-1)
IntRangeOrErr(x) == IF InIntRange(x) THEN ExpS(x) ELSE ExpErr
IntCtor(op, a) ==
  CASE op = "new" -> ExpS(SPos(U(a,"a_n")))
    [] op = "new_negative" -> ExpS(SI(TRUE, U(a,"a_n")))
    [] op = "new_i32" -> ExpS(Sg(a.a))
    [] op = "from_str" -> IF CanonDec(a.s) THEN IntRangeOrErr(DecS(a.s)) ELSE Free
    [] op = "from_bytes" -> LET it == Parse(a.bytes) IN IF ~IsErr(it) /\ it.mt \in {0,1} THEN ExpS(SIntOf(it)) ELSE ExpErr
    [] op = "from_bigint" -> IntRangeOrErr(Sg(a.a))             \* BigInt::as_int
    [] OTHER -> Free
\* ------------------------------------------------------------------ BigInt (unbounded)
BigIntOp(op, a) ==
  CASE op = "from_str" -> IF CanonDec(a.s) THEN ExpS(DecS(a.s)) ELSE Free
    [] op = "add" -> ExpS(SAdd(Sg(a.a), Sg(a.b)))
    [] op = "sub" -> ExpS(SSub(Sg(a.a), Sg(a.b)))
    [] op = "mul" -> ExpS(SMul(Sg(a.a), Sg(a.b)))
    [] op = "abs" -> ExpS(SPos(Sg(a.a).mag))
    [] op = "increment" -> ExpS(SAdd(Sg(a.a), SPos(One)))
    [] op = "from_bignum" -> ExpS(SPos(U(a,"a_n")))
    [] op = "pow" -> ExpS(LET RECURSIVE Pw(_,_) Pw(k,acc) == IF k = 0 THEN acc ELSE LET a2 == SMul(acc, Sg(a.a)) IN IF Len(a2.mag) >= 0 THEN Pw(k-1, a2) ELSE acc IN Pw(a.e, SPos(One)))
    [] op \in {"div_floor", "div_ceil"} -> (IF Sg(a.b).mag = Zero THEN Free ELSE [k |-> "div", ceil |-> op = "div_ceil", a |-> Sg(a.a), b |-> Sg(a.b)])
    [] op = "from_bytes" -> LET it == Parse(a.bytes) IN
                            IF IsErr(it) THEN ExpErr
                            ELSE IF it.mt \in {0,1} THEN ExpS(SIntOf(it))
                            ELSE IF it.mt = 6 /\ ToSmall(ArgN(it)) \in {2,3} /\ it.kids[1].mt = 2
                                 THEN IF (~it.kids[1].indef /\ Len(it.kids[1].str) > 64) \/ (\E j \in 1..Len(it.kids[1].chunks) : it.kids[1].chunks[j] > 64)
                                      THEN Free        \* not a bounded byte string: the decoder may refuse it
                                      ELSE ExpS(IF ToSmall(ArgN(it)) = 2 THEN SPos(FromBE(it.kids[1].str)) ELSE SI(TRUE, Add(FromBE(it.kids[1].str), One)))
                            ELSE ExpErr
    [] OTHER -> Free
\* CBOR form of a big integer: uint / nint when it fits, else tag 2 / 3 over the magnitude bytes
\* (content only: chunking of the byte string is an encoding choice checked under C03)
BigIntCborOk(x, bytes) ==
  LET it == Parse(bytes) IN
  /\ ~IsErr(it)
  /\ IF InIntRange(x) THEN it.mt \in {0,1} /\ SIntOf(it) = x /\ ShortestHead(it)
     ELSE /\ it.mt = 6 /\ ToSmall(ArgN(it)) = (IF x.neg THEN 3 ELSE 2)
          /\ it.kids[1].mt = 2
          /\ FromBE(it.kids[1].str) = (IF x.neg THEN Sub(x.mag, One) ELSE x.mag)
          /\ (it.kids[1].str # <<>> => it.kids[1].str[1] # 0)            \* no leading zero byte
\* q = floor(a/b) iff the remainder a - q*b is zero or has the sign of b, and is smaller than b in magnitude;
\* q = ceil(a/b) iff it is zero or has the opposite sign
DivOk(q, a, b, ceil) == LET r == SSub(a, SMul(q, b)) IN
                        /\ Lt(r.mag, b.mag)
                        /\ (r.mag = Zero \/ (IF ceil THEN r.neg # b.neg ELSE r.neg = b.neg))
IntCborOk(x, bytes) == bytes = ESInt(x)
====
