---- MODULE Address ----
(* C11. The address format as a total classification function over byte strings   *)
(* (Shelley header bits, exact lengths, pointer variable-length naturals; Byron    *)
(* CBOR envelope). Classify returns                                                 *)
(*   [ok |-> "yes", kind, net, pay |-> [script, hash], stake |-> ..., ptr |-> ...]  *)
(*   [ok |-> FALSE, why]                                                            *)
(*   [ok |-> "byron", payload, crc]   structure of a Byron address; the CRC32 of    *)
(*                                     the payload is uninterpreted here (digest     *)
(*                                     oracle evaluates it)                          *)
EXTENDS BigNat, CBOR
Bad(why) == [ok |-> "no", why |-> why]
Cred(b, pos, script) == [script |-> script, hash |-> SubSeq(b, pos, pos + 27)]
\* variable-length natural at position i (1-based): 7 bits per byte, most significant group first, high bit = continuation.
\* Returns [ok, v (BigNat), next, minimal] ; ok = FALSE when unterminated or when the value exceeds 2^64-1.
RECURSIVE VarNatC(_,_,_,_)
VarNatC(b, i, acc, first) ==
  IF i > Len(b) THEN [ok |-> FALSE, why |-> "unterminated"]
  ELSE LET a2 == Add(MulSmall(acc, 128), FromSmall(b[i] % 128)) IN
       IF ~FitsU64(a2) THEN [ok |-> FALSE, why |-> "overflow"]
       ELSE IF b[i] < 128 THEN [ok |-> TRUE, v |-> a2, next |-> i + 1, minimal |-> (i = first \/ b[first] # 128)]
       ELSE VarNatC(b, i + 1, a2, first)
VarNat(b, i) == VarNatC(b, i, Zero, i)
\* the canonical encoding of n
VarNatEnc(n) == LET RECURSIVE G(_,_) G(x, acc) == IF x = Zero THEN acc ELSE LET qr == DivModSmall(x, 128) IN IF qr[2] >= 0 THEN G(qr[1], <<qr[2] + 128>> \o acc) ELSE acc
                    qr0 == DivModSmall(n, 128)
                IN G(qr0[1], <<qr0[2]>>)
Classify(b) ==
  IF b = <<>> THEN Bad("empty") ELSE
  LET t == b[1] \div 16  net == b[1] % 16  n == Len(b) IN
  CASE t \in 0..3 -> IF n < 57 THEN Bad("truncated") ELSE IF n > 57 THEN Bad("trailing")
                     ELSE [ok |-> "yes", kind |-> "base", net |-> net, pay |-> Cred(b, 2, t % 2 = 1), stake |-> Cred(b, 30, (t \div 2) % 2 = 1), canonical |-> TRUE]
    [] t \in 4..5 -> IF n < 32 THEN Bad("truncated") ELSE
                     LET s == VarNat(b, 30) IN IF ~s.ok THEN Bad(s.why) ELSE
                     LET x == VarNat(b, s.next) IN IF ~x.ok THEN Bad(x.why) ELSE
                     LET c == VarNat(b, x.next) IN IF ~c.ok THEN Bad(c.why) ELSE
                     IF c.next <= n THEN Bad("trailing")
                     ELSE [ok |-> "yes", kind |-> "ptr", net |-> net, pay |-> Cred(b, 2, t % 2 = 1), ptr |-> <<s.v, x.v, c.v>>,
                           canonical |-> s.minimal /\ x.minimal /\ c.minimal]
    [] t \in 6..7 -> IF n < 29 THEN Bad("truncated") ELSE IF n > 29 THEN Bad("trailing")
                     ELSE [ok |-> "yes", kind |-> "ent", net |-> net, pay |-> Cred(b, 2, t % 2 = 1), canonical |-> TRUE]
    [] t \in 14..15 -> IF n < 29 THEN Bad("truncated") ELSE IF n > 29 THEN Bad("trailing")
                       ELSE [ok |-> "yes", kind |-> "reward", net |-> net, pay |-> Cred(b, 2, t % 2 = 1), canonical |-> TRUE]
    [] t = 8 -> \* Byron: [ #6.24(bytes .cbor [root: bytes(28), attributes: map, type: uint]), crc32: uint ]
                LET it == Parse(b) IN
                IF IsErr(it) THEN Bad("byron-cbor")
                ELSE IF it.mt # 4 \/ Len(it.kids) # 2 \/ it.kids[1].mt # 6 \/ ToSmall(ArgN(it.kids[1])) # 24 \/ it.kids[1].kids[1].mt # 2 \/ it.kids[2].mt # 0 THEN Bad("byron-envelope")
                ELSE LET pl == Parse(it.kids[1].kids[1].str) IN
                     IF IsErr(pl) \/ pl.mt # 4 \/ Len(pl.kids) # 3 \/ pl.kids[1].mt # 2 \/ Len(pl.kids[1].str) # 28 \/ pl.kids[2].mt # 5 \/ pl.kids[3].mt # 0 THEN Bad("byron-payload")
                     \* known: the payload uses only what every implementation reads alike - type 0 / 1 / 2 and attribute keys 1 (bytes) and 2 (bytes).
                     \* The Byron CDDL leaves room for other types and attributes; whether a strict parser takes those is not part of the property.
                     ELSE [ok |-> "byron", payload |-> it.kids[1].kids[1].str, crc |-> ArgN(it.kids[2]), indef |-> it.indef \/ it.kids[1].kids[1].indef,
                           known |-> /\ Len(ArgN(pl.kids[3])) <= 1 /\ ToSmall(ArgN(pl.kids[3])) \in {0, 1, 2}
                                     /\ \A j \in 1..(Len(pl.kids[2].kids) \div 2) : LET k == pl.kids[2].kids[2*j-1] v == pl.kids[2].kids[2*j] IN
                                            k.mt = 0 /\ Len(ArgN(k)) <= 1 /\ ToSmall(ArgN(k)) \in {1, 2} /\ v.mt = 2
                                            \* key 2 is bytes .cbor u32 (the protocol magic)
                                            /\ (ToSmall(ArgN(k)) = 2 => LET m == Parse(v.str) IN ~IsErr(m) /\ m.mt = 0 /\ Len(ArgN(m)) <= 4)
                                     /\ \A i, j \in 1..(Len(pl.kids[2].kids) \div 2) : i # j => ArgN(pl.kids[2].kids[2*i-1]) # ArgN(pl.kids[2].kids[2*j-1])]
    [] OTHER -> Bad("header")
\* what the strict parser must report for a valid Shelley-era address, and its canonical bytes
ToBytes(r) == LET hdr(t) == <<t * 16 + r.net>> IN
  CASE r.kind = "base" -> hdr((IF r.pay.script THEN 1 ELSE 0) + (IF r.stake.script THEN 2 ELSE 0)) \o r.pay.hash \o r.stake.hash
    [] r.kind = "ptr" -> hdr(4 + (IF r.pay.script THEN 1 ELSE 0)) \o r.pay.hash \o VarNatEnc(r.ptr[1]) \o VarNatEnc(r.ptr[2]) \o VarNatEnc(r.ptr[3])
    [] r.kind = "ent" -> hdr(6 + (IF r.pay.script THEN 1 ELSE 0)) \o r.pay.hash
    [] r.kind = "reward" -> hdr(14 + (IF r.pay.script THEN 1 ELSE 0)) \o r.pay.hash
====
