---- MODULE KeyAlgebra ----
(* C12. Keys, signatures and password containers as a TERM ALGEBRA. A term says how a value  *)
(* was obtained; the cryptographic primitives are uninterpreted. The laws of the property    *)
(* are (1) the normal form below: soft public derivation and the two ways to the Ed25519      *)
(* public key of a BIP32 key rewrite to the same term, hardened public derivation rewrites to *)
(* ERR; (2) the denotation term -> bytes observed on an execution is a FUNCTION (two routes   *)
(* to one term give the same bytes) and INJECTIVE per kind (distinct keys / signatures have   *)
(* distinct bytes); (3) verify(pk, m, sig) holds exactly when pk = PubOf(s) and sig =         *)
(* Sig(s, m) for one signing key s; (4) byte layouts of the BIP32 forms; (5) a container      *)
(* opens exactly with an HMAC-equivalent password and unmodified bytes.                       *)
EXTENDS Integers, Sequences, FiniteSets
ERR == [t |-> "err"]
Root(i) == [t |-> "root", i |-> i]                    \* BIP32 root key from entropy #i
Der(k, ix) == [t |-> "der", k |-> k, ix |-> ix]      \* child of an extended PRIVATE key; ix = [hard, n], index = 2^31*hard + n
Pub(k) == [t |-> "pub", k |-> k]                      \* extended public key of an extended private key
Raw(k) == [t |-> "raw", k |-> k]                      \* the Ed25519-extended signing key inside a BIP32 private key
Normal(i) == [t |-> "normal", i |-> i]                \* plain Ed25519 signing key from seed #i
PubOf(s) == [t |-> "pubof", s |-> s]                  \* Ed25519 public key of a signing key
Sig(s, m) == [t |-> "sig", s |-> s, m |-> m]
Kind(x) == CASE x.t \in {"root", "der", "imp"} -> "xprv" [] x.t = "pub" -> "xpub" [] x.t \in {"raw", "normal"} -> "sk"
             [] x.t = "pubof" -> "pk" [] x.t = "sig" -> "sig" [] OTHER -> "none"
ByteLen(x) == CASE x.t \in {"root", "der", "imp"} -> 96 [] x.t = "pub" -> 64 [] x.t = "raw" -> 64 [] x.t = "normal" -> 32 [] x.t = "pubof" -> 32 [] x.t = "sig" -> 64 [] OTHER -> 0
Ix(ix) == [hard |-> ix.hard, n |-> ix.n]
\* the term (in normal form) an operation yields on an operand term; ERR where the operation has to be refused
Apply(op, a) ==
  CASE op.op = "root" -> Root(op.i)
    [] op.op = "normal" -> Normal(op.i)
    \* an extended private key IMPORTED from bytes (a key some other wallet made): the bytes of key a with one bit pattern or-ed in.
    \* For the algebra it is just another root; the laws must hold for it as for keys the library generated itself.
    [] op.op = "tweak" -> IF Kind(a) = "xprv" THEN [t |-> "imp", of |-> a, byte |-> op.byte, mask |-> op.mask] ELSE ERR
    [] op.op = "derive" -> IF Kind(a) = "xprv" THEN Der(a, Ix(op.ix)) ELSE ERR
    [] op.op = "pub" -> IF Kind(a) = "xprv" THEN Pub(a) ELSE ERR
    [] op.op = "dpub" -> IF Kind(a) # "xpub" \/ op.ix.hard THEN ERR ELSE Pub(Der(a.k, Ix(op.ix)))      \* soft derivation commutes with to_public
    [] op.op = "raw" -> IF Kind(a) = "xprv" THEN Raw(a) ELSE ERR
    [] op.op = "rawpub" -> IF Kind(a) = "xpub" THEN PubOf(Raw(a.k)) ELSE ERR                            \* xpub.to_raw_key = xprv.to_raw_key.to_public
    [] op.op = "topub" -> IF Kind(a) = "sk" THEN PubOf(a) ELSE ERR
    [] op.op = "sign" -> IF Kind(a) = "sk" THEN Sig(a, op.m) ELSE ERR
    [] OTHER -> ERR
Producing == {"root", "normal", "tweak", "derive", "pub", "dpub", "raw", "rawpub", "topub", "sign"}
\* (3)
VerifyExpected(pk, m, sg) == pk.t = "pubof" /\ sg = Sig(pk.s, m)
\* (4) layouts: xprv = extended secret (64) ++ chain code (32); xpub = public key (32) ++ chain code (32)
Sub(b, i, j) == SubSeq(b, i, j)
\* (5) HMAC key of a password: hashed when longer than the SHA-512 block, then zero-padded - so trailing zero bytes do not matter
StripZ(b) == LET RECURSIVE G(_) G(n) == IF n = 0 THEN <<>> ELSE IF b[n] = 0 THEN G(n - 1) ELSE SubSeq(b, 1, n) IN G(Len(b))
HmacKey(pw, sha512) == StripZ(IF Len(pw) > 128 THEN sha512 ELSE pw)
EncryptRefused(pw, salt, nonce) == Len(salt) # 32 \/ Len(nonce) # 12 \/ Len(pw) = 0
Region(pos) == IF pos < 32 THEN "salt" ELSE IF pos < 44 THEN "nonce" ELSE IF pos < 60 THEN "tag" ELSE "body"
HexChar(v) == IF v < 10 THEN 48 + v ELSE 87 + v
HexLower(b) == [i \in 1..(2 * Len(b)) |-> IF i % 2 = 1 THEN HexChar(b[(i+1) \div 2] \div 16) ELSE HexChar(b[i \div 2] % 16)]
Hrp(x) == CASE Kind(x) = "xprv" -> <<120,112,114,118>> [] Kind(x) = "xpub" -> <<120,112,117,98>>
            [] x.t = "normal" -> <<101,100,50,53,53,49,57,95,115,107>> [] x.t = "raw" -> <<101,100,50,53,53,49,57,101,95,115,107>>
            [] Kind(x) = "pk" -> <<101,100,50,53,53,49,57,95,112,107>> [] Kind(x) = "sig" -> <<101,100,50,53,53,49,57,95,115,105,103>> [] OTHER -> <<>>
Bech32Chars == {113,112,122,114,121,57,120,56,103,102,50,116,118,100,119,48,115,51,106,110,53,52,107,104,99,101,54,109,117,97,55,108}
====
