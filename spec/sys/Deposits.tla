---- MODULE Deposits ----
(* C20. Three tables over the certificate kinds: the ledger's (L0, LedgerRules),   *)
(* the stand-alone helpers' (L1a) and the builder's (L1b), transcribed from         *)
(* utils.rs / certificates_builder.rs / voting_proposal_builder.rs as they are      *)
(* after the repair of the helper (pool retirement is not a refund; proposal        *)
(* deposits count). Abstract certificates: [k |-> kind, coin |-> BigNat].           *)
EXTENDS BigNat, Sequences
CoinKinds == {7, 8, 11, 12, 13, 16, 17}
L0Dep(c, kd, pd) == CASE c.k = 0 -> kd [] c.k = 3 -> pd [] c.k \in {7, 11, 12, 13, 16} -> c.coin [] OTHER -> Zero
L0Ref(c, kd, pd) == CASE c.k = 1 -> kd [] c.k \in {8, 17} -> c.coin [] OTHER -> Zero
\* L1a: internal_get_deposit / internal_get_implicit_input (match on the certificate enum; StakeRegistration carries Option<coin>)
HelperDep(c, kd, pd) ==
  CASE c.k = 3 -> pd                                    \* PoolRegistration
    [] c.k \in {0, 7} -> IF c.k = 7 THEN c.coin ELSE kd  \* StakeRegistration { coin: Some / None }
    [] c.k = 16 -> c.coin [] c.k = 11 -> c.coin [] c.k = 12 -> c.coin [] c.k = 13 -> c.coin
    [] OTHER -> Zero
HelperRef(c, kd, pd) ==
  CASE c.k \in {1, 8} -> IF c.k = 8 THEN c.coin ELSE kd  \* StakeDeregistration { coin: Some / None }
    [] c.k = 17 -> c.coin
    [] OTHER -> Zero
\* L1b: CertificatesBuilder::get_certificates_deposit / get_certificates_refund
BuilderDep(c, kd, pd) == HelperDep(c, kd, pd)
BuilderRef(c, kd, pd) == HelperRef(c, kd, pd)
SumBy(s, f(_)) == LET RECURSIVE G(_,_) G(i, acc) == IF i > Len(s) THEN acc ELSE LET a2 == Add(acc, f(s[i])) IN IF Len(a2) >= 0 THEN G(i+1, a2) ELSE acc IN G(1, Zero)
====
