---- MODULE TxBalanceIndBad ----
(* The accounting core of spec/sys/TxBuilder.tla with UNBOUNDED amounts, for Apalache: the balancing step      *)
(* (add_change_if_needed) and the validating build establish the ledger equation for ALL natural amounts and   *)
(* every fee request, not only for the amounts of the bounded pool TLC explores. IndInv is inductive:           *)
(*   apalache-mc check --init=Init   --inv=IndInv --length=0 TxBalanceInd.tla                                   *)
(*   apalache-mc check --init=IndInit --inv=IndInv --length=1 TxBalanceInd.tla                                  *)
EXTENDS Integers
CONSTANTS
  \* @type: Int;
  FeeOf,
  \* @type: Int;
  MinAda
VARIABLES
  \* @type: Int;
  inC,
  \* @type: Int;
  inA,
  \* @type: Int;
  outC,
  \* @type: Int;
  outA,
  \* @type: Int;
  dep,
  \* @type: Int;
  ref,
  \* @type: Int;
  wd,
  \* @type: Int;
  mint,
  \* @type: Int;
  don,
  \* @type: Int;
  fee,
  \* @type: Int;
  chC,
  \* @type: Int;
  chA,
  \* @type: Str;
  reqKind,
  \* @type: Int;
  reqVal,
  \* @type: Str;
  phase

ConstInit == FeeOf \in Nat /\ MinAda \in Nat /\ FeeOf >= 1 /\ MinAda >= 1

TotalInC == inC + wd + ref
TotalOutC == outC + dep + don
TotalInA == inA + (IF mint > 0 THEN mint ELSE 0)
TotalOutA == outA + (IF mint < 0 THEN 0 - mint ELSE 0)
Equation(f) == TotalInC = TotalOutC + chC + f /\ TotalInA = TotalOutA + chA
Wanted(m) == IF reqKind = "exact" THEN reqVal ELSE IF reqKind = "atleast" /\ reqVal > m THEN reqVal ELSE m
FeeInForce == IF fee # -1 THEN fee ELSE IF reqKind = "none" THEN -1 ELSE reqVal

Init == /\ inC = 0 /\ inA = 0 /\ outC = 0 /\ outA = 0 /\ dep = 0 /\ ref = 0 /\ wd = 0 /\ mint = 0 /\ don = 0
        /\ fee = -1 /\ chC = 0 /\ chA = 0 /\ reqKind = "none" /\ reqVal = 0 /\ phase = "ops"

\* any call that changes what the builder holds, with any natural amounts (parts held as a whole are REPLACED)
Issue ==
  /\ phase \in {"ops", "balanced", "stale", "failed"}
  /\ \E c \in Nat, a \in Nat, m \in Int, k \in {"in", "out", "dep", "ref", "wd", "mint", "mintout", "don"} :
       /\ inC' = IF k = "in" THEN inC + c ELSE inC
       /\ inA' = IF k = "in" THEN inA + a ELSE inA
       /\ outC' = IF k \in {"out", "mintout"} THEN outC + c ELSE outC
       /\ outA' = IF k \in {"out", "mintout"} THEN outA + a ELSE outA
       /\ dep' = IF k = "dep" THEN c ELSE IF k = "ref" THEN 0 ELSE dep
       /\ ref' = IF k = "ref" THEN c ELSE IF k = "dep" THEN 0 ELSE ref
       /\ wd' = IF k = "wd" THEN c ELSE wd
       /\ mint' = IF k = "mint" THEN m ELSE IF k = "mintout" THEN mint + a ELSE mint
       /\ don' = IF k = "don" THEN c ELSE don
  /\ phase' = IF phase \in {"balanced", "stale"} THEN "stale" ELSE phase
  /\ UNCHANGED <<fee, chC, chA, reqKind, reqVal>>
Request ==
  /\ phase \in {"ops", "balanced", "stale", "failed"}
  /\ \E f \in Nat, k \in {"exact", "atleast"} : reqKind' = k /\ reqVal' = f
  /\ phase' = IF phase \in {"balanced", "stale"} THEN "stale" ELSE phase
  /\ UNCHANGED <<inC, inA, outC, outA, dep, ref, wd, mint, don, fee, chC, chA>>
Balance ==
  /\ phase \in {"ops", "failed"} /\ fee = -1
  /\ LET cC == TotalInC - TotalOutC
         cA == TotalInA - TotalOutA
         f0 == Wanted(FeeOf) IN
     IF cC < f0 \/ cA < 0 THEN phase' = "failed" /\ UNCHANGED <<fee, chC, chA>>
     ELSE IF cA > 0 THEN (IF cC - f0 < MinAda THEN phase' = "failed" /\ UNCHANGED <<fee, chC, chA>>
                          ELSE phase' = "balanced" /\ fee' = f0 /\ chC' = cC - f0 /\ chA' = cA)
     ELSE IF cC - f0 >= MinAda THEN phase' = "balanced" /\ fee' = f0 /\ chC' = cC - f0 /\ chA' = 0
     ELSE IF reqKind = "exact" /\ cC > reqVal THEN phase' = "failed" /\ UNCHANGED <<fee, chC, chA>>
     ELSE phase' = "balanced" /\ fee' = (IF reqKind = "exact" THEN reqVal ELSE cC + 1) /\ chC' = 0 /\ chA' = 0
  /\ UNCHANGED <<inC, inA, outC, outA, dep, ref, wd, mint, don, reqKind, reqVal>>
Build ==
  /\ phase \in {"ops", "balanced", "stale", "failed"}
  /\ phase' = IF FeeInForce >= FeeOf /\ Equation(FeeInForce) THEN "built" ELSE "refused"
  /\ UNCHANGED <<inC, inA, outC, outA, dep, ref, wd, mint, don, fee, chC, chA, reqKind, reqVal>>
Stutter == phase \in {"built", "refused"} /\ UNCHANGED <<inC, inA, outC, outA, dep, ref, wd, mint, don, fee, chC, chA, reqKind, reqVal, phase>>
Next == Issue \/ Request \/ Balance \/ Build \/ Stutter

\* ---- the properties (L0 at this level), for all amounts
TypeOK ==
  /\ inC \in Nat /\ inA \in Nat /\ outC \in Nat /\ outA \in Nat /\ dep \in Nat /\ ref \in Nat /\ wd \in Nat /\ don \in Nat
  /\ mint \in Int /\ fee \in Int /\ fee >= -1 /\ chC \in Nat /\ chA \in Nat
  /\ reqKind \in {"none", "exact", "atleast"} /\ reqVal \in Nat
  /\ phase \in {"ops", "balanced", "failed", "stale", "built", "refused"}
BalancedOk == phase = "balanced" =>
  /\ Equation(fee)
  /\ (reqKind # "exact" => fee >= FeeOf)
  /\ (chC > 0 => chC >= MinAda)
  /\ (reqKind = "atleast" => fee >= reqVal)
  /\ (reqKind = "exact" => fee = reqVal)
BuiltOk == phase = "built" => FeeInForce >= FeeOf /\ Equation(FeeInForce)
\* nothing is set before a successful balancing; a failed balancing leaves no trace
Untouched == phase \in {"ops", "failed"} => fee = -1 /\ chC = 0 /\ chA = 0
IndInv == TypeOK /\ BalancedOk /\ BuiltOk /\ Untouched
IndInit == IndInv
====
