---- MODULE CDDL ----
(* Schema interpreter. A schema is TLA+ DATA: a record name -> node; nodes have the  *)
(* uniform shape [k, a, b, c]. Conf(S, s, item, profile, path) validates a generic    *)
(* CBOR item (CBOR.tla) against node s and returns <<>> or the path of the first      *)
(* violated constraint. Profiles: "ledger" (what a node accepts) and "write" (what    *)
(* the library is documented to emit: shortest definite heads everywhere except       *)
(* non-empty Plutus lists (indefinite) and bounded bytes over 64 (chunked); tag 258    *)
(* on every set; no duplicates in sets) and "fresh" (= write, plus: the form in which a *)
(* value built through the typed API or read from JSON is written, i.e. none of the    *)
(* encoding details that only a decoded value retains, and none of the content the      *)
(* JSON form is known not to carry; the reason is the last path element).               *)
EXTENDS Integers, Sequences, FiniteSets, CBOR
N(k,a,b,c) == [k |-> k, a |-> a, b |-> b, c |-> c]
Ref(n) == N("ref", n, 0, 0)
Any == N("any",0,0,0)
UInt == N("uint",0,0,0)           \* any uint64
PosUInt == N("posuint",0,0,0)     \* 1..2^64-1
IntN == N("int",0,0,0)
NzInt == N("nzint",0,0,0)
Const(v) == N("const",v,0,0)
Null == N("null",0,0,0)
Bool == N("bool",0,0,0)
BytesR(lo,hi) == N("bytes",lo,hi,0)
TextR(lo,hi) == N("text",lo,hi,0)
Arr(fs) == N("arr",fs,0,0)         \* fs: seq of [t, opt]; optional fields only at the end
List(t, mn) == N("list",t,mn,0)
Map(fs) == N("map",fs,0,0)         \* fs: seq of [key, t, req]
Table(kt,vt,mn) == N("table",kt,vt,mn)
Tag(n,t) == N("tag",n,t,0)
Set(t, mn) == N("set",t,mn,0)
Alt(ts) == N("alt",ts,0,0)
SetP(t, mn) == N("setp",t,mn,0)        \* set of Plutus data: tag 258 over a Plutus list (non-empty: indefinite on write)
UIntMax(m) == N("uintmax",m,0,0)       \* uint <= m (m small)
PList(t) == N("plist",t,0,0)           \* Plutus list: empty definite, non-empty indefinite on write
BBytes == N("bbytes",0,0,0)            \* bounded bytes: <= 64 definite, longer chunked in pieces <= 64
Cbor(t) == N("cbor",t,0,0)             \* #6.24(bytes .cbor t)
TableS(kt,vt,mn) == N("tables",kt,vt,mn)   \* table whose keys must be strictly ascending in canonical order on write
IntMap(vt) == N("intmap",vt,0,0)       \* {* uint => vt}
ArrV(ts) == N("arrv",ts,0,0)           \* array group choice selected by its first element (uint): ts[v+1] is the schema of variant v
AnyUInt == N("uint",0,0,0)
U32 == N("u32",0,0,0)                  \* uint that fits 32 bits
NF(t, why) == N("nf",<<t, why>>,0,0)          \* t, but not what a freshly built value is written as (profile "fresh" rejects with reason why)
MdInt == N("mdint",0,0,0)              \* metadatum integer; fresh: >= -2^63 (the JSON forms use i64 / u64)
BigTag(n) == N("bigtag",n,0,0)         \* #6.2 / #6.3 (bounded bytes); fresh: only for magnitudes that need more than 8 bytes, no leading zero
Constr102(t) == N("constr102",t,0,0)   \* #6.102([uint, plist]); fresh: only for alternatives > 127
OutMap(t) == N("outmap",t,0,0)         \* map-form output; fresh: only when it carries an inline datum or a script reference
Strip0(b) == LET RECURSIVE G(_) G(i) == IF i > Len(b) THEN <<>> ELSE IF b[i] = 0 THEN G(i+1) ELSE SubSeq(b, i, Len(b)) IN G(1)
F(t) == [t |-> t, opt |-> FALSE]
O(t) == [t |-> t, opt |-> TRUE]
K(key,t) == [key |-> key, t |-> t, req |-> TRUE]
Q(key,t) == [key |-> key, t |-> t, req |-> FALSE]
\* strict lexicographic order on byte strings of equal length
StrLt(a, b) == LET RECURSIVE G(_) G(i) == IF i > Len(a) THEN FALSE ELSE IF a[i] < b[i] THEN TRUE ELSE IF a[i] > b[i] THEN FALSE ELSE G(i+1) IN G(1)
OK == <<>>
Bad(path, why) == Append(path, why)
IsUInt(it) == it.mt = 0
Short(it, P) == P = "ledger" \/ ShortestHead(it)
\* Conforms(S, s, it, P, path) -> <<>> when ok, otherwise path ++ reason
RECURSIVE Conf(_,_,_,_,_), ConfSeq(_,_,_,_,_,_), ConfMapFields(_,_,_,_,_,_), ConfTable(_,_,_,_,_,_), FirstAlt(_,_,_,_,_,_)
Conf(S, s, it, P, path) ==
  \* Plutus data keeps the encoding of the bytes it was decoded from (C04), also when the caller hands such a datum to a builder: what is
  \* EMITTED for it is held to the CDDL (ledger profile), not to the form a freshly built datum is written in. `fresh` (C17) stays strict.
  CASE s.k = "ref" -> Conf(S, S[s.a], it, IF P = "write" /\ s.a = "plutus_data" THEN "ledger" ELSE P, Append(path, s.a))
    [] s.k = "any" -> OK
    [] s.k = "uint" -> IF it.mt = 0 /\ Short(it,P) THEN OK ELSE Bad(path, "uint")
    [] s.k = "u32" -> IF it.mt = 0 /\ Short(it,P) /\ Len(ArgN(it)) <= 4 THEN OK ELSE Bad(path, "u32")
    [] s.k = "posuint" -> IF it.mt = 0 /\ Short(it,P) /\ ArgN(it) # <<>> THEN OK ELSE Bad(path, "posuint")
    [] s.k = "int" -> IF it.mt \in {0,1} /\ Short(it,P) THEN OK ELSE Bad(path, "int")
    [] s.k = "nzint" -> IF it.mt \in {0,1} /\ Short(it,P) /\ (it.mt = 1 \/ ArgN(it) # <<>>) THEN OK ELSE Bad(path, "nzint")
    [] s.k = "const" -> IF it.mt = 0 /\ Short(it,P) /\ Small(it.arg) = s.a THEN OK ELSE Bad(path, "const")
    [] s.k = "null" -> IF it.mt = 7 /\ it.ai = 22 THEN OK ELSE Bad(path, "null")
    [] s.k = "bool" -> IF it.mt = 7 /\ it.ai \in {20,21} THEN OK ELSE Bad(path, "bool")
    [] s.k = "bytes" -> IF it.mt = 2 /\ Len(it.str) >= s.a /\ Len(it.str) <= s.b /\ (P = "ledger" \/ (~it.indef /\ ShortestHead(it))) THEN OK ELSE Bad(path, "bytes")
    [] s.k = "text" -> IF it.mt = 3 /\ Len(it.str) >= s.a /\ Len(it.str) <= s.b /\ (P = "ledger" \/ (~it.indef /\ ShortestHead(it))) THEN OK ELSE Bad(path, "text")
    [] s.k = "tag" -> IF it.mt = 6 /\ Small(it.arg) = s.a /\ Short(it,P) THEN Conf(S, s.b, it.kids[1], P, Append(path, "tag")) ELSE Bad(path, "tag")
    [] s.k = "arr" -> IF it.mt # 4 \/ ~(P = "ledger" \/ (~it.indef /\ ShortestHead(it))) THEN Bad(path, "arr-head")
                      ELSE LET req == Cardinality({j \in 1..Len(s.a) : ~s.a[j].opt}) n == Len(it.kids) IN
                           IF n < req \/ n > Len(s.a) THEN Bad(path, "arr-arity") ELSE ConfSeq(S, s.a, it, P, path, 1)
    [] s.k = "list" -> IF it.mt # 4 \/ ~(P = "ledger" \/ (~it.indef /\ ShortestHead(it))) THEN Bad(path, "list-head")
                       ELSE IF Len(it.kids) < s.b THEN Bad(path, "list-min")
                       ELSE LET RECURSIVE G(_) G(j) == IF j > Len(it.kids) THEN OK ELSE LET r == Conf(S, s.a, it.kids[j], P, Append(path, j)) IN IF r # OK THEN r ELSE G(j+1) IN G(1)
    [] s.k = "set" -> LET inner == IF it.mt = 6 THEN it.kids[1] ELSE it
                          tagged == it.mt = 6 /\ Small(it.arg) = 258 IN
                      IF it.mt = 6 /\ ~tagged THEN Bad(path, "set-tag")
                      ELSE IF P # "ledger" /\ ~tagged THEN Bad(path, "set-untagged")
                      ELSE IF P # "ledger" /\ ~ShortestHead(it) THEN Bad(path, "set-tag-head")
                      ELSE LET r == Conf(S, List(s.a, s.b), inner, P, Append(path, "set")) IN
                           IF r # OK THEN r
                           ELSE IF \E x, y \in 1..Len(inner.kids) : x < y /\ SameData(inner.kids[x], inner.kids[y])
                                THEN Bad(path, "set-dup") ELSE OK
    [] s.k = "setp" -> LET inner == IF it.mt = 6 THEN it.kids[1] ELSE it
                           tagged == it.mt = 6 /\ Small(it.arg) = 258 IN
                       IF it.mt = 6 /\ ~tagged THEN Bad(path, "set-tag")
                       ELSE IF P # "ledger" /\ ~tagged THEN Bad(path, "set-untagged")
                       ELSE IF P # "ledger" /\ ~ShortestHead(it) THEN Bad(path, "set-tag-head")
                       ELSE IF inner.mt # 4 \/ Len(inner.kids) < s.b THEN Bad(path, "set-min")
                       ELSE LET r == Conf(S, PList(s.a), inner, P, Append(path, "set")) IN
                            IF r # OK THEN r
                            \* datums are identified by their bytes (hash): only byte-identical elements are duplicates
                            ELSE IF \E x, y \in 1..Len(inner.kids) : x < y /\ SameEnc(inner.kids[x], inner.kids[y]) THEN Bad(path, "set-dup") ELSE OK
    [] s.k = "map" -> IF it.mt # 5 \/ ~(P = "ledger" \/ (~it.indef /\ ShortestHead(it))) THEN Bad(path, "map-head")
                      ELSE ConfMapFields(S, s.a, it, P, path, 1)
    [] s.k = "table" -> IF it.mt # 5 \/ ~(P = "ledger" \/ (~it.indef /\ ShortestHead(it))) THEN Bad(path, "table-head")
                        ELSE IF Len(it.kids) \div 2 < s.c THEN Bad(path, "table-min")
                        \* (fresh profile: a map filled in another than ascending key order does not come back from the JSON form in that order)
                        ELSE IF P = "fresh" /\ \E j \in 1..((Len(it.kids) \div 2) - 1) : LET x == it.kids[2*j-1] y == it.kids[2*j+1] IN
                                  \/ (x.mt = 2 /\ y.mt = 2 /\ ~(Len(x.str) < Len(y.str) \/ (Len(x.str) = Len(y.str) /\ StrLt(x.str, y.str))))
                                  \/ (x.mt = 0 /\ y.mt = 0 /\ ~Lt(ArgN(x), ArgN(y)))
                             THEN Bad(path, "map-not-ascending")
                        ELSE ConfTable(S, s, it, P, path, 1)
    [] s.k = "alt" -> FirstAlt(S, s.a, it, P, path, 1)
    [] s.k = "tagrange" -> IF it.mt = 6 /\ Small(it.arg) >= s.a /\ Small(it.arg) <= s.b /\ Short(it,P) THEN Conf(S, s.c, it.kids[1], P, Append(path, "tag")) ELSE Bad(path, "tagrange")
    [] s.k = "uintmax" -> IF it.mt = 0 /\ Short(it,P) /\ Small(it.arg) >= 0 /\ Small(it.arg) <= s.a THEN OK ELSE Bad(path, "uintmax")
    [] s.k = "plist" -> IF it.mt # 4 THEN Bad(path, "plist-type")
                        ELSE IF P # "ledger" /\ ((Len(it.kids) = 0 /\ it.indef) \/ (Len(it.kids) > 0 /\ ~it.indef)) THEN Bad(path, "plist-form")
                        ELSE IF P # "ledger" /\ ~it.indef /\ ~ShortestHead(it) THEN Bad(path, "plist-head")
                        ELSE LET RECURSIVE G(_) G(j) == IF j > Len(it.kids) THEN OK ELSE LET r == Conf(S, s.a, it.kids[j], P, Append(path, j)) IN IF r # OK THEN r ELSE G(j+1) IN G(1)
    [] s.k = "bbytes" -> IF it.mt # 2 THEN Bad(path, "bbytes-type")
                         ELSE IF \E j \in 1..Len(it.chunks) : it.chunks[j] > 64 THEN Bad(path, "bbytes-chunk-over-64")
                         ELSE IF ~it.indef /\ Len(it.str) > 64 THEN Bad(path, "bbytes-over-64-definite")
                         ELSE IF P # "ledger" /\ ((it.indef /\ Len(it.str) <= 64) \/ (~it.indef /\ ~ShortestHead(it))) THEN Bad(path, "bbytes-form")
                         ELSE OK
    [] s.k = "cbor" -> IF it.mt # 6 \/ Small(it.arg) # 24 \/ ~Short(it,P) \/ it.kids[1].mt # 2 THEN Bad(path, "cbor-wrapper")
                       ELSE IF P # "ledger" /\ (it.kids[1].indef \/ ~ShortestHead(it.kids[1])) THEN Bad(path, "cbor-wrapper-head")
                       ELSE LET inner == Parse(it.kids[1].str) IN IF IsErr(inner) THEN Bad(path, "cbor-inner-malformed") ELSE Conf(S, s.a, inner, P, Append(path, "inner"))
    [] s.k = "tables" -> IF it.mt # 5 \/ ~(P = "ledger" \/ (~it.indef /\ ShortestHead(it))) THEN Bad(path, "table-head")
                         ELSE IF Len(it.kids) \div 2 < s.c THEN Bad(path, "table-min")
                         \* (a key written twice makes the map invalid CBOR for every reader, whatever the profile)
                         ELSE IF \E x, y \in 1..(Len(it.kids) \div 2) : x < y /\ it.kids[2*x-1].str = it.kids[2*y-1].str THEN Bad(path, "table-dup-key")
                         ELSE IF P # "ledger" /\ \E j \in 1..((Len(it.kids) \div 2) - 1) :
                                   ~(Len(it.kids[2*j-1].str) < Len(it.kids[2*j+1].str) \/ (Len(it.kids[2*j-1].str) = Len(it.kids[2*j+1].str) /\ StrLt(it.kids[2*j-1].str, it.kids[2*j+1].str)))
                              THEN Bad(path, "table-keys-not-canonical")
                         ELSE ConfTable(S, s, it, P, path, 1)
    [] s.k = "intmap" -> IF it.mt # 5 \/ ~(P = "ledger" \/ (~it.indef /\ ShortestHead(it))) THEN Bad(path, "intmap-head")
                         ELSE IF P = "fresh" /\ \E j \in 1..((Len(it.kids) \div 2) - 1) : ~Lt(ArgN(it.kids[2*j-1]), ArgN(it.kids[2*j+1])) THEN Bad(path, "map-not-ascending")
                         ELSE ConfTable(S, N("table", UInt, s.a, 0), it, P, path, 1)
    [] s.k = "arrv" -> IF it.mt # 4 \/ Len(it.kids) = 0 \/ it.kids[1].mt # 0 \/ ~(P = "ledger" \/ (~it.indef /\ ShortestHead(it))) THEN Bad(path, "variant-head")
                       ELSE LET v == Small(it.kids[1].arg) IN
                            IF v < 0 \/ v >= Len(s.a) THEN Bad(path, "variant-unknown")
                            ELSE Conf(S, s.a[v + 1], it, P, Append(path, v))
    [] s.k = "nf" -> IF P = "fresh" THEN Bad(path, s.a[2]) ELSE Conf(S, s.a[1], it, P, path)
    [] s.k = "mdint" -> IF ~(it.mt \in {0,1} /\ Short(it,P)) THEN Bad(path, "int")
                        ELSE IF P = "fresh" /\ it.mt = 1 /\ Len(ArgN(it)) = 8 /\ ArgN(it)[8] >= 128 THEN Bad(path, "md-int-below-i64") ELSE OK
    [] s.k = "bigtag" -> IF ~(it.mt = 6 /\ Small(it.arg) = s.a /\ Short(it,P)) THEN Bad(path, "tag")
                         ELSE LET r == Conf(S, BBytes, it.kids[1], P, Append(path, "tag")) IN
                              IF r # OK THEN r
                              ELSE IF P = "fresh" /\ (Len(Strip0(it.kids[1].str)) <= 8 \/ it.kids[1].str[1] = 0) THEN Bad(path, "bignum-form") ELSE OK
    [] s.k = "constr102" -> IF ~(it.mt = 6 /\ Small(it.arg) = 102 /\ Short(it,P)) THEN Bad(path, "tag")
                            ELSE LET r == Conf(S, Arr(<<F(UInt), F(s.a)>>), it.kids[1], P, Append(path, "tag")) IN
                                 IF r # OK THEN r
                                 ELSE IF P = "fresh" /\ Len(ArgN(it.kids[1].kids[1])) <= 1 /\ Small(it.kids[1].kids[1].arg) <= 127 THEN Bad(path, "constr-general-form") ELSE OK
    [] s.k = "outmap" -> LET r == Conf(S, s.a, it, P, path) IN
                         IF r # OK \/ P # "fresh" THEN r
                         ELSE IF \E e \in 1..(Len(it.kids) \div 2) : \/ Small(it.kids[2*e-1].arg) = 3
                                                                     \/ (Small(it.kids[2*e-1].arg) = 2 /\ Small(it.kids[2*e].kids[1].arg) = 1)
                              THEN OK ELSE Bad(path, "output-map-form")
    [] OTHER -> Bad(path, "unknown-node")
ConfSeq(S, fs, it, P, path, j) == IF j > Len(it.kids) THEN OK ELSE
    LET r == Conf(S, fs[j].t, it.kids[j], P, Append(path, j)) IN IF r # OK THEN r ELSE ConfSeq(S, fs, it, P, path, j+1)
\* every entry key must be a known uint key, no duplicates, required keys present
ConfMapFields(S, fs, it, P, path, j) ==
    IF j > Len(it.kids) THEN
       (IF \E f \in 1..Len(fs) : fs[f].req /\ ~\E e \in 1..(Len(it.kids) \div 2) : Small(it.kids[2*e-1].arg) = fs[f].key /\ it.kids[2*e-1].mt = 0
        THEN Bad(path, "map-missing") ELSE OK)
    ELSE LET kit == it.kids[j] key == Small(kit.arg)
             fi == {f \in 1..Len(fs) : fs[f].key = key} IN
         IF kit.mt # 0 \/ fi = {} THEN Bad(Append(path, key), "map-unknown-key")
         ELSE IF ~Short(kit, P) THEN Bad(Append(path, key), "map-key-head")
         ELSE IF \E e \in 1..((j-1) \div 2) : Small(it.kids[2*e-1].arg) = key THEN Bad(Append(path, key), "map-dup-key")
         ELSE LET f == CHOOSE x \in fi : TRUE
                  r == Conf(S, fs[f].t, it.kids[j+1], P, Append(path, key)) IN
              IF r # OK THEN r ELSE ConfMapFields(S, fs, it, P, path, j+2)
ConfTable(S, s, it, P, path, j) ==
    IF j > Len(it.kids) THEN OK ELSE
    LET rk == Conf(S, s.a, it.kids[j], P, Append(path, "key")) IN IF rk # OK THEN rk ELSE
    LET rv == Conf(S, s.b, it.kids[j+1], P, Append(path, "val")) IN IF rv # OK THEN rv ELSE ConfTable(S, s, it, P, path, j+2)
FirstAlt(S, ts, it, P, path, j) == IF j > Len(ts) THEN Bad(path, "no-alt") ELSE
    \* fresh profile: the reason is wanted, so descend into the alternative the item matches in the write profile
    IF P = "fresh" THEN (IF Conf(S, ts[j], it, "write", path) = OK THEN Conf(S, ts[j], it, P, Append(path, j)) ELSE FirstAlt(S, ts, it, P, path, j+1)) ELSE
    LET r == Conf(S, ts[j], it, P, Append(path, j)) IN IF r = OK THEN OK ELSE
    IF j = Len(ts) THEN (IF Len(ts) = 1 THEN r ELSE Bad(path, "no-alt")) ELSE FirstAlt(S, ts, it, P, path, j+1)
Conforms(S, name, it, P) == Conf(S, S[name], it, IF P = "write" /\ name = "plutus_data" THEN "ledger" ELSE P, <<name>>)
====
