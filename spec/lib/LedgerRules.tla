---- MODULE LedgerRules ----
(* Conway ledger rules evaluated on transactions parsed by CBOR.tla (untyped       *)
(* traversal by the CDDL's map keys and array positions): deposits and refunds,     *)
(* preservation of value, minimum fee, minimum ADA. Amounts are BigNat.             *)
EXTENDS Integers, Sequences, FiniteSets, CBOR, Value
NONE == ERR("none")
RECURSIVE GetKC(_,_,_)
GetKC(m,key,j) == IF j > Len(m.kids) THEN NONE ELSE IF m.kids[j].mt = 0 /\ Small(m.kids[j].arg) = key THEN m.kids[j+1] ELSE GetKC(m,key,j+2)
GetK(m,key) == GetKC(m,key,1)            \* value of uint key in a map item, or NONE
HasK(m,key) == ~IsErr(GetK(m,key))
Untag(it) == IF it.mt = 6 THEN it.kids[1] ELSE it
\* elements of a (possibly tag-258) array-valued body field, <<>> when absent
Elems(body, key) == IF HasK(body, key) THEN Untag(GetK(body, key)).kids ELSE <<>>

\* ---- multi-asset items (map policy -> map name -> int) as functions
\* sign: 0 = unsigned quantities (outputs), 1 = positive part of a mint, -1 = magnitude of the negative part
MaOf(mit, sign) ==
  LET P == 1..(Len(mit.kids) \div 2)
      ids == UNION {{<<p, a>> : a \in 1..(Len(mit.kids[2*p].kids) \div 2)} : p \in P}
      Q(p,a) == LET q == mit.kids[2*p].kids[2*a] IN
                IF sign = 0 THEN ArgN(q)
                ELSE IF sign = 1 THEN (IF q.mt = 0 THEN ArgN(q) ELSE Zero)
                ELSE (IF q.mt = 1 THEN Add(ArgN(q), One) ELSE Zero)
      Key(p,a) == <<mit.kids[2*p-1].str, mit.kids[2*p].kids[2*a-1].str>>
      \* the same id may occur twice in a non-canonical map: quantities add up
      Tot(id) == LET RECURSIVE S(_,_) S(T,acc) == IF T = {} THEN acc ELSE LET x == CHOOSE y \in T : TRUE IN S(T \ {x}, Add(acc, Q(x[1], x[2]))) IN S({y \in ids : Key(y[1], y[2]) = id}, Zero)
  IN [id \in {Key(x[1], x[2]) : x \in ids} |-> Tot(id)]
ValueOf(vit) == IF vit.mt = 0 THEN VCoin(ArgN(vit)) ELSE [coin |-> ArgN(vit.kids[1]), ma |-> MaOf(vit.kids[2], 0)]
OutValItem(o) == IF o.mt = 4 THEN o.kids[2] ELSE GetK(o,1)
OutAddrItem(o) == IF o.mt = 4 THEN o.kids[1] ELSE GetK(o,0)
OutValue(o) == ValueOf(OutValItem(o))

\* ---- certificates: [kind, ...]; the ledger's deposit / refund table (Conway, CDDL indices 0..18)
CertKind(c) == Small(c.kids[1].arg)
\*  0 stake_registration (legacy)        deposit = key_deposit parameter
\*  1 stake_deregistration (legacy)      refund  = key_deposit parameter
\*  3 pool_registration                  deposit = pool_deposit parameter (counted as a first registration)
\*  4 pool_retirement                    nothing inside the transaction (refund is paid to the reward account at the epoch boundary)
\*  7 reg_cert [7, cred, coin]           deposit = coin            8 unreg_cert [8, cred, coin]  refund = coin
\* 11 stake_reg_deleg [.., coin]  12 vote_reg_deleg [.., coin]  13 stake_vote_reg_deleg [.., coin]   deposit = coin (last element)
\* 16 reg_drep [16, cred, coin, anchor]  deposit = coin           17 unreg_drep [17, cred, coin]  refund = coin
\*  2, 5, 6, 9, 10, 14, 15, 18           no deposit, no refund
CertDeposit(c, pp) == LET k == CertKind(c) IN
   CASE k = 0 -> pp.kd [] k = 3 -> pp.pd
     [] k = 7 -> ArgN(c.kids[3]) [] k \in {11,12} -> ArgN(c.kids[4]) [] k = 13 -> ArgN(c.kids[5])
     [] k = 16 -> ArgN(c.kids[3]) [] OTHER -> Zero
CertRefund(c, pp) == LET k == CertKind(c) IN
   CASE k = 1 -> pp.kd [] k = 8 -> ArgN(c.kids[3]) [] k = 17 -> ArgN(c.kids[3]) [] OTHER -> Zero
Withdrawn(body) == IF HasK(body,5) THEN LET w == GetK(body,5) IN SumSeqN(Len(w.kids) \div 2, LAMBDA j : ArgN(w.kids[2*j])) ELSE Zero
\* proposal_procedure = [deposit, reward_account, gov_action, anchor]
ProposalDeposits(body) == LET ps == Elems(body, 20) IN SumSeqN(Len(ps), LAMBDA j : ArgN(ps[j].kids[1]))
Deposits(body, pp) == LET cs == Elems(body, 4) IN Add(SumSeqN(Len(cs), LAMBDA j : CertDeposit(cs[j], pp)), ProposalDeposits(body))
Refunds(body, pp) == LET cs == Elems(body, 4) IN SumSeqN(Len(cs), LAMBDA j : CertRefund(cs[j], pp))
ImplicitInput(body, pp) == Add(Withdrawn(body), Refunds(body, pp))

\* ---- preservation of value: consumed = produced, for lovelace and every asset
\* utxo: function from <<txid bytes, index>> to value
InputKey(i) == <<i.kids[1].str, Small(i.kids[2].arg)>>
Consumed(body, utxo, pp) ==
  LET ins == Elems(body, 0)
      spent == SumSeqV(Len(ins), LAMBDA j : utxo[InputKey(ins[j])])
      mintp == IF HasK(body,9) THEN MaOf(GetK(body,9), 1) ELSE EmptyMa
  IN VAdd(VAdd(spent, VCoin(ImplicitInput(body, pp))), VMa(mintp))
Produced(body, pp) ==
  LET outs == Elems(body, 1)
      outv == SumSeqV(Len(outs), LAMBDA j : OutValue(outs[j]))
      fee == ArgN(GetK(body,2))
      don == IF HasK(body,22) THEN ArgN(GetK(body,22)) ELSE Zero
      mintn == IF HasK(body,9) THEN MaOf(GetK(body,9), -1) ELSE EmptyMa
  IN VAdd(VAdd(outv, VCoin(Add(Add(fee, Deposits(body, pp)), don))), VMa(mintn))
Balanced(body, utxo, pp) == VEq(Consumed(body, utxo, pp), Produced(body, pp))
InputsKnown(body, utxo) == \A j \in 1..Len(Elems(body,0)) : InputKey(Elems(body,0)[j]) \in DOMAIN utxo

\* ---- minimum ADA (Babbage/Conway): coin >= coins_per_utxo_byte * (160 + |serialized output|)
ItemLen(it) == it.hi - it.lo + 1
MinAdaOf(o, cpb) == Mul(FromSmall(160 + ItemLen(o)), cpb)
OutMinAdaOk(o, cpb) == Leq(MinAdaOf(o, cpb), OutValue(o).coin)

\* ---- redeemers of a witness set (key 5): array form [[tag, index, data, ex_units], ...] or map form {[tag, index] => [data, ex_units]}
Redeemers(ws) == IF ~HasK(ws, 5) THEN <<>> ELSE
   LET r == GetK(ws, 5) IN
   IF r.mt = 4 THEN [j \in 1..Len(r.kids) |-> [tag |-> Small(r.kids[j].kids[1].arg), ix |-> Small(r.kids[j].kids[2].arg), data |-> r.kids[j].kids[3], exu |-> r.kids[j].kids[4]]]
   ELSE [j \in 1..(Len(r.kids) \div 2) |-> [tag |-> Small(r.kids[2*j-1].kids[1].arg), ix |-> Small(r.kids[2*j-1].kids[2].arg), data |-> r.kids[2*j].kids[1], exu |-> r.kids[2*j].kids[2]]]
\* lexicographic order on byte strings (shorter prefix first)
RECURSIVE LexLtC(_,_,_)
LexLtC(a, b, i) == IF i > Len(a) THEN i <= Len(b) ELSE IF i > Len(b) THEN FALSE ELSE IF a[i] < b[i] THEN TRUE ELSE IF a[i] > b[i] THEN FALSE ELSE LexLtC(a, b, i+1)
LexLt(a, b) == LexLtC(a, b, 1)
\* ledger pointer rules: position in the SORTED collection
\*   spending: inputs ordered by (transaction id bytes, index)
InLt(x, y) == LexLt(x[1], y[1]) \/ (x[1] = y[1] /\ x[2] < y[2])
SpendIx(body, key) == Cardinality({j \in 1..Len(Elems(body,0)) : InLt(InputKey(Elems(body,0)[j]), key)})
\*   minting: policy ids ordered bytewise
MintPolicies(body) == IF HasK(body, 9) THEN {GetK(body,9).kids[2*j-1].str : j \in 1..(Len(GetK(body,9).kids) \div 2)} ELSE {}
MintIx(body, pol) == Cardinality({p \in MintPolicies(body) : LexLt(p, pol)})
\*   certificates: position in the sequence (0-based); -1 when absent
CertIx(B, body, certBytes) == LET cs == Elems(body, 4) S == {j \in 1..Len(cs) : Span(B, cs[j]) = certBytes} IN IF S = {} THEN -1 ELSE (CHOOSE j \in S : TRUE) - 1
\*   rewards: withdrawals ordered as the ledger's Map RewardAccount: network, then script-hash credentials before key-hash
\*   credentials (constructor order of Credential), then hash bytes. Raw byte order differs when key and script accounts mix.
RewardAccounts(body) == IF HasK(body, 5) THEN {GetK(body,5).kids[2*j-1].str : j \in 1..(Len(GetK(body,5).kids) \div 2)} ELSE {}
RaKey(r) == <<r[1] % 16, IF (r[1] \div 16) % 2 = 1 THEN 0 ELSE 1, SubSeq(r, 2, Len(r))>>
RaLedgerLt(a, b) == LET x == RaKey(a) y == RaKey(b) IN x[1] < y[1] \/ (x[1] = y[1] /\ (x[2] < y[2] \/ (x[2] = y[2] /\ LexLt(x[3], y[3]))))
RewardIxLedger(body, ra) == Cardinality({r \in RewardAccounts(body) : RaLedgerLt(r, ra)})
RewardIxBytes(body, ra) == Cardinality({r \in RewardAccounts(body) : LexLt(r, ra)})
\*   voting: voters ordered as the ledger's Map Voter: committee voters, then DReps, then pools (constructor order of Voter);
\*   within committee / DRep voters script-hash credentials come before key-hash credentials (constructor order of Credential), then
\*   hash bytes. Wire types: 0 committee key, 1 committee script, 2 DRep key, 3 DRep script, 4 pool. A voter is <<type, hash>>.
Voters(body) == IF HasK(body, 19) THEN LET v == GetK(body, 19) IN {<<Small(v.kids[2*j-1].kids[1].arg), v.kids[2*j-1].kids[2].str>> : j \in 1..(Len(v.kids) \div 2)} ELSE {}
VoterKey(v) == <<IF v[1] <= 1 THEN 0 ELSE IF v[1] <= 3 THEN 1 ELSE 2, IF v[1] \in {1, 3} THEN 0 ELSE 1, v[2]>>
VoterLedgerLt(a, b) == LET x == VoterKey(a) y == VoterKey(b) IN x[1] < y[1] \/ (x[1] = y[1] /\ (x[2] < y[2] \/ (x[2] = y[2] /\ LexLt(x[3], y[3]))))
VoteIxLedger(body, v) == Cardinality({w \in Voters(body) : VoterLedgerLt(w, v)})
\*   proposal procedure = [deposit, reward account, action, anchor]; action 0 = [0, prev, update, policy / null], action 2 = [2, withdrawals, policy / null]
PropPolicy(p) == LET g == p.kids[3] t == Small(g.kids[1].arg) IN IF t = 0 /\ g.kids[4].mt = 2 THEN {g.kids[4].str} ELSE IF t = 2 /\ g.kids[3].mt = 2 THEN {g.kids[3].str} ELSE {}
\*   proposing: position in the proposal sequence (0-based); -1 when absent
PropIx(B, body, propBytes) == LET ps == Elems(body, 20) S == {j \in 1..Len(ps) : Span(B, ps[j]) = propBytes} IN IF S = {} THEN -1 ELSE (CHOOSE j \in S : TRUE) - 1
\* ---- script-integrity preimage: redeemers bytes ++ datums bytes ++ language views (ledger's getLanguageView encoding)
\*   PlutusV1 (id 0): key = CBOR bytes h'00', value = CBOR bytes wrapping the INDEFINITE-length list of the cost parameters;
\*   PlutusV2/V3 (ids 1, 2): key = uint, value = definite-length list. Canonical key order: shorter encoded key first.
\*   when there are datums but no redeemers the format is A0 | datums | A0
LangView(v, costs) == IF v = 1 THEN EBytes(<<0>>) \o EBytes(EIndefArr([i \in 1..Len(costs) |-> ESInt(costs[i])]))
                      ELSE EUInt(FromSmall(v - 1)) \o EArr([i \in 1..Len(costs) |-> ESInt(costs[i])])
LangViews(langs, costOf(_)) == LET ord == <<2, 3, 1>> sel == SelectSeq(ord, LAMBDA v : v \in langs) IN
                               EMapH(Len(sel)) \o Flat([i \in 1..Len(sel) |-> LangView(sel[i], costOf(sel[i]))])
\* ---- Plutus execution cost and reference-script fee
SumExUnits(reds) == [mem |-> SumSeqN(Len(reds), LAMBDA j : ArgN(reds[j].exu.kids[1])), steps |-> SumSeqN(Len(reds), LAMBDA j : ArgN(reds[j].exu.kids[2]))]

\* ---- minimum fee: a * size + b (+ script and reference-script parts supplied by the caller)
LinearMinFee(size, a, b) == Add(Mul(a, FromSmall(size)), b)
====
