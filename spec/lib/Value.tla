---- MODULE Value ----
(* Multi-asset values: [coin |-> BigNat, ma |-> function from <<policy, name>>    *)
(* (byte strings) to BigNat]. The mathematical operations; a zero quantity is the *)
(* same as an absent entry.                                                       *)
EXTENDS BigNat, FiniteSets
EmptyMa == [x \in {} |-> Zero]
GetQ(ma, id) == IF id \in DOMAIN ma THEN ma[id] ELSE Zero
Norm(ma) == [id \in {x \in DOMAIN ma : ma[x] # Zero} |-> ma[id]]
MaAdd(a,b) == [id \in (DOMAIN a) \cup (DOMAIN b) |-> Add(GetQ(a,id), GetQ(b,id))]
MaLeq(a,b) == \A id \in DOMAIN a : Leq(a[id], GetQ(b,id))
MaMonus(a,b) == [id \in DOMAIN a |-> Monus(a[id], GetQ(b,id))]
VZero == [coin |-> Zero, ma |-> EmptyMa]
VCoin(c) == [coin |-> c, ma |-> EmptyMa]
VMa(ma) == [coin |-> Zero, ma |-> ma]
VAdd(v,w) == [coin |-> Add(v.coin, w.coin), ma |-> MaAdd(v.ma, w.ma)]
VEq(v,w) == v.coin = w.coin /\ Norm(v.ma) = Norm(w.ma)
VLeq(v,w) == Leq(v.coin, w.coin) /\ MaLeq(v.ma, w.ma)
\* exact difference, defined when VLeq(w, v)
VSub(v,w) == [coin |-> Sub(v.coin, w.coin), ma |-> MaMonus(v.ma, w.ma)]
VMonus(v,w) == [coin |-> Monus(v.coin, w.coin), ma |-> MaMonus(v.ma, w.ma)]
\* every component fits in 64 bits
VFits(v) == FitsU64(v.coin) /\ \A id \in DOMAIN v.ma : FitsU64(v.ma[id])
VIsZero(v) == v.coin = Zero /\ Norm(v.ma) = EmptyMa
VAssets(v) == DOMAIN Norm(v.ma)
\* from the trace JSON: {"coin_n":[..], "assets":[{"p":[..],"n":[..],"q_n":[..]}]} (repeated ids are summed)
JMa(assets) == LET ids == {<<assets[i].p, assets[i].n>> : i \in 1..Len(assets)}
                   RECURSIVE S(_,_,_)
                   S(id, i, acc) == IF i > Len(assets) THEN acc
                                    ELSE S(id, i+1, IF <<assets[i].p, assets[i].n>> = id THEN Add(acc, FromBE(assets[i].q_n)) ELSE acc)
               IN [id \in ids |-> S(id, 1, Zero)]
JVal(v) == [coin |-> FromBE(v.coin_n), ma |-> JMa(v.assets)]
SumSeqV(n, f(_)) == LET RECURSIVE G(_,_) G(j,acc) == IF j > n THEN acc ELSE LET a2 == VAdd(acc, f(j)) IN IF Len(a2.coin) >= 0 THEN G(j+1, a2) ELSE acc IN G(1, VZero)
SumSeqN(n, f(_)) == LET RECURSIVE G(_,_) G(j,acc) == IF j > n THEN acc ELSE LET a2 == Add(acc, f(j)) IN IF Len(a2) >= 0 THEN G(j+1, a2) ELSE acc IN G(1, Zero)
====
