---- MODULE ConwaySchema ----
(* The Conway-era transaction CDDL transcribed as CDDL.tla data (from the published    *)
(* ledger CDDL, from memory; specs/ in the repository stops at Shelley). Constraints     *)
(* that are not certain are left permissive (Any) and marked UNSURE, so the schema can   *)
(* only miss, never raise a false alarm.                                                 *)
EXTENDS CDDL
H28 == BytesR(28,28)
H32 == BytesR(32,32)
Coin == UInt
Addr == BytesR(1, 200)                 \* address payloads are classified by Address.tla (C11)
RewardAcct == BytesR(29, 29)
Url == TextR(0, 128)
Anchor == Arr(<<F(Url), F(H32)>>)
AnchorOrNull == Alt(<<Null, Anchor>>)
Cred == Arr(<<F(UIntMax(1)), F(H28)>>)
DRep == ArrV(<< Arr(<<F(Const(0)), F(H28)>>), Arr(<<F(Const(1)), F(H28)>>), Arr(<<F(Const(2))>>), Arr(<<F(Const(3))>>) >>)
UnitInterval == Tag(30, Arr(<<F(UInt), F(UInt)>>))
PoolMeta == Alt(<<Null, Arr(<<F(Url), F(H32)>>)>>)
PortN == Alt(<<Null, UIntMax(65535)>>)
Relay == ArrV(<< Arr(<<F(Const(0)), F(PortN), F(Alt(<<Null, BytesR(4,4)>>)), F(Alt(<<Null, BytesR(16,16)>>))>>),
                 Arr(<<F(Const(1)), F(PortN), F(TextR(0,128))>>),
                 Arr(<<F(Const(2)), F(TextR(0,128))>>) >>)
Schema == [
  transaction |-> Arr(<<F(Ref("body")), F(Ref("witness_set")), F(Bool), F(Alt(<<Null, Ref("auxiliary_data")>>))>>),
  body |-> Map(<<K(0, Set(Ref("input"), 0)), K(1, List(Ref("output"), 0)), K(2, Coin), Q(3, UInt), Q(4, Set(Ref("certificate"), 1)),
                 Q(5, Table(RewardAcct, Coin, 1)), Q(6, Arr(<<F(Table(H28, Ref("protocol_param_update"), 0)), F(U32)>>)), Q(7, H32), Q(8, UInt), Q(9, Ref("mint")), Q(11, H32),
                 Q(13, Set(Ref("input"), 1)), Q(14, Set(H28, 1)), Q(15, UIntMax(1)), Q(16, Ref("output")), Q(17, Coin),
                 Q(18, Set(Ref("input"), 1)), Q(19, Ref("voting_procedures")), Q(20, Set(Ref("proposal"), 1)), Q(21, Coin), Q(22, PosUInt)>>),
  input |-> Arr(<<F(H32), F(UIntMax(65535))>>),
  utxo |-> Arr(<<F(Ref("input")), F(Ref("output"))>>),                 \* TransactionUnspentOutput (CIP-30 exchange form)
  versioned_block |-> Arr(<<F(UIntMax(7)), F(Ref("block"))>>),
  output |-> Alt(<<Arr(<<F(Addr), F(Ref("value")), O(H32)>>),
                   OutMap(Map(<<K(0, Addr), K(1, Ref("value")), Q(2, Ref("datum_option")), Q(3, Cbor(Ref("script")))>>))>>),
  datum_option |-> ArrV(<< Arr(<<F(Const(0)), F(H32)>>), Arr(<<F(Const(1)), F(Cbor(Ref("plutus_data")))>>) >>),
  script |-> ArrV(<< Arr(<<F(Const(0)), F(Ref("native_script"))>>), Arr(<<F(Const(1)), F(BytesR(0, 100000))>>), NF(Arr(<<F(Const(2)), F(BytesR(0, 100000))>>), "plutus-v2v3"), NF(Arr(<<F(Const(3)), F(BytesR(0, 100000))>>), "plutus-v2v3") >>),
  script_ref |-> Cbor(Ref("script")),
  drep |-> DRep,
  value |-> Alt(<<Coin, Arr(<<F(Coin), F(TableS(H28, TableS(BytesR(0,32), PosUInt, 1), 1))>>)>>),
  mint |-> TableS(H28, TableS(BytesR(0,32), NzInt, 1), 1),
  pool_params |-> Any,
  certificate |-> ArrV(<<
      Arr(<<F(Const(0)), F(Cred)>>), Arr(<<F(Const(1)), F(Cred)>>), Arr(<<F(Const(2)), F(Cred), F(H28)>>),
      Arr(<<F(Const(3)), F(H28), F(H32), F(Coin), F(Coin), F(UnitInterval), F(RewardAcct), F(Set(H28, 0)), F(List(Relay, 0)), F(PoolMeta)>>),
      Arr(<<F(Const(4)), F(H28), F(UInt)>>),
      Arr(<<F(Const(5)), F(H28), F(H28), F(H32)>>),
      Arr(<<F(Const(6)), F(Arr(<<F(UIntMax(1)), F(Alt(<<Coin, Table(Cred, IntN, 0)>>))>>))>>),       \* move_instantaneous_reward (pre-Conway)
      Arr(<<F(Const(7)), F(Cred), F(Coin)>>), Arr(<<F(Const(8)), F(Cred), F(Coin)>>),
      Arr(<<F(Const(9)), F(Cred), F(DRep)>>), Arr(<<F(Const(10)), F(Cred), F(H28), F(DRep)>>),
      Arr(<<F(Const(11)), F(Cred), F(H28), F(Coin)>>), Arr(<<F(Const(12)), F(Cred), F(DRep), F(Coin)>>),
      Arr(<<F(Const(13)), F(Cred), F(H28), F(DRep), F(Coin)>>),
      Arr(<<F(Const(14)), F(Cred), F(Cred)>>), Arr(<<F(Const(15)), F(Cred), F(AnchorOrNull)>>),
      Arr(<<F(Const(16)), F(Cred), F(Coin), F(AnchorOrNull)>>), Arr(<<F(Const(17)), F(Cred), F(Coin)>>), Arr(<<F(Const(18)), F(Cred), F(AnchorOrNull)>>) >>),
  voter |-> Arr(<<F(UIntMax(4)), F(H28)>>),
  gov_action_id |-> Arr(<<F(H32), F(UIntMax(65535))>>),
  voting_procedure |-> Arr(<<F(UIntMax(2)), F(AnchorOrNull)>>),
  voting_procedures |-> Table(Ref("voter"), Table(Ref("gov_action_id"), Ref("voting_procedure"), 1), 1),
  proposal |-> Arr(<<F(Coin), F(RewardAcct), F(Ref("gov_action")), F(Anchor)>>),
  \* transcribed from the shapes quoted in the decoders' length checks (rust/src/serialization/governance/proposals/*.rs)
  gov_action |-> ArrV(<< Arr(<<F(Const(0)), F(Alt(<<Null, Ref("gov_action_id")>>)), F(Ref("protocol_param_update")), O(Alt(<<Null, H28>>))>>),
                         Arr(<<F(Const(1)), F(Alt(<<Null, Ref("gov_action_id")>>)), F(Arr(<<F(U32), F(U32)>>))>>),
                         Arr(<<F(Const(2)), F(Table(RewardAcct, Coin, 0)), O(Alt(<<Null, H28>>))>>),
                         Arr(<<F(Const(3)), F(Alt(<<Null, Ref("gov_action_id")>>))>>),
                         Arr(<<F(Const(4)), F(Alt(<<Null, Ref("gov_action_id")>>)), F(Set(Cred, 0)), F(Table(Cred, U32, 0)), F(UnitInterval)>>),
                         Arr(<<F(Const(5)), F(Alt(<<Null, Ref("gov_action_id")>>)), F(Arr(<<F(Anchor), F(Alt(<<Null, H28>>))>>))>>),
                         Arr(<<F(Const(6))>>) >>),
  \* keys and value types from rust/src/serialization/protocol_param_update.rs (12..14 are the pre-Conway keys the library still carries)
  protocol_param_update |-> Map(<<Q(0, Coin), Q(1, Coin), Q(2, U32), Q(3, U32), Q(4, U32), Q(5, Coin), Q(6, Coin), Q(7, U32), Q(8, U32), Q(9, UnitInterval), Q(10, UnitInterval), Q(11, UnitInterval),
                                 Q(12, UnitInterval), Q(13, ArrV(<<Arr(<<F(Const(0))>>), Arr(<<F(Const(1)), F(H32)>>)>>)), Q(14, Arr(<<F(U32), F(U32)>>)), Q(16, Coin), Q(17, Coin),
                                 Q(18, Table(UIntMax(2), List(IntN, 0), 0)), Q(19, Arr(<<F(UnitInterval), F(UnitInterval)>>)), Q(20, Ref("ex_units")), Q(21, Ref("ex_units")), Q(22, U32), Q(23, U32), Q(24, U32),
                                 Q(25, Arr(<<F(UnitInterval), F(UnitInterval), F(UnitInterval), F(UnitInterval), F(UnitInterval)>>)),
                                 Q(26, Arr(<<F(UnitInterval), F(UnitInterval), F(UnitInterval), F(UnitInterval), F(UnitInterval), F(UnitInterval), F(UnitInterval), F(UnitInterval), F(UnitInterval), F(UnitInterval)>>)),
                                 Q(27, U32), Q(28, U32), Q(29, U32), Q(30, Coin), Q(31, Coin), Q(32, U32), Q(33, UnitInterval)>>),
  \* block header in the nested (Babbage) and the flattened (Alonzo) form the decoder accepts (rust/src/serialization/block/header_body.rs)
  vrf_cert |-> Arr(<<F(BytesR(0, 64)), F(BytesR(80, 80))>>),
  operational_cert |-> Arr(<<F(H32), F(U32), F(U32), F(BytesR(64, 64))>>),
  header_body |-> Alt(<< NF(Arr(<<F(U32), F(UInt), F(Alt(<<Null, H32>>)), F(H32), F(H32), F(Ref("vrf_cert")), F(U32), F(H32), F(Ref("operational_cert")), F(Arr(<<F(U32), F(U32)>>))>>), "header-nested-form"),
                         Arr(<<F(U32), F(UInt), F(Alt(<<Null, H32>>)), F(H32), F(H32), F(Ref("vrf_cert")), F(Ref("vrf_cert")), F(U32), F(H32), F(H32), F(U32), F(U32), F(BytesR(64, 64)), F(U32), F(U32)>>),
                         \* what the library itself writes for the single-VRF-result form: certificate and version as embedded groups
                         Arr(<<F(U32), F(UInt), F(Alt(<<Null, H32>>)), F(H32), F(H32), F(Ref("vrf_cert")), F(U32), F(H32), F(H32), F(U32), F(U32), F(BytesR(64, 64)), F(U32), F(U32)>>) >>),
  header |-> Arr(<<F(Ref("header_body")), F(BytesR(448, 448))>>),
  block |-> Arr(<<F(Ref("header")), F(List(Ref("body"), 0)), F(List(Ref("witness_set"), 0)), F(Table(U32, Ref("auxiliary_data"), 0)), F(List(U32, 0))>>),
  witness_set |-> Map(<<Q(0, Set(Ref("vkeywitness"), 1)), Q(1, Set(Ref("native_script"), 1)), Q(2, Set(Ref("bootstrap_witness"), 1)),
                        Q(3, Set(BytesR(0, 100000), 1)), Q(4, SetP(Ref("plutus_data"), 1)), Q(5, Ref("redeemers")),
                        Q(6, NF(Set(BytesR(0, 100000), 1), "plutus-v2v3")), Q(7, NF(Set(BytesR(0, 100000), 1), "plutus-v2v3"))>>),
  vkeywitnesses |-> Set(Ref("vkeywitness"), 1),
  bootstrap_witnesses |-> Set(Ref("bootstrap_witness"), 1),
  vkeywitness |-> Arr(<<F(H32), F(BytesR(64,64))>>),
  bootstrap_witness |-> Arr(<<F(H32), F(BytesR(64,64)), F(H32), F(BytesR(0, 1000))>>),
  native_script |-> ArrV(<< Arr(<<F(Const(0)), F(H28)>>), Arr(<<F(Const(1)), F(List(Ref("native_script"), 0))>>), Arr(<<F(Const(2)), F(List(Ref("native_script"), 0))>>),
                            Arr(<<F(Const(3)), F(UInt), F(List(Ref("native_script"), 0))>>), Arr(<<F(Const(4)), F(UInt)>>), Arr(<<F(Const(5)), F(UInt)>>) >>),
  plutus_data |-> Alt(<< Ref("constr"), Table(Ref("plutus_data"), Ref("plutus_data"), 0), PList(Ref("plutus_data")), Ref("big_int"), BBytes >>),
  constr |-> Alt(<< Tag(121, PList(Ref("plutus_data"))), Tag(122, PList(Ref("plutus_data"))), Tag(123, PList(Ref("plutus_data"))), Tag(124, PList(Ref("plutus_data"))),
                    Tag(125, PList(Ref("plutus_data"))), Tag(126, PList(Ref("plutus_data"))), Tag(127, PList(Ref("plutus_data"))),
                    N("tagrange", 1280, 1400, PList(Ref("plutus_data"))),
                    Constr102(PList(Ref("plutus_data"))) >>),
  big_int |-> Alt(<< IntN, BigTag(2), BigTag(3) >>),
  ex_units |-> Arr(<<F(UInt), F(UInt)>>),
  redeemers |-> Alt(<< NF(List(Arr(<<F(UIntMax(5)), F(UInt), F(Ref("plutus_data")), F(Ref("ex_units"))>>), 1), "redeemers-array-form"),
                       Table(Arr(<<F(UIntMax(5)), F(UInt)>>), Arr(<<F(Ref("plutus_data")), F(Ref("ex_units"))>>), 1) >>),
  metadatum |-> Alt(<< MdInt, BytesR(0, 64), TextR(0, 64), List(Ref("metadatum"), 0), Table(Ref("metadatum"), Ref("metadatum"), 0) >>),
  metadata |-> IntMap(Ref("metadatum")),
  auxiliary_data |-> Alt(<< Ref("metadata"),
                            Arr(<<F(Ref("metadata")), F(List(Ref("native_script"), 0))>>),
                            Tag(259, Map(<<Q(0, Ref("metadata")), Q(1, List(Ref("native_script"), 0)), Q(2, List(BytesR(0, 100000), 0)), Q(3, NF(List(BytesR(0, 100000), 0), "plutus-v2v3")), Q(4, NF(List(BytesR(0, 100000), 0), "plutus-v2v3"))>>)) >>)
]
====
