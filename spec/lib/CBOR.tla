---- MODULE CBOR ----
(* Byte-level CBOR (RFC 8949) over Seq(0..255), written from the RFC; shares no  *)
(* code with the library or with cbor_event. Parse returns a generic item        *)
(*   [mt, ai, arg (big-endian head argument), kids, str, indef, chunks, lo, hi]  *)
(* with its byte span, or an error item (mt = -1, why).                          *)
EXTENDS Integers, Sequences, BigNat
ERR(why) == [mt |-> -1, ai |-> 0, arg |-> <<>>, kids |-> <<>>, str |-> <<>>, indef |-> FALSE, lo |-> 0, hi |-> 0, why |-> why, chunks |-> <<>>]
IsErr(it) == it.mt = -1
ArgLen(ai) == IF ai < 24 THEN 0 ELSE IF ai = 24 THEN 1 ELSE IF ai = 25 THEN 2 ELSE IF ai = 26 THEN 4 ELSE IF ai = 27 THEN 8 ELSE -1
\* small int from BE bytes, or -1 when >= 2^30
Small(be) == LET RECURSIVE G(_,_) G(i,acc) == IF i > Len(be) THEN acc ELSE IF acc >= 4194304 THEN -1 ELSE G(i+1, acc*256+be[i]) IN G(1,0)
Mk(mt, ai, arg, lo, hi) == [mt |-> mt, ai |-> ai, arg |-> arg, kids |-> <<>>, str |-> <<>>, indef |-> FALSE, lo |-> lo, hi |-> hi, why |-> "", chunks |-> <<>>]
RECURSIVE Item(_,_), Kids(_,_,_,_), UntilBreak(_,_,_), Chunks(_,_,_,_)
Item(B,i) ==
  IF i > Len(B) THEN ERR("eof") ELSE
  LET ib == B[i] mt == ib \div 32 ai == ib % 32 al == ArgLen(ai) IN
  IF ai = 31 THEN
     (IF mt \in {4,5} THEN UntilBreak(B, i+1, [Mk(mt, 31, <<>>, i, i) EXCEPT !.indef = TRUE])
      ELSE IF mt \in {2,3} THEN Chunks(B, i+1, mt, [Mk(mt, 31, <<>>, i, i) EXCEPT !.indef = TRUE])
      ELSE IF mt = 7 THEN [Mk(7, 31, <<>>, i, i) EXCEPT !.why = "break"]
      ELSE ERR("indef-bad-type"))
  ELSE IF al < 0 THEN ERR("reserved-ai")
  ELSE IF i + al > Len(B) THEN ERR("eof-head")
  ELSE
  LET be == IF ai < 24 THEN <<ai>> ELSE SubSeq(B, i+1, i+al)
      nx == i + 1 + al
      n  == Small(be) IN
  CASE mt \in {0,1} -> Mk(mt, ai, be, i, nx-1)
    [] mt = 7 -> Mk(7, ai, be, i, nx-1)
    [] mt \in {2,3} -> IF n < 0 THEN ERR("huge-string") ELSE IF nx + n - 1 > Len(B) THEN ERR("eof-string")
                       ELSE [Mk(mt, ai, be, i, nx+n-1) EXCEPT !.str = SubSeq(B, nx, nx+n-1)]
    [] mt = 4 -> IF n < 0 THEN ERR("huge-array") ELSE IF n > Len(B) - nx + 1 THEN ERR("eof-array") ELSE Kids(B, nx, n, Mk(4, ai, be, i, nx-1))
    [] mt = 5 -> IF n < 0 THEN ERR("huge-map") ELSE IF 2*n > Len(B) - nx + 1 THEN ERR("eof-map") ELSE Kids(B, nx, 2*n, Mk(5, ai, be, i, nx-1))
    [] mt = 6 -> LET k == Item(B, nx) IN IF IsErr(k) THEN k ELSE IF k.why = "break" THEN ERR("break-in-tag")
                 ELSE [Mk(6, ai, be, i, k.hi) EXCEPT !.kids = <<k>>]
Kids(B,i,n,acc) == IF n = 0 THEN acc ELSE
    LET k == Item(B,i) IN IF IsErr(k) THEN k ELSE IF k.why = "break" THEN ERR("break-in-definite")
    ELSE Kids(B, k.hi+1, n-1, [acc EXCEPT !.kids = Append(@,k), !.hi = k.hi])
UntilBreak(B,i,acc) ==
    LET k == Item(B,i) IN IF IsErr(k) THEN k
    ELSE IF k.why = "break" THEN (IF acc.mt = 5 /\ Len(acc.kids) % 2 = 1 THEN ERR("odd-map") ELSE [acc EXCEPT !.hi = k.hi])
    ELSE UntilBreak(B, k.hi+1, [acc EXCEPT !.kids = Append(@,k), !.hi = k.hi])
Chunks(B,i,mt,acc) ==
    LET k == Item(B,i) IN IF IsErr(k) THEN k
    ELSE IF k.why = "break" THEN [acc EXCEPT !.hi = k.hi]
    ELSE IF k.mt # mt \/ k.indef THEN ERR("bad-chunk")
    ELSE Chunks(B, k.hi+1, mt, [acc EXCEPT !.str = @ \o k.str, !.chunks = Append(@, Len(k.str)), !.hi = k.hi])
Parse(B) == LET it == Item(B,1) IN IF IsErr(it) THEN it ELSE IF it.why = "break" THEN ERR("lone-break")
            ELSE IF it.hi # Len(B) THEN ERR("trailing") ELSE it
WellFormed(B) == ~IsErr(Parse(B))
\* numeric value of the head argument as BigNat
ArgN(it) == FromBE(it.arg)
\* shortest-form head?
ShortestHead(it) == LET n == Strip(Rev(it.arg)) l == Len(n) IN
   IF it.indef THEN FALSE
   ELSE IF it.ai < 24 THEN TRUE
   ELSE IF it.ai = 24 THEN l = 1 /\ n[1] >= 24
   ELSE IF it.ai = 25 THEN l = 2
   ELSE IF it.ai = 26 THEN l \in {3,4}
   ELSE l >= 5
Span(B, it) == SubSeq(B, it.lo, it.hi)

\* ---------------------------------------------------------------- encoders
\* head of major type mt with argument n (BigNat) in the shortest form
CHead(mt, n) == LET l == Len(n) IN
   IF l = 0 THEN <<mt*32>>
   ELSE IF l = 1 /\ n[1] < 24 THEN <<mt*32 + n[1]>>
   ELSE IF l = 1 THEN <<mt*32 + 24>> \o ToBE(n,1)
   ELSE IF l = 2 THEN <<mt*32 + 25>> \o ToBE(n,2)
   ELSE IF l <= 4 THEN <<mt*32 + 26>> \o ToBE(n,4)
   ELSE <<mt*32 + 27>> \o ToBE(n,8)
\* head with a chosen argument width w \in {0,1,2,4,8} (0 = immediate)
CHeadW(mt, n, w) == IF w = 0 THEN <<mt*32 + Limb(n,1)>>
   ELSE <<mt*32 + (CASE w = 1 -> 24 [] w = 2 -> 25 [] w = 4 -> 26 [] w = 8 -> 27)>> \o ToBE(n, w)
HeadLen(n) == Len(CHead(0, n))
EUInt(n) == CHead(0, n)
ENInt(n) == CHead(1, n)                     \* encodes -1-n
ESInt(x) == IF x.neg THEN ENInt(Sub(x.mag, One)) ELSE EUInt(x.mag)
EBytes(s) == CHead(2, FromSmall(Len(s))) \o s
EText(s) == CHead(3, FromSmall(Len(s))) \o s
EArrH(n) == CHead(4, FromSmall(n))
EMapH(n) == CHead(5, FromSmall(n))
ETag(t) == CHead(6, FromSmall(t))
Flat(ss) == LET RECURSIVE G(_,_) G(i,acc) == IF i > Len(ss) THEN acc ELSE G(i+1, acc \o ss[i]) IN G(1, <<>>)
EArr(ss) == EArrH(Len(ss)) \o Flat(ss)
EIndefArr(ss) == <<159>> \o Flat(ss) \o <<255>>
ENull == <<246>>
ETrue == <<245>>
EFalse == <<244>>
\* ---------------------------------------------------------------- accessors
IsUIntIt(it) == it.mt = 0
IsBytesIt(it) == it.mt = 2
NKids(it) == Len(it.kids)
\* number of entries of a map item
NEntries(it) == Len(it.kids) \div 2
MapKey(it, e) == it.kids[2*e-1]
MapVal(it, e) == it.kids[2*e]
\* signed value of an int item
SIntOf(it) == IF it.mt = 0 THEN SPos(ArgN(it)) ELSE SI(TRUE, Add(ArgN(it), One))
\* structural equality of two items ignoring spans and encoding choices
RECURSIVE SameData(_,_)
SameData(a,b) == /\ a.mt = b.mt
                 /\ (a.mt \in {0,1,6,7} => ArgN(a) = ArgN(b))
                 /\ (a.mt \in {2,3} => a.str = b.str)
                 /\ Len(a.kids) = Len(b.kids)
                 /\ \A j \in 1..Len(a.kids) : SameData(a.kids[j], b.kids[j])
\* equal as ENCODED items (same data and the same encoding choices): two datums of one value in two encodings are two datums
RECURSIVE SameEnc(_,_)
SameEnc(a,b) == /\ a.mt = b.mt /\ a.ai = b.ai /\ a.arg = b.arg /\ a.indef = b.indef /\ a.str = b.str /\ a.chunks = b.chunks
                /\ Len(a.kids) = Len(b.kids) /\ \A j \in 1..Len(a.kids) : SameEnc(a.kids[j], b.kids[j])
\* the same, but map entries may come in another order (content of a value whose maps were not filled in ascending order)
RECURSIVE SameContent(_,_)
SameContent(a,b) == /\ a.mt = b.mt
                    /\ (a.mt \in {0,1,6,7} => ArgN(a) = ArgN(b))
                    /\ (a.mt \in {2,3} => a.str = b.str)
                    /\ Len(a.kids) = Len(b.kids)
                    /\ IF a.mt # 5 THEN \A j \in 1..Len(a.kids) : SameContent(a.kids[j], b.kids[j])
                       ELSE LET n == Len(a.kids) \div 2 IN
                            /\ \A i \in 1..n : \E j \in 1..n : SameContent(a.kids[2*i-1], b.kids[2*j-1]) /\ SameContent(a.kids[2*i], b.kids[2*j])
                            /\ \A j \in 1..n : \E i \in 1..n : SameContent(a.kids[2*i-1], b.kids[2*j-1]) /\ SameContent(a.kids[2*i], b.kids[2*j])
====
