---- MODULE CDDLGen ----
(* Schema-directed instance generator (DESIGN B.1): Default gives one conforming tree   *)
(* per schema node, Variants the alternatives AT a node (every variant, optional field,  *)
(* integer width class, collection size class), and K1 all instances that differ from    *)
(* the default by exactly one such choice anywhere in the tree (each-choice coverage).   *)
(* Trees are Encodings.tla trees; Canon(tree) are their canonical bytes.                 *)
EXTENDS CDDL, Encodings
Fill(n, v) == [i \in 1..n |-> v]
UVals == {Zero, FromSmall(23), FromSmall(24), FromSmall(255), FromSmall(256), FromSmall(65535), FromSmall(65536), Sub(Pow2(32), One), Pow2(32), P63, U64Max}
DefAddr == <<97>> \o Fill(28, 7)                 \* enterprise address, key credential, main net
DefReward == <<225>> \o Fill(28, 8)              \* reward account, key credential, main net
\* further address payloads (an output carries ANY address): Byron addresses with no / one / both attributes (frozen bytes with valid
\* CRC, classified and CRC-checked by the C11 machinery), a pointer address with 10-byte naturals, script and test-net headers
ByronIcarusMain == <<130, 216, 24, 88, 33, 131, 88, 28, 91, 12, 246, 250, 90, 153, 88, 61, 18, 172, 144, 211, 233, 105, 194, 220, 223, 248, 194, 177, 122, 111, 233, 229, 11, 111, 219, 59, 160, 0, 26, 145, 219, 202, 193>>
ByronPathMain == <<130, 216, 24, 88, 64, 131, 88, 28, 91, 12, 246, 250, 90, 153, 88, 61, 18, 172, 144, 211, 233, 105, 194, 220, 223, 248, 194, 177, 122, 111, 233, 229, 11, 111, 219, 59, 161, 1, 88, 28, 0, 1, 2, 3, 4, 5, 6, 7, 8, 9, 10, 11, 12, 13, 14, 15, 16, 17, 18, 19, 20, 21, 22, 23, 24, 25, 26, 27, 0, 26, 237, 219, 202, 216>>
ByronMagicTest == <<130, 216, 24, 88, 40, 131, 88, 28, 81, 77, 23, 145, 13, 82, 244, 179, 29, 42, 7, 127, 37, 178, 177, 137, 157, 37, 32, 45, 182, 196, 101, 167, 74, 198, 196, 129, 161, 2, 69, 26, 65, 112, 203, 23, 0, 26, 182, 120, 126, 22>>
ByronBothTest == <<130, 216, 24, 88, 71, 131, 88, 28, 81, 77, 23, 145, 13, 82, 244, 179, 29, 42, 7, 127, 37, 178, 177, 137, 157, 37, 32, 45, 182, 196, 101, 167, 74, 198, 196, 129, 162, 1, 88, 28, 0, 1, 2, 3, 4, 5, 6, 7, 8, 9, 10, 11, 12, 13, 14, 15, 16, 17, 18, 19, 20, 21, 22, 23, 24, 25, 26, 27, 2, 69, 26, 65, 112, 203, 23, 0, 26, 6, 180, 232, 122>>
PtrBig == <<65>> \o Fill(28, 7) \o <<129, 255, 255, 255, 255, 255, 255, 255, 255, 127, 129, 255, 255, 255, 255, 255, 255, 255, 255, 126, 1>>
AddrVariants == {ByronIcarusMain, ByronPathMain, ByronMagicTest, ByronBothTest, PtrBig, <<16>> \o Fill(28, 7) \o Fill(28, 9), <<0>> \o Fill(28, 7) \o Fill(28, 9), <<112>> \o Fill(28, 7), <<240>> \o Fill(28, 7)}
RECURSIVE Default(_,_)
Default(S, s) ==
  CASE s.k = "ref" -> Default(S, S[s.a])
    [] s.k = "nf" -> Default(S, s.a[1])
    [] s.k = "outmap" -> Default(S, s.a)
    [] s.k = "bigtag" -> T(s.a, Bs(<<1, 0, 0, 0, 0, 0, 0, 0, 0>>))
    [] s.k = "constr102" -> T(102, A(<<U(FromSmall(128)), A(<<>>)>>))
    [] s.k \in {"any", "uintmax"} -> U(Zero)
    [] s.k \in {"uint", "posuint", "int", "nzint", "mdint", "u32"} -> U(One)
    [] s.k = "const" -> U(FromSmall(s.a))
    [] s.k = "null" -> Sp(246)
    [] s.k = "bool" -> Sp(245)
    [] s.k = "bytes" -> IF s.a = 1 /\ s.b = 200 THEN Bs(DefAddr) ELSE IF s.a = 29 /\ s.b = 29 THEN Bs(DefReward) ELSE Bs(Fill(IF s.a > 0 THEN s.a ELSE 1, 7))
    [] s.k = "text" -> Tx(Fill(IF s.a > 0 THEN s.a ELSE 1, 97))
    [] s.k = "tag" -> T(s.a, Default(S, s.b))
    [] s.k = "tagrange" -> T(s.a, Default(S, s.c))
    [] s.k = "arr" -> A([i \in 1..Cardinality({j \in 1..Len(s.a) : ~s.a[j].opt}) |-> Default(S, s.a[i].t)])
    [] s.k = "list" -> A([i \in 1..s.b |-> Default(S, s.a)])
    [] s.k = "set" -> T(258, A([i \in 1..(IF s.b > 0 THEN 1 ELSE 0) |-> Default(S, s.a)]))
    [] s.k = "setp" -> T(258, IF s.b > 0 THEN [k |-> "iarr", xs |-> <<Default(S, s.a)>>] ELSE A(<<>>))
    [] s.k = "map" -> LET req == SelectSeq(s.a, LAMBDA f : f.req) IN M([i \in 1..Len(req) |-> <<U(FromSmall(req[i].key)), Default(S, req[i].t)>>])
    [] s.k \in {"table", "tables"} -> M([i \in 1..(IF s.c > 0 THEN 1 ELSE 0) |-> <<Default(S, s.a), Default(S, s.b)>>])
    [] s.k = "intmap" -> M(<<>>)
    [] s.k \in {"alt", "arrv"} -> Default(S, s.a[1])
    [] s.k = "plist" -> A(<<>>)
    [] s.k = "bbytes" -> Bs(<<1, 2, 3>>)
    [] s.k = "cbor" -> T(24, Bs(Canon(Default(S, s.a))))
\* the alternatives at this node (not descending)
RECURSIVE Variants(_,_)
Variants(S, s) ==
  CASE s.k = "ref" -> Variants(S, S[s.a])
    [] s.k = "nf" -> Variants(S, s.a[1])
    [] s.k = "outmap" -> Variants(S, s.a)
    [] s.k = "bigtag" -> {T(s.a, Bs(<<1, 2, 3>>)), T(s.a, Bs(<<0, 1, 0, 0, 0, 0, 0, 0, 0, 0>>)), T(s.a, Bs(<<255, 255, 255, 255, 255, 255, 255, 255>>)),
                          T(s.a, Bs(Fill(64, 9))), T(s.a, [k |-> "cbytes", s |-> Fill(65, 9)])}
    [] s.k = "constr102" -> {T(102, A(<<U(v), A(<<>>)>>)) : v \in {One, FromSmall(127), FromSmall(128), U64Max}}
    [] s.k = "mdint" -> {U(v) : v \in UVals} \cup {NI(v) : v \in UVals}
    [] s.k = "uint" -> {U(v) : v \in UVals}
    [] s.k = "u32" -> {U(v) : v \in {Zero, FromSmall(23), FromSmall(24), FromSmall(255), FromSmall(256), FromSmall(65535), FromSmall(65536), Sub(Pow2(32), One)}}
    [] s.k = "posuint" -> {U(v) : v \in UVals \ {Zero}}
    [] s.k = "int" -> {U(v) : v \in UVals} \cup {NI(v) : v \in UVals}
    [] s.k = "nzint" -> {U(v) : v \in UVals \ {Zero}} \cup {NI(v) : v \in {Zero, FromSmall(23), FromSmall(24), Sub(P63, One)}}
    [] s.k = "uintmax" -> {U(Zero), U(FromSmall(s.a))}
    [] s.k = "bool" -> {Sp(244), Sp(245)}
    [] s.k = "bytes" -> IF s.a = 1 /\ s.b = 200 THEN {Bs(a) : a \in AddrVariants} ELSE IF s.a = s.b THEN {} ELSE {Bs(Fill(s.a, 5)), Bs(Fill(IF s.b > 66 THEN 66 ELSE s.b, 5))}
    [] s.k = "text" -> {Tx(Fill(s.a, 98)), Tx(Fill(s.b, 98))}
    [] s.k = "arr" -> {A([i \in 1..n |-> Default(S, s.a[i].t)]) : n \in {m \in 1..Len(s.a) : s.a[m].opt}}
    [] s.k = "list" -> {A([i \in 1..n |-> Default(S, s.a)]) : n \in {m \in 0..2 : m >= s.b}}
    [] s.k = "set" -> {T(258, A(<<>>)) : x \in {1} \cap {y \in {1} : s.b = 0}} \cup {T(258, A(<<Default(S, s.a)>>)), A(<<Default(S, s.a)>>)}
    \* also: two datums of one value in two encodings (two elements), and two different datums
    [] s.k = "setp" -> {T(258, [k |-> "iarr", xs |-> <<Default(S, s.a)>>]),
                        T(258, [k |-> "iarr", xs |-> <<T(121, A(<<>>)), T(121, [k |-> "iarr", xs |-> <<>>])>>]),
                        T(258, [k |-> "iarr", xs |-> <<A(<<U(One)>>), [k |-> "iarr", xs |-> <<U(One)>>], Bs(<<170, 187>>)>>])}
    \* (index sets, not sets of field sequences: TLC cannot order schema nodes of different shapes)
    [] s.k = "map" -> LET MkMapV(sel) == LET ix == SelectSeq([i \in 1..Len(s.a) |-> i], LAMBDA i : i \in sel) IN M([q \in 1..Len(ix) |-> <<U(FromSmall(s.a[ix[q]].key)), Default(S, s.a[ix[q]].t)>>]) IN
                      {MkMapV({j \in 1..Len(s.a) : s.a[j].req \/ j = k}) : k \in {i \in 1..Len(s.a) : ~s.a[i].req}} \cup {MkMapV(1..Len(s.a))}
    [] s.k \in {"table", "tables"} -> {M([i \in 1..n |-> <<Default(S, s.a), Default(S, s.b)>>]) : n \in {m \in 0..1 : m >= s.c}}
    [] s.k = "intmap" -> {M(<<>>), M(<< <<U(One), Default(S, s.a)>> >>), M(<< <<U(One), Default(S, s.a)>>, <<U(U64Max), Default(S, s.a)>> >>),
                          M(<< <<U(U64Max), Default(S, s.a)>>, <<U(One), Default(S, s.a)>> >>),
                          M(<< <<U(FromSmall(9)), Default(S, s.a)>>, <<U(FromSmall(10)), Default(S, s.a)>>, <<U(FromSmall(674)), Default(S, s.a)>>, <<U(FromSmall(1000)), Default(S, s.a)>> >>)}
    [] s.k \in {"alt", "arrv"} -> {Default(S, s.a[j]) : j \in 1..Len(s.a)}
    [] s.k = "plist" -> {A(<<>>), [k |-> "iarr", xs |-> <<Default(S, s.a)>>], [k |-> "iarr", xs |-> <<Default(S, s.a), Default(S, s.a)>>]}
    [] s.k = "bbytes" -> {Bs(<<>>), Bs(Fill(64, 9)), [k |-> "cbytes", s |-> Fill(65, 9)], [k |-> "cbytes", s |-> Fill(130, 9)]}
    [] s.k = "tagrange" -> {T(s.a, Default(S, s.c)), T(s.b, Default(S, s.c))}
    [] OTHER -> {}
\* all instances with exactly one non-default choice, to schema depth d
RECURSIVE K1(_,_,_)
K1(S, s, d) ==
  IF d = 0 THEN {} ELSE
  Variants(S, s) \cup
  (CASE s.k = "ref" -> K1(S, S[s.a], d - 1)
     [] s.k = "nf" -> K1(S, s.a[1], d)
     [] s.k = "outmap" -> K1(S, s.a, d)
     [] s.k = "constr102" -> {T(102, A(<<U(FromSmall(128)), x>>)) : x \in K1(S, s.a, d)}
     [] s.k = "tag" -> {T(s.a, x) : x \in K1(S, s.b, d)}
     [] s.k = "tagrange" -> {T(s.a, x) : x \in K1(S, s.c, d)}
     [] s.k = "arr" -> LET n == Cardinality({j \in 1..Len(s.a) : ~s.a[j].opt}) dflt == [i \in 1..n |-> Default(S, s.a[i].t)] IN
                       UNION {{A([dflt EXCEPT ![i] = x]) : x \in K1(S, s.a[i].t, d)} : i \in 1..n}
     [] s.k = "list" -> {A(<<x>>) : x \in K1(S, s.a, d)}
     [] s.k = "set" -> {T(258, A(<<x>>)) : x \in K1(S, s.a, d)}
     [] s.k = "setp" -> {T(258, [k |-> "iarr", xs |-> <<x>>]) : x \in K1(S, s.a, d)}
     [] s.k = "map" -> LET req == SelectSeq(s.a, LAMBDA f : f.req)
                           dflt == [i \in 1..Len(req) |-> <<U(FromSmall(req[i].key)), Default(S, req[i].t)>>] IN
                       UNION {{M([dflt EXCEPT ![i] = <<U(FromSmall(req[i].key)), x>>]) : x \in K1(S, req[i].t, d)} : i \in 1..Len(req)}
                       \cup UNION {{M(Append(dflt, <<U(FromSmall(s.a[j].key)), x>>)) : x \in K1(S, s.a[j].t, d)} : j \in {i \in 1..Len(s.a) : ~s.a[i].req}}
     [] s.k \in {"table", "tables"} -> {M(<< <<Default(S, s.a), x>> >>) : x \in K1(S, s.b, d)} \cup {M(<< <<x, Default(S, s.b)>> >>) : x \in K1(S, s.a, d)}
     [] s.k = "intmap" -> {M(<< <<U(One), x>> >>) : x \in K1(S, s.a, d)}
     [] s.k \in {"alt", "arrv"} -> UNION {K1(S, s.a[j], d) : j \in 1..Len(s.a)}
     [] s.k = "plist" -> {[k |-> "iarr", xs |-> <<x>>] : x \in K1(S, s.a, d)}
     [] s.k = "cbor" -> {T(24, Bs(CanonX(x))) : x \in K1(S, s.a, d)}
     [] OTHER -> {})
====
