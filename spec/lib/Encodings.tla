---- MODULE Encodings ----
(* CBOR data items as TLA+ trees and the set of their encodings obtained by one      *)
(* (or more) non-canonical choices: definite <-> indefinite containers, wider heads,  *)
(* chunked strings, swapped / duplicated map entries, dropped tags. Used to generate  *)
(* "every encoding the decoder accepts" systematically (C04) and structure-aware      *)
(* mutants (C02).                                                                     *)
EXTENDS BigNat, CBOR
U(n) == [k |-> "uint", n |-> n]
NI(n) == [k |-> "nint", n |-> n]
Bs(s) == [k |-> "bytes", s |-> s]
Tx(s) == [k |-> "text", s |-> s]
A(xs) == [k |-> "arr", xs |-> xs]
M(kvs) == [k |-> "map", kvs |-> kvs]          \* sequence of <<key tree, value tree>>
T(t, x) == [k |-> "tag", t |-> t, x |-> x]
Sp(b) == [k |-> "simple", b |-> b]            \* one byte: 246 null, 245 true, 244 false
Raw(b) == [k |-> "raw", b |-> b]              \* bytes spliced in verbatim
\* deviation kinds applicable at a node
DevKinds(t) == CASE t.k \in {"uint", "nint"} -> {"w1", "w2", "w4", "w8"}
                 [] t.k \in {"bytes", "text"} -> {"chunk1", "chunk2", "wide"}
                 [] t.k = "arr" -> {"indef", "wide"}
                 [] t.k = "map" -> {"indef", "wide", "swap", "dupkey"}
                 [] t.k = "tag" -> {"drop", "wide"}
                 [] OTHER -> {}
Width(w) == CASE w = "w1" -> 1 [] w = "w2" -> 2 [] w = "w4" -> 4 [] w = "w8" -> 8
MinWidth(n) == LET l == Len(n) IN IF l = 0 \/ (l = 1 /\ n[1] < 24) THEN 0 ELSE IF l = 1 THEN 1 ELSE IF l = 2 THEN 2 ELSE IF l <= 4 THEN 4 ELSE 8
NextWidth(n) == LET m == MinWidth(n) IN IF m = 0 THEN 1 ELSE IF m = 8 THEN 8 ELSE 2 * m
HeadDev(mt, n, dev) == IF dev = "wide" THEN CHeadW(mt, n, NextWidth(n)) ELSE IF dev \in {"w1", "w2", "w4", "w8"} /\ Width(dev) >= MinWidth(n) THEN CHeadW(mt, n, Width(dev)) ELSE CHead(mt, n)
\* Enc(t, path, dp, dk): encoding of t where the node at path dp takes deviation dk (dp = <<-1>>: canonical everywhere)
RECURSIVE Enc(_,_,_,_)
Enc(t, path, dp, dk) ==
  LET here == path = dp
      d == IF here THEN dk ELSE "none"
      kid(x, i) == Enc(x, Append(path, i), dp, dk) IN
  CASE t.k = "uint" -> HeadDev(0, t.n, d)
    [] t.k = "nint" -> HeadDev(1, t.n, d)
    [] t.k \in {"bytes", "text"} ->
         LET mt == IF t.k = "bytes" THEN 2 ELSE 3 n == Len(t.s) IN
         IF d = "chunk1" THEN <<mt * 32 + 31>> \o CHead(mt, FromSmall(n)) \o t.s \o <<255>>
         ELSE IF d = "chunk2" /\ n >= 2 THEN <<mt * 32 + 31>> \o CHead(mt, FromSmall(1)) \o SubSeq(t.s, 1, 1) \o CHead(mt, FromSmall(n - 1)) \o SubSeq(t.s, 2, n) \o <<255>>
         ELSE HeadDev(mt, FromSmall(n), d) \o t.s
    [] t.k = "arr" -> LET body == Flat([i \in 1..Len(t.xs) |-> kid(t.xs[i], i)]) IN
                      IF d = "indef" THEN <<159>> \o body \o <<255>> ELSE HeadDev(4, FromSmall(Len(t.xs)), d) \o body
    [] t.k = "map" ->
         LET ent(i) == kid(t.kvs[i][1], 2 * i - 1) \o kid(t.kvs[i][2], 2 * i)
             n == Len(t.kvs)
             order == IF d = "swap" /\ n >= 2 THEN <<2, 1>> \o [i \in 1..(n - 2) |-> i + 2] ELSE IF d = "dupkey" /\ n >= 1 THEN <<1>> \o [i \in 1..n |-> i] ELSE [i \in 1..n |-> i]
             body == Flat([i \in 1..Len(order) |-> ent(order[i])]) IN
         IF d = "indef" THEN <<191>> \o body \o <<255>> ELSE HeadDev(5, FromSmall(Len(order)), d) \o body
    [] t.k = "tag" -> IF d = "drop" THEN kid(t.x, 1) ELSE HeadDev(6, FromSmall(t.t), d) \o kid(t.x, 1)
    [] t.k = "iarr" -> <<159>> \o Flat([i \in 1..Len(t.xs) |-> kid(t.xs[i], i)]) \o <<255>>
    [] t.k = "cbytes" -> LET n == Len(t.s) nch == (n + 63) \div 64 IN
                         <<95>> \o Flat([c \in 1..nch |-> LET lo == 64 * (c - 1) + 1 hi == IF 64 * c < n THEN 64 * c ELSE n IN CHead(2, FromSmall(hi - lo + 1)) \o SubSeq(t.s, lo, hi)]) \o <<255>>
    [] t.k = "simple" -> <<t.b>>
    [] t.k = "raw" -> t.b
\* all node paths of a tree
RECURSIVE Paths(_,_)
Paths(t, path) == {path} \cup
  (CASE t.k \in {"arr", "iarr"} -> UNION {Paths(t.xs[i], Append(path, i)) : i \in 1..Len(t.xs)}
     [] t.k = "map" -> UNION {Paths(t.kvs[i][1], Append(path, 2 * i - 1)) \cup Paths(t.kvs[i][2], Append(path, 2 * i)) : i \in 1..Len(t.kvs)}
     [] t.k = "tag" -> Paths(t.x, Append(path, 1))
     [] OTHER -> {})
RECURSIVE NodeAt(_,_,_)
NodeAt(t, path, i) == IF i > Len(path) THEN t
   ELSE CASE t.k \in {"arr", "iarr"} -> NodeAt(t.xs[path[i]], path, i + 1)
          [] t.k = "map" -> NodeAt(t.kvs[(path[i] + 1) \div 2][IF path[i] % 2 = 1 THEN 1 ELSE 2], path, i + 1)
          [] t.k = "tag" -> NodeAt(t.x, path, i + 1)
\* every single deviation of a tree: set of <<path, kind>>
Deviations(t) == UNION {{<<p, dk>> : dk \in DevKinds(NodeAt(t, p, 1))} : p \in Paths(t, <<>>)}
Canon(t) == Enc(t, <<>>, <<-1>>, "none")
CanonX(t) == Canon(t)
====
