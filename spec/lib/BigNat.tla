---- MODULE BigNat ----
(* Natural numbers beyond TLC's 32-bit integers: little-endian sequences of     *)
(* base-256 limbs, normalised (no high zero limb; zero is <<>>). A CBOR head    *)
(* argument is a big-endian limb string, so FromBE/ToBE are the only bridge.    *)
(* Signed integers are records [neg, mag]; rationals are pairs compared by      *)
(* cross-multiplication; floors and ceilings are CHECKED by bracketing.         *)
EXTENDS Integers, Sequences

RECURSIVE Strip(_)
Strip(s) == IF s = <<>> THEN s ELSE IF s[Len(s)] = 0 THEN Strip(SubSeq(s,1,Len(s)-1)) ELSE s
Rev(s) == [i \in 1..Len(s) |-> s[Len(s)+1-i]]
FromBE(b) == Strip(Rev(b))
Limb(s,i) == IF i <= Len(s) THEN s[i] ELSE 0
Max(a,b) == IF a > b THEN a ELSE b
Min(a,b) == IF a < b THEN a ELSE b
Zero == <<>>
One == <<1>>
\* 0 <= n < 2^31
FromSmall(n) == Strip(<<n % 256, (n \div 256) % 256, (n \div 65536) % 256, (n \div 16777216)>>)
\* value as a TLC integer, or -1 when it does not fit in 30 bits
ToSmall(a) == IF Len(a) > 4 \/ (Len(a) = 4 /\ a[4] >= 64) THEN -1
              ELSE Limb(a,1) + 256*Limb(a,2) + 65536*Limb(a,3) + 16777216*Limb(a,4)

RECURSIVE AddC(_,_,_,_,_)
AddC(a,b,i,c,acc) == IF i > Max(Len(a),Len(b)) THEN (IF c = 0 THEN acc ELSE Append(acc,c))
   ELSE LET t == Limb(a,i)+Limb(b,i)+c IN AddC(a,b,i+1,t \div 256, Append(acc, t % 256))
Add(a,b) == AddC(a,b,1,0,<<>>)

RECURSIVE CmpC(_,_,_)
CmpC(a,b,i) == IF i = 0 THEN 0 ELSE IF a[i] < b[i] THEN -1 ELSE IF a[i] > b[i] THEN 1 ELSE CmpC(a,b,i-1)
Cmp(a,b) == IF Len(a) < Len(b) THEN -1 ELSE IF Len(a) > Len(b) THEN 1 ELSE CmpC(a,b,Len(a))
Leq(a,b) == Cmp(a,b) <= 0
Lt(a,b) == Cmp(a,b) < 0
Geq(a,b) == Cmp(a,b) >= 0
MaxN(a,b) == IF Lt(a,b) THEN b ELSE a
MinN(a,b) == IF Lt(a,b) THEN a ELSE b

\* m < 2^22 so that a[i]*m + c stays below 2^31
RECURSIVE MulSmallC(_,_,_,_,_)
MulSmallC(a,m,i,c,acc) == IF i > Len(a) THEN (IF c = 0 THEN acc ELSE acc \o FromSmall(c))
   ELSE LET t == a[i]*m + c IN MulSmallC(a,m,i+1,t \div 256, Append(acc, t % 256))
MulSmall(a,m) == Strip(MulSmallC(a,m,1,0,<<>>))
Shift(a,k) == IF a = <<>> THEN a ELSE [j \in 1..k |-> 0] \o a         \* a * 256^k
\* column-wise product: column k collects a[i]*b[k+1-i] (integer sums, no sequence copying), then one carry pass
Mul(a,b) == IF a = <<>> \/ b = <<>> THEN <<>> ELSE
  LET la == Len(a) lb == Len(b)
      Col(k) == LET RECURSIVE S(_,_) S(i,acc) == IF i > Min(k, la) THEN acc ELSE S(i+1, acc + a[i]*b[k+1-i]) IN S(Max(1, k+1-lb), 0)
      RECURSIVE Carry(_,_,_)
      Carry(k, c, acc) == IF k > la+lb-1 THEN (IF c = 0 THEN acc ELSE acc \o FromSmall(c))
                          ELSE LET t == Col(k) + c IN IF t >= 0 THEN Carry(k+1, t \div 256, Append(acc, t % 256)) ELSE acc
  IN Strip(Carry(1, 0, <<>>))

RECURSIVE SubC(_,_,_,_,_)
SubC(a,b,i,br,acc) == IF i > Len(a) THEN acc
   ELSE LET t == a[i] - Limb(b,i) - br IN SubC(a,b,i+1, IF t < 0 THEN 1 ELSE 0, Append(acc, IF t < 0 THEN t + 256 ELSE t))
Sub(a,b) == Strip(SubC(a,b,1,0,<<>>))      \* requires Cmp(a,b) >= 0
Monus(a,b) == IF Lt(a,b) THEN Zero ELSE Sub(a,b)

\* division by a small divisor 0 < d < 2^22: <<quotient, remainder (TLC int)>>
DivModSmall(a,d) ==
  LET RECURSIVE G(_,_,_)
      G(i,r,q) == IF i = 0 THEN <<Strip(q), r>>
                  ELSE LET t == r*256 + a[i] IN G(i-1, t % d, [q EXCEPT ![i] = t \div d])
  IN G(Len(a), 0, [i \in 1..Len(a) |-> 0])

\* long division by an arbitrary divisor d > 0: <<quotient, remainder>> (one quotient limb per step, found by bisection)
DivMod(a, d) ==
  LET RECURSIVE Digit(_,_,_)      \* largest k in lo..hi with k*d <= r
      Digit(r, lo, hi) == IF lo = hi THEN lo ELSE LET mid == (lo + hi + 1) \div 2 IN IF Leq(MulSmall(d, mid), r) THEN Digit(r, mid, hi) ELSE Digit(r, lo, mid - 1)
      RECURSIVE G(_,_,_)
      G(i, r, q) == IF i = 0 THEN <<Strip(q), r>>
                    ELSE LET r1 == Strip(<<a[i]>> \o r)            \* r * 256 + a[i]
                             k == Digit(r1, 0, 255)
                             r2 == Sub(r1, MulSmall(d, k))
                         IN IF k >= 0 /\ Len(r2) >= 0 THEN G(i-1, r2, [q EXCEPT ![i] = k]) ELSE <<q, r>>
  IN G(Len(a), Zero, [i \in 1..Len(a) |-> 0])
FloorDiv(n, d) == DivMod(n, d)[1]
CeilDiv(n, d) == LET qr == DivMod(n, d) IN IF qr[2] = Zero THEN qr[1] ELSE Add(qr[1], One)

\* big-endian bytes, left-padded to width w (w = 0: minimal, zero is <<>>)
ToBE(a,w) == LET r == Rev(a) IN IF Len(r) >= w THEN r ELSE [j \in 1..(w-Len(r)) |-> 0] \o r
ByteLen(a) == Len(a)
Pow2(k) == Shift(<<>>, 0) \o [j \in 1..(k \div 8) |-> 0] \o <<2^(k % 8)>>       \* 2^k
U64Max == [j \in 1..8 |-> 255]
P64 == Pow2(64)
P63 == Pow2(63)
FitsU64(a) == Len(a) <= 8

\* q = floor(n/d), q = ceil(n/d), decided by bracketing (d > 0)
IsFloor(q,n,d) == Leq(Mul(q,d), n) /\ Lt(n, Mul(Add(q,One), d))
IsCeil(q,n,d) == Leq(n, Mul(q,d)) /\ (q = Zero \/ Lt(Mul(Sub(q,One), d), n))

\* decimal digits (ASCII codes) of a, most significant first; "0" for zero.
\* Works in chunks of six digits (divisor 10^6 < 2^22): sequences are immutable in TLC, so every
\* limb pass is quadratic and the number of passes is what matters.
Six(r) == <<48 + ((r \div 100000) % 10), 48 + ((r \div 10000) % 10), 48 + ((r \div 1000) % 10), 48 + ((r \div 100) % 10), 48 + ((r \div 10) % 10), 48 + (r % 10)>>
RECURSIVE DropZeros(_)
DropZeros(s) == IF Len(s) > 1 /\ s[1] = 48 THEN DropZeros(Tail(s)) ELSE s
Dec(a) == LET RECURSIVE G(_,_)
              G(x,acc) == IF x = <<>> THEN acc ELSE LET qr == DivModSmall(x,1000000) IN IF qr[2] >= 0 THEN G(qr[1], Six(qr[2]) \o acc) ELSE acc
          IN IF a = <<>> THEN <<48>> ELSE DropZeros(G(a, <<>>))
\* value of a string of ASCII digits (six at a time)
DigitsVal(s, i, j) == LET RECURSIVE V(_,_) V(k,acc) == IF k > j THEN acc ELSE V(k+1, acc*10 + (s[k]-48)) IN V(i, 0)
Pow10(k) == CASE k = 0 -> 1 [] k = 1 -> 10 [] k = 2 -> 100 [] k = 3 -> 1000 [] k = 4 -> 10000 [] k = 5 -> 100000 [] OTHER -> 1000000
FromDec(s) == LET RECURSIVE G(_,_)
                  G(i,acc) == IF i > Len(s) THEN acc
                              ELSE LET j == Min(i+5, Len(s))
                                       a2 == Add(MulSmall(acc, Pow10(j-i+1)), FromSmall(DigitsVal(s, i, j)))
                                   IN IF Len(a2) >= 0 THEN G(j+1, a2) ELSE acc
              IN G(1, Zero)

\* ---- signed integers: [neg |-> BOOLEAN, mag |-> BigNat], zero has neg = FALSE ----
SI(neg, mag) == [neg |-> neg /\ mag # <<>>, mag |-> mag]
SPos(a) == SI(FALSE, a)
SNegOf(x) == SI(~x.neg, x.mag)
SAdd(x,y) == IF x.neg = y.neg THEN SI(x.neg, Add(x.mag, y.mag))
             ELSE IF Geq(x.mag, y.mag) THEN SI(x.neg, Sub(x.mag, y.mag)) ELSE SI(y.neg, Sub(y.mag, x.mag))
SSub(x,y) == SAdd(x, SNegOf(y))
SMul(x,y) == SI(x.neg # y.neg, Mul(x.mag, y.mag))
SCmp(x,y) == IF x.neg /\ ~y.neg THEN -1 ELSE IF ~x.neg /\ y.neg THEN 1
             ELSE IF x.neg THEN Cmp(y.mag, x.mag) ELSE Cmp(x.mag, y.mag)
\* -2^64 .. 2^64-1 (the CBOR int range)
InIntRange(x) == IF x.neg THEN Leq(x.mag, P64) ELSE Lt(x.mag, P64)
====
