---- MODULE TraceLib ----
(* Conventions shared by all trace validators and scenario generators.           *)
(*  - the trace is the ndjson file named by the environment variable TRACE       *)
(*  - everything a run wants to tell the orchestrator is one PrintT line         *)
(*    "@@" ++ JSON; records carry a tag t in {SCN, FAIL, NOTE, OBL, STAT, DONE}  *)
(*  - validators are NON-BLOCKING: a violated L0 conjunct is reported with Fail  *)
(*    and validation continues, so one bad scenario never hides the others.      *)
EXTENDS Integers, Sequences, TLC, Json, IOUtils
Rec == ndJsonDeserialize(IOEnv.TRACE)
Emit(r) == PrintT("@@" \o ToJson(r))
Fail(p, sig, sc, d) == Emit([t |-> "FAIL", p |-> p, sig |-> sig, sc |-> sc, d |-> d])
\* always TRUE; reports when the L0 conjunct c does not hold for the observed event
Chk(c, p, sig, sc, d) == IF c THEN TRUE ELSE Fail(p, sig, sc, d)
Note(p, what, sc, d) == Emit([t |-> "NOTE", p |-> p, what |-> what, sc |-> sc, d |-> d])
\* an event reached the property's obligation; shape is what makes it distinct
Obl(p, sc, shape) == Emit([t |-> "OBL", p |-> p, sc |-> sc, shape |-> shape])
Done(n) == Emit([t |-> "DONE", n |-> n])
Has(r, k) == k \in DOMAIN r
Get(r, k, dflt) == IF k \in DOMAIN r THEN r[k] ELSE dflt
====
