//! C08 driver. The RNG hook (cfg csl_verif) turns add_inputs_from into a deterministic function of a draw
//! script. mode "replay": run one script produced by the TLA+ model; mode "explore": walk the whole tree of
//! draw scripts depth-first on the real code (every gen_range reports its n; children are enumerated);
//! mode "seeded": a few pseudo-random schedules. Every leaf is one `Selected` event.
use crate::mk;
use crate::numeric::{jvalue, value_of};
use crate::util::*;
use cardano_serialization_lib as csl;
use csl::verif_hooks as hook;
use serde_json::{json, Value as J};

/// scenario value: integer n -> n * unit lovelace; or {"c":n,"assets":[{"p":[k],"n":[..],"q":m}]} (quantities not scaled)
fn scen_value(v: &J, unit: u64) -> csl::Value {
    if let Some(n) = v.as_u64() {
        return csl::Value::new(&csl::BigNum::from(n * unit));
    }
    let coin = v["c"].as_u64().unwrap_or(0) * unit;
    let assets: Vec<J> = v["assets"].as_array().cloned().unwrap_or_default().iter()
        .map(|a| json!({"p": a["p"], "n": a["n"], "q_n": jn(a["q"].as_u64().unwrap())})).collect();
    value_of(&json!({"coin_n": jn(coin), "assets": assets}))
}
fn strategy(s: &str) -> csl::CoinSelectionStrategyCIP2 {
    match s {
        "LargestFirst" => csl::CoinSelectionStrategyCIP2::LargestFirst,
        "RandomImprove" => csl::CoinSelectionStrategyCIP2::RandomImprove,
        "LargestFirstMultiAsset" => csl::CoinSelectionStrategyCIP2::LargestFirstMultiAsset,
        _ => csl::CoinSelectionStrategyCIP2::RandomImproveMultiAsset,
    }
}
fn outpoint(i: &csl::TransactionInput) -> J { json!([jbytes(&i.transaction_id().to_bytes()), i.index()]) }

struct Setup {
    tb: csl::TransactionBuilder,
    offered: csl::TransactionUnspentOutputs,
}

fn setup(s: &J) -> Result<(Setup, J), csl::JsError> {
    let unit = s["unit"].as_u64().unwrap_or(1_000_000);
    let cfg = csl::TransactionBuilderConfigBuilder::new()
        .fee_algo(&csl::LinearFee::new(&csl::BigNum::from(s["a"].as_u64().unwrap_or(44)), &csl::BigNum::from(s["b"].as_u64().unwrap_or(155381))))
        .pool_deposit(&csl::BigNum::from(500_000_000u64)).key_deposit(&csl::BigNum::from(2_000_000u64))
        .max_value_size(5000).max_tx_size(16384)
        .coins_per_utxo_byte(&csl::BigNum::from(s["cpb"].as_u64().unwrap_or(0))).build()?;
    let mut tb = csl::TransactionBuilder::new(&cfg);
    let mut env = vec![];
    let mut pre = vec![];
    let empty = vec![];
    for (i, v) in s["pre"].as_array().unwrap_or(&empty).iter().enumerate() {
        let val = scen_value(v, unit);
        let inp = mk::txin(200 + i as u8, 0);
        tb.add_regular_input(&mk::enterprise_addr(0, &csl::Credential::from_keyhash(&mk::keyhash(90 + i as u8))), &inp, &val)?;
        env.push(json!({"txid": jbytes(&inp.transaction_id().to_bytes()), "ix": 0, "value": jvalue(&val)}));
        pre.push(outpoint(&inp));
    }
    let same_addr = !s["distinct_addrs"].as_bool().unwrap_or(false);
    let mut outs = vec![];
    for (i, v) in s["outs"].as_array().unwrap_or(&empty).iter().enumerate() {
        let val = scen_value(v, unit);
        let k = if same_addr { 100 } else { 100 + i as u8 };
        let out = csl::TransactionOutput::new(&mk::enterprise_addr(0, &csl::Credential::from_keyhash(&mk::keyhash(k))), &val);
        tb.add_output(&out)?;
        outs.push(jvalue(&val));
    }
    // a fee floor requested by the caller (set_min_fee): "mf": lovelace above the fee of the builder as it stands
    if let Some(mf) = s.get("mf").and_then(|x| x.as_u64()) { if mf > 0 { let base: u64 = tb.min_fee()?.into(); tb.set_min_fee(&csl::BigNum::from(base + mf)); } }
    // an implicit input (reward withdrawal): lovelace the builder holds without any UTxO
    if let Some(w) = s.get("wd").and_then(|x| x.as_u64()) { if w > 0 {
        let mut wd = csl::Withdrawals::new();
        wd.insert(&csl::RewardAddress::new(0, &csl::Credential::from_keyhash(&mk::keyhash(150))), &csl::BigNum::from(w * unit));
        tb.set_withdrawals(&wd);
    } }
    // deposits the transaction pays (stake registrations at the configured key deposit): part of what the inputs have to cover
    if let Some(d) = s.get("dep").and_then(|x| x.as_u64()) { if d > 0 {
        let mut certs = csl::Certificates::new();
        for i in 0..d { certs.add(&csl::Certificate::new_stake_registration(&csl::StakeRegistration::new(&csl::Credential::from_keyhash(&mk::keyhash(160 + i as u8))))); }
        tb.set_certs(&certs)?;
    } }
    let mut offered = csl::TransactionUnspentOutputs::new();
    let mut offered_pts = vec![];
    for (i, v) in s["utxos"].as_array().unwrap_or(&empty).iter().enumerate() {
        let val = scen_value(v, unit);
        let inp = mk::txin(1 + i as u8, 0);
        let out = csl::TransactionOutput::new(&mk::enterprise_addr(0, &csl::Credential::from_keyhash(&mk::keyhash(1 + i as u8))), &val);
        offered.add(&csl::TransactionUnspentOutput::new(&inp, &out));
        env.push(json!({"txid": jbytes(&inp.transaction_id().to_bytes()), "ix": 0, "value": jvalue(&val)}));
        offered_pts.push(outpoint(&inp));
    }
    // figures before the call, and the fee of the transaction that would spend everything offered
    let before = json!({"input": jvalue(&tb.get_total_input()?), "output": jvalue(&tb.get_total_output()?), "min_fee_n": jbn(&tb.min_fee()?)});
    let mut all = tb.clone();
    let mut all_fee = J::Null;
    let mut ok_all = true;
    for i in 0..offered.len() {
        let u = offered.get(i);
        if all.add_regular_input(&u.output().address(), &u.input(), &u.output().amount()).is_err() { ok_all = false; }
    }
    if ok_all { if let Ok(f) = all.min_fee() { all_fee = jbn(&f); } }
    let mut reset = json!({"ev": "Reset", "strat": s["strat"], "pp": {"a": s["a"].as_u64().unwrap_or(44), "b": s["b"].as_u64().unwrap_or(155381)},
        "utxo": env, "offered": offered_pts, "pre": pre, "outs": outs, "before": before});
    if !all_fee.is_null() { reset["all_min_fee_n"] = all_fee; }
    Ok((Setup { tb, offered }, reset))
}

/// one run with a given script; returns the event body and the full draw log
fn run_leaf(st: &Setup, strat: &str, script: &[usize], seed: Option<u64>) -> (J, Vec<(usize, usize, bool)>) {
    let mut tb = st.tb.clone();
    match seed { Some(sd) => hook::set_seed(sd), None => hook::set_script(script.to_vec()) }
    let r = call(|| tb.add_inputs_from(&st.offered, strategy(strat)));
    let log = hook::take_log();
    hook::clear();
    let ok = r.is_ok();
    let rj = r.to_json(|_| obj(vec![]));
    let mut ev = json!({"ev": "Selected", "r": rj, "draws": log.iter().map(|(n, k, _)| json!([n, k])).collect::<Vec<_>>()});
    if ok {
        let obs = call(|| -> Result<_, csl::JsError> {
            let mut c = tb.clone();
            c.set_fee(&csl::BigNum::from(0u64));
            let body = c.build()?;
            let ins = body.inputs();
            let pts: Vec<J> = (0..ins.len()).map(|i| outpoint(&ins.get(i))).collect();
            Ok(json!({"inputs": pts, "explicit_input": jvalue(&tb.get_explicit_input()?), "total_input": jvalue(&tb.get_total_input()?),
                      "total_output": jvalue(&tb.get_total_output()?), "min_fee_n": jbn(&tb.min_fee()?)}))
        });
        match obs {
            Outcome::Ok(o) => { ev["obs"] = o; }
            Outcome::Err(e) => { ev["obs_err"] = json!(ascii(&e)); }
            Outcome::Panic(p) => { ev["obs_err"] = json!(p); }
        }
    }
    (ev, log)
}

pub fn run_one(out: &mut Out, sc: usize, s: &J) {
    let strat = s["strat"].as_str().unwrap_or("RandomImprove").to_string();
    let (st, mut reset) = match call(|| setup(s)) {
        Outcome::Ok(x) => x,
        Outcome::Err(e) => { out.ev(json!({"ev": "SetupErr", "sc": sc, "err": ascii(&e)})); return; }
        Outcome::Panic(p) => { out.ev(json!({"ev": "SetupErr", "sc": sc, "err": p})); return; }
    };
    reset["sc"] = json!(sc);
    out.ev(reset);
    let mode = s["mode"].as_str().unwrap_or("explore");
    let mut emit = |out: &mut Out, mut ev: J, extra: Option<&J>| {
        ev["sc"] = json!(sc);
        if let Some(p) = extra { ev["pred"] = p.clone(); }
        out.ev(ev);
    };
    match mode {
        "replay" => {
            let script: Vec<usize> = s["draws"].as_array().unwrap().iter().map(|x| x.as_u64().unwrap() as usize).collect();
            let (ev, _) = run_leaf(&st, &strat, &script, None);
            emit(out, ev, s.get("pred"));
        }
        "seeded" => {
            for k in 0..s["runs"].as_u64().unwrap_or(8) {
                let (ev, _) = run_leaf(&st, &strat, &[], Some(s["seed"].as_u64().unwrap_or(1).wrapping_add(k)));
                emit(out, ev, None);
            }
        }
        _ => {
            // depth-first walk over all draw scripts
            let max_leaves = s["max_leaves"].as_u64().unwrap_or(3000) as usize;
            let mut stack: Vec<Vec<usize>> = vec![vec![]];
            let mut leaves = 0usize;
            let mut truncated = false;
            while let Some(script) = stack.pop() {
                if leaves >= max_leaves { truncated = true; break; }
                let (ev, log) = run_leaf(&st, &strat, &script, None);
                leaves += 1;
                emit(out, ev, None);
                // children: every unscripted position p (answered 0) with each other answer
                for p in (script.len()..log.len()).rev() {
                    let (n, _, _) = log[p];
                    for k in (1..n).rev() {
                        let mut child: Vec<usize> = log[..p].iter().map(|(_, k, _)| *k).collect();
                        child.push(k);
                        stack.push(child);
                    }
                }
            }
            out.ev(json!({"ev": "Explored", "sc": sc, "leaves": leaves, "truncated": truncated}));
        }
    }
}

/// a family aimed at the asset passes: a token that no single offered UTxO covers but two together do, sitting at chosen positions
/// of the offered list (first / last matter: the strategies treat the ends of the list specially), with the lovelace need already met
/// by a withdrawal or by an input that is in the builder - or not
fn gen_token_split(rng: &mut Rng) -> J {
    let strat = *rng.pick(&["LargestFirstMultiAsset", "RandomImproveMultiAsset"]);
    let n = 2 + rng.below(3) as usize;
    let (qa, qb) = (2 + rng.below(5), 2 + rng.below(5));
    let need = qa.max(qb) + 1 + rng.below(qa.min(qb));
    let tok = |q: u64| json!([{"p": [1], "n": [7], "q": q}]);
    let mut utxos: Vec<J> = (0..n).map(|_| json!(1 + rng.below(3))).collect();
    let ia = rng.below(n as u64) as usize;
    let ib = (ia + 1 + rng.below(n as u64 - 1) as usize) % n;
    utxos[ia] = json!({"c": 2, "assets": tok(qa)});
    utxos[ib] = json!({"c": 2, "assets": tok(qb)});
    if rng.chance(1, 2) { utxos.swap(ib, n - 1); }
    let (wd, pre): (u64, Vec<J>) = match rng.below(3) { 0 => (10, vec![]), 1 => (0, vec![json!(10)]), _ => (0, vec![]) };
    json!({"strat": strat, "mode": "explore", "unit": 1_000_000, "a": 44, "b": 155381, "cpb": 0, "wd": wd,
           // the output's coin is sometimes more than the token carriers bring: the lovelace pass has to go on after the token pass
           "utxos": utxos, "outs": [{"c": 2 + rng.below(5), "assets": tok(need)}], "pre": pre, "distinct_addrs": false, "max_leaves": 1500})
}

/// two tokens, several carriers each with different quantities (some carry both): a per-asset pass consumes only some carriers
/// and a later pass still needs more
fn gen_two_tokens(rng: &mut Rng) -> J {
    let strat = *rng.pick(&["LargestFirstMultiAsset", "RandomImproveMultiAsset"]);
    let n = 3 + rng.below(3) as usize;
    let a = |q: u64| json!({"p": [1], "n": [7], "q": q});
    let b = |q: u64| json!({"p": [2], "n": [], "q": q});
    let utxos: Vec<J> = (0..n).map(|_| { let mut assets = vec![]; if rng.chance(2, 3) { assets.push(a(1 + rng.below(6))); } if rng.chance(1, 2) { assets.push(b(1 + rng.below(6))); }
        if assets.is_empty() { json!(1 + rng.below(3)) } else { json!({"c": 1 + rng.below(3), "assets": assets}) } }).collect();
    let mut want = vec![a(2 + rng.below(8))];
    if rng.chance(2, 3) { want.push(b(1 + rng.below(8))); }
    json!({"strat": strat, "mode": "explore", "unit": 1_000_000, "a": 44, "b": 155381, "cpb": 0, "wd": if rng.chance(1, 4) { 10 } else { 0 },
           "utxos": utxos, "outs": [{"c": 1 + rng.below(3), "assets": want}], "pre": if rng.chance(1, 3) { vec![json!(2)] } else { vec![] }, "distinct_addrs": false, "max_leaves": 1500})
}

/// several requested outputs ask for the SAME token; what the builder already holds (an input added before, carrying the token) covers
/// the largest request but not all of them together; the rest sits in offered UTxOs
fn gen_shared_token(rng: &mut Rng) -> J {
    let strat = *rng.pick(&["LargestFirstMultiAsset", "RandomImproveMultiAsset", "RandomImproveMultiAsset"]);
    let tok = |q: u64| json!([{"p": [1], "n": [7], "q": q}]);
    let no = 2 + rng.below(2);
    let reqs: Vec<u64> = (0..no).map(|_| 2 + rng.below(8)).collect();
    let largest = *reqs.iter().max().unwrap();
    let total: u64 = reqs.iter().sum();
    let held = largest + rng.below(total - largest);
    let mut utxos: Vec<J> = vec![];
    let mut left = total - held + rng.below(3);
    while left > 0 { let q = 1 + rng.below(left.min(5)); utxos.push(json!({"c": 2, "assets": tok(q)})); left -= q; }
    for _ in 0..rng.below(3) { utxos.push(json!(1 + rng.below(4))); }
    for i in (1..utxos.len()).rev() { let j = rng.below(i as u64 + 1) as usize; utxos.swap(i, j); }
    let outs: Vec<J> = reqs.iter().map(|q| json!({"c": 1 + rng.below(2), "assets": tok(*q)})).collect();
    json!({"strat": strat, "mode": "explore", "unit": 1_000_000, "a": 44, "b": 155381, "cpb": 0, "wd": if rng.chance(1, 3) { 10 } else { 0 },
           "utxos": utxos, "outs": outs, "pre": [{"c": 2 + rng.below(8), "assets": tok(held)}], "distinct_addrs": rng.chance(1, 2), "max_leaves": 1500})
}

/// quantities at the top of the 64-bit range (token amounts are unsigned 64-bit numbers): orderings and sums computed in a signed or
/// narrower type go wrong here
fn gen_huge_quantities(rng: &mut Rng) -> J {
    let strat = *rng.pick(&["LargestFirstMultiAsset", "RandomImproveMultiAsset", "LargestFirstMultiAsset"]);
    let tok = |q: u64| json!([{"p": [1], "n": [7], "q": q}]);
    let big = *rng.pick(&[(1u64 << 63) + 100, 1u64 << 63, u64::MAX - 7, (1u64 << 63) - 1, 1u64 << 62]);
    let mut utxos: Vec<J> = vec![json!({"c": 2, "assets": tok(big)})];
    // (all offered quantities of a token together fit 64 bits: anything else is not a ledger state)
    let room = (u64::MAX - big) / 4;
    for _ in 0..1 + rng.below(3) { let q = (*rng.pick(&[5u64, 1 << 32, 1 << 62, (1 << 61) + 3])).min(room.max(1)); utxos.push(json!({"c": 2, "assets": tok(q)})); }
    for i in (1..utxos.len()).rev() { let j = rng.below(i as u64 + 1) as usize; utxos.swap(i, j); }
    let want = *rng.pick(&[3u64, 1 << 33, 1 << 62, big - 1, big]);
    json!({"strat": strat, "mode": "explore", "unit": 1_000_000, "a": 44, "b": 155381, "cpb": 0, "wd": if rng.chance(1, 2) { 10 } else { 0 },
           "utxos": utxos, "outs": [{"c": 1, "assets": tok(want)}], "pre": [], "distinct_addrs": false, "max_leaves": 800})
}

fn gen(rng: &mut Rng) -> J {
    if rng.chance(1, 8) { return gen_shared_token(rng); }
    if rng.chance(1, 12) { return gen_huge_quantities(rng); }
    if rng.chance(1, 6) { return gen_token_split(rng); }
    if rng.chance(1, 6) { return gen_two_tokens(rng); }
    let strat = *rng.pick(&["LargestFirst", "RandomImprove", "LargestFirstMultiAsset", "RandomImproveMultiAsset"]);
    let multi = strat.ends_with("MultiAsset");
    let nu = 1 + rng.below(6);
    let asset = |rng: &mut Rng| -> J { json!({"p": [1 + rng.below(2)], "n": if rng.chance(1, 2) { json!([]) } else { json!([7]) }, "q": 1 + rng.below(6)}) };
    let val = |rng: &mut Rng, big: bool| -> J {
        let c = if big { 1 + rng.below(8) } else { 1 + rng.below(4) };
        if multi && rng.chance(1, 2) { let k = 1 + rng.below(2); json!({"c": c, "assets": (0..k).map(|_| asset(rng)).collect::<Vec<_>>()}) } else { json!(c) }
    };
    let utxos: Vec<J> = (0..nu).map(|_| val(rng, true)).collect();
    let no = 1 + rng.below(2);
    let outs: Vec<J> = (0..no).map(|_| val(rng, false)).collect();
    let np = rng.below(3) / 2 + rng.below(2) / 1 * 0;
    let pre: Vec<J> = (0..np).map(|_| json!(1 + rng.below(3))).collect();
    // amounts near the fee boundary: unit 1 ADA, or small units so that fees matter
    let unit = *rng.pick(&[1_000_000u64, 1_000_000, 200_000, 170_000]);
    // sometimes a withdrawal already covers (part of) the lovelace need, so that only assets - or nothing - remain to be selected
    let wd = if rng.chance(1, 4) { 1 + rng.below(12) } else { 0 };
    json!({"strat": strat, "mode": "explore", "unit": unit, "a": *rng.pick(&[44u64, 44, 0, 500]), "b": 155381, "cpb": 0,
           "utxos": utxos, "outs": outs, "pre": pre, "wd": wd, "dep": if rng.chance(1, 4) { 1 + rng.below(2) } else { 0 }, "mf": if rng.chance(1, 5) { 1 + rng.below(9000) } else { 0 }, "distinct_addrs": rng.chance(1, 3), "max_leaves": 1500})
}

pub fn main(a: &Args) {
    drive(a, |rng, _| gen(rng), |out, sc, s| run_one(out, sc, s));
}
