//! Stand-alone hashing helpers (C09): hash_script_data / hash_auxiliary_data / hash_plutus_data on values decoded from scenario bytes.
//! The witness set a transaction would carry for the same redeemers and datums is built and logged, so that the specification
//! derives the ledger's preimage from emitted bytes, not from the helper's arguments.
use crate::util::*;
use cardano_serialization_lib as csl;
use serde_json::{json, Value as J};

pub fn run_one(out: &mut Out, sc: usize, s: &J) {
    match s["kind"].as_str().unwrap_or("") {
        "sdh" => {
            let r = call(|| -> Result<_, csl::DeserializeError> {
                let red = csl::Redeemers::from_bytes(get_bytes(&s["red"]))?;
                let dat = match s.get("dat") { Some(d) if !d.is_null() => Some(csl::PlutusList::from_bytes(get_bytes(d))?), _ => None };
                let cm = csl::Costmdls::from_bytes(get_bytes(&s["cm"]))?;
                let h = csl::hash_script_data(&red, &cm, dat.clone());
                let mut ws = csl::TransactionWitnessSet::new();
                ws.set_redeemers(&red);
                if let Some(d) = &dat { ws.set_plutus_data(d); }
                Ok((red.to_bytes(), red.len(), ws.to_bytes(), cm.to_bytes(), h.to_bytes()))
            });
            out.ev(json!({"ev": "HashScriptData", "sc": sc, "dat_given": s.get("dat").map(|d| !d.is_null()).unwrap_or(false),
                          "r": r.to_json(|(red, n, ws, cm, h)| obj(vec![("red", jbytes(&red)), ("nred", json!(n)), ("ws", jbytes(&ws)), ("cm", jbytes(&cm)), ("b", jbytes(&h))]))}));
        }
        "aux" => {
            let r = call(|| -> Result<_, csl::DeserializeError> { let a = csl::AuxiliaryData::from_bytes(get_bytes(&s["aux"]))?; Ok((a.to_bytes(), csl::hash_auxiliary_data(&a).to_bytes())) });
            out.ev(json!({"ev": "HashAux", "sc": sc, "r": r.to_json(|(a, h)| obj(vec![("aux", jbytes(&a)), ("b", jbytes(&h))]))}));
        }
        "pd" => {
            let r = call(|| -> Result<_, csl::DeserializeError> { let a = csl::PlutusData::from_bytes(get_bytes(&s["pd"]))?; Ok((a.to_bytes(), csl::hash_plutus_data(&a).to_bytes())) });
            out.ev(json!({"ev": "HashDatum", "sc": sc, "in": s["pd"].clone(), "r": r.to_json(|(a, h)| obj(vec![("pd", jbytes(&a)), ("b", jbytes(&h))]))}));
        }
        k => out.ev(json!({"ev": "Refused", "sc": sc, "what": format!("harness: unknown kind {}", k)})),
    }
}

pub fn main(a: &Args) {
    drive(a, |_rng, _i| json!({"kind": "none"}), |out, sc, s| run_one(out, sc, s));
}
