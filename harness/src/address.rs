//! C11 driver: every byte string of a scenario is handed to the strict stand-alone parser and, embedded in a legacy and in a
//! post-Alonzo TransactionOutput, to the lenient path; everything the API reports about the result is logged.
use crate::mk;
use crate::util::*;
use cardano_serialization_lib as csl;
use serde_json::{json, Value as J};

fn cred_j(c: &csl::Credential) -> J {
    match c.to_scripthash() { Some(h) => json!({"script": true, "hash": jbytes(&h.to_bytes())}), None => json!({"script": false, "hash": jbytes(&c.to_keyhash().unwrap().to_bytes())}) }
}
fn kind_of(a: &csl::Address) -> &'static str {
    match a.kind() { csl::AddressKind::Base => "base", csl::AddressKind::Pointer => "ptr", csl::AddressKind::Enterprise => "ent", csl::AddressKind::Reward => "reward",
                     csl::AddressKind::Byron => "byron", csl::AddressKind::Malformed => "malformed" }
}
fn describe(a: &csl::Address) -> serde_json::Map<String, J> {
    let mut m = obj(vec![("kind", json!(kind_of(a))), ("to_bytes", jbytes(&a.to_bytes())), ("is_malformed", json!(a.is_malformed()))]);
    if let Ok(n) = a.network_id() { m.insert("net".into(), json!(n)); }
    if let Some(p) = a.payment_cred() { m.insert("pay".into(), cred_j(&p)); }
    if let Some(b) = csl::BaseAddress::from_address(a) { m.insert("stake".into(), cred_j(&b.stake_cred())); }
    if let Some(p) = csl::PointerAddress::from_address(a) { let sp = p.stake_pointer(); m.insert("ptr".into(), json!([jbn(&sp.slot_bignum()), jbn(&sp.tx_index_bignum()), jbn(&sp.cert_index_bignum())])); }
    let a2 = a.clone();
    // default prefix; an address whose network the library cannot name (Byron with an unknown protocol magic) gets an explicit one
    m.insert("bech".into(), call(move || a2.to_bech32(None).or_else(|_| a2.to_bech32(Some("addr_x".to_string()))).and_then(|s| csl::Address::from_bech32(&s))).to_json(|r| obj(vec![("rt_bytes", jbytes(&r.to_bytes()))])));
    if let Some(b) = csl::ByronAddress::from_address(a) {
        m.insert("b58".into(), call(move || csl::ByronAddress::from_base58(&b.to_base58())).to_json(|r| obj(vec![("rt_bytes", jbytes(&r.to_bytes()))])));
    }
    m
}
fn head(mt: u8, n: usize) -> Vec<u8> {
    if n < 24 { vec![mt * 32 + n as u8] } else if n < 256 { vec![mt * 32 + 24, n as u8] } else { vec![mt * 32 + 25, (n >> 8) as u8, n as u8] }
}
fn embedded(input: Vec<u8>) -> J {
    let i2 = input.clone();
    let mut r = call(move || csl::TransactionOutput::from_bytes(i2)).to_json(|o| {
        let a = o.address();
        let mut m = obj(vec![("kind", json!(kind_of(&a))), ("addr_bytes", jbytes(&a.to_bytes())), ("out_bytes", call_total(|| o.to_bytes()).to_json(|b| obj(vec![("b", jbytes(&b))])))]);
        // the text form the library itself gives this (possibly malformed) address, handed to the STRICT Bech32 parser
        if let Outcome::Ok(t) = call(|| a.to_bech32(None)) {
            let t2 = t.clone();
            m.insert("strict_bech32".into(), call(move || csl::Address::from_bech32(&t2)).to_json(|x| obj(vec![("bytes", jbytes(&x.to_bytes())), ("kind", json!(kind_of(&x)))])));
            m.insert("bech32_prefix".into(), jbytes(t.split('1').next().unwrap_or("").as_bytes()));
        }
        m
    });
    r["in_bytes"] = jbytes(&input);
    r
}

pub fn run_one(out: &mut Out, sc: usize, s: &J) {
    let b = get_bytes(&s["bytes"]);
    let b1 = b.clone();
    let strict = call(move || csl::Address::from_bytes(b1)).to_json(|a| describe(&a));
    let mut legacy = vec![0x82];
    legacy.extend(head(2, b.len())); legacy.extend(&b); legacy.push(1);
    let mut map = vec![0xa2, 0x00];
    map.extend(head(2, b.len())); map.extend(&b); map.extend([0x01, 0x01]);
    out.ev(json!({"ev": "Addr", "sc": sc, "bytes": jbytes(&b), "strict": strict, "emb": {"legacy": embedded(legacy), "map": embedded(map)}}));
}

fn gen(rng: &mut Rng) -> J {
    // Byron addresses with attribute combinations, and mutations of their envelope; Shelley addresses with random hashes
    match rng.below(4) {
        0 | 1 => {
            let magic = *rng.pick(&[764824073u32, 1097911063, 1, 2, 0xffff_ffff]);
            let mut b = mk::byron_addr(1 + rng.below(6) as u8, magic).to_bytes();
            if rng.chance(1, 2) {
                // every attribute combination: protocol magic absent / explicit (also the main-net value, which the constructors
                // omit) x derivation payload absent / present
                use std::str::FromStr;
                if let Ok(mut ea) = csl::legacy_address::ExtendedAddr::from_str(&mk::byron_addr(1 + rng.below(6) as u8, magic).to_base58()) {
                    ea.attributes.protocol_magic = match rng.below(3) { 0 => None, 1 => Some(764824073), _ => Some(magic) };
                    ea.attributes.derivation_path = if rng.chance(1, 2) { let n = 1 + rng.below(40) as usize; Some(rng.bytes(n)) } else { None };
                    b = ea.to_address().as_ref().to_vec();
                }
            }
            match rng.below(8) {
                0 => { let n = b.len(); b[n - 1] ^= 1; }                       // CRC off by one bit
                1 => { b.push(0); }                                             // trailing byte
                2 => { b.pop(); }                                               // truncated
                3 => { let i = 5 + rng.below(20) as usize; b[i] ^= 0x10; }      // payload bit flip
                4 => { b[0] = 0x83; }                                           // not a 2-array
                5 => { b[1] = 0xd8; b[2] = 0x19; }                              // wrong tag
                _ => {}
            }
            json!({"bytes": jbytes(&b)})
        }
        _ => {
            let t = *rng.pick(&[0u8, 1, 2, 3, 4, 5, 6, 7, 14, 15]);
            let mut b = vec![t * 16 + rng.below(16) as u8];
            b.extend(rng.bytes(28));
            if t < 4 { b.extend(rng.bytes(28)); }
            if t == 4 || t == 5 { for _ in 0..3 { let v = rng.edge_u64(); let mut e = vec![(v & 0x7f) as u8]; let mut x = v >> 7; while x > 0 { e.push((x & 0x7f) as u8 | 0x80); x >>= 7; } e.reverse(); b.extend(e); } }
            match rng.below(6) { 0 => { b.push(rng.next() as u8); } 1 => { b.pop(); } _ => {} }
            json!({"bytes": jbytes(&b)})
        }
    }
}

pub fn main(a: &Args) {
    drive(a, |rng, _| gen(rng), |out, sc, s| run_one(out, sc, s));
}
