//! C04 driver: byte-preserving transaction (FixedTransaction) under add-signature histories; Plutus datum round trips.
use crate::mk;
use crate::util::*;
use cardano_serialization_lib as csl;
use serde_json::{json, Value as J};

fn snapshot(ft: &csl::FixedTransaction) -> J {
    let to_bytes = call_total(|| ft.to_bytes());
    match to_bytes {
        Outcome::Ok(b) => json!({"ok": true, "bytes": jbytes(&b), "raw_body": jbytes(&ft.raw_body()), "raw_ws": jbytes(&ft.raw_witness_set()),
                                  "raw_aux": ft.raw_auxiliary_data().map(|a| jbytes(&a)).unwrap_or(J::Null), "hash": jbytes(&ft.transaction_hash().to_bytes())}),
        Outcome::Panic(p) => json!({"panic": p}),
        Outcome::Err(_) => unreachable!(),
    }
}

pub fn run_one(out: &mut Out, sc: usize, s: &J) {
    if s["kind"] == "datum" {
        let b = get_bytes(&s["bytes"]);
        let b2 = b.clone();
        // also: the datum and a freshly built datum of the same value (other encoding, hence other hash) placed together in a witness set
        let r = call(move || csl::PlutusData::from_bytes(b2)).to_json(|d| {
            let mut m = obj(vec![("to_bytes", jbytes(&d.to_bytes())), ("hash", jbytes(&csl::hash_plutus_data(&d).to_bytes()))]);
            let d1 = d.clone();
            let both = call(move || -> Result<(Vec<u8>, Vec<u8>), csl::JsError> {
                let fresh = csl::PlutusData::from_json(&d1.to_json(csl::PlutusDatumSchema::DetailedSchema)?, csl::PlutusDatumSchema::DetailedSchema)?;
                let mut l = csl::PlutusList::new(); l.add(&d1); l.add(&fresh);
                let mut ws = csl::TransactionWitnessSet::new(); ws.set_plutus_data(&l);
                Ok((fresh.to_bytes(), ws.to_bytes()))
            });
            m.insert("pair".into(), both.to_json(|(c, w)| obj(vec![("fresh", jbytes(&c)), ("ws", jbytes(&w))])));
            m
        });
        out.ev(json!({"ev": "Datum", "sc": sc, "bytes": jbytes(&b), "r": r}));
        return;
    }
    let b = get_bytes(&s["bytes"]);
    let b2 = b.clone();
    let loaded = call(move || csl::FixedTransaction::from_bytes(b2));
    let mut ft = match loaded {
        Outcome::Ok(ft) => ft,
        Outcome::Err(e) => { out.ev(json!({"ev": "Load", "sc": sc, "bytes": jbytes(&b), "dev": s["dev"], "r": {"err": ascii(&e)}})); return; }
        Outcome::Panic(p) => { out.ev(json!({"ev": "Load", "sc": sc, "bytes": jbytes(&b), "dev": s["dev"], "r": {"panic": p}})); return; }
    };
    let mut snap = snapshot(&ft);
    if snap.get("raw_aux").map(|x| x.is_null()).unwrap_or(false) { snap.as_object_mut().unwrap().remove("raw_aux"); }
    out.ev(json!({"ev": "Load", "sc": sc, "bytes": jbytes(&b), "dev": s["dev"], "r": snap}));
    // the read-only views: the body alone, and inside a block / versioned block next to a second, plain body
    if let (Some(body), Some(ws), true) = (s.get("body").filter(|x| x.as_array().map(|a| !a.is_empty()).unwrap_or(false)), s.get("ws").filter(|x| x.is_array()), s["ops"].as_array().map(|a| a.is_empty()).unwrap_or(true)) {
        let (body, ws) = (get_bytes(body), get_bytes(ws));
        let view = |fb: &csl::FixedTransactionBody| json!({"orig": jbytes(&fb.original_bytes()), "hash": jbytes(&fb.tx_hash().to_bytes()), "body": jbytes(&fb.transaction_body().to_bytes())});
        let b1 = body.clone();
        let alone = call(move || csl::FixedTransactionBody::from_bytes(b1)).to_json(|fb| view(&fb).as_object().cloned().unwrap());
        let plain = { let mut ins = csl::TransactionInputs::new(); ins.add(&mk::txin(7, 1)); csl::TransactionBody::new_tx_body(&ins, &csl::TransactionOutputs::new(), &csl::BigNum::from(3u64)).to_bytes() };
        let block: Vec<u8> = [vec![0x85], mk::header().to_bytes(), vec![0x82], body.clone(), plain.clone(), vec![0x82], ws.clone(), vec![0xa0], vec![0xa0, 0x80]].concat();
        let bl = block.clone();
        let views = |b: &csl::FixedBlock| { let t = b.transaction_bodies(); json!({"n": t.len(), "txs": (0..t.len()).map(|i| view(&t.get(i))).collect::<Vec<_>>()}) };
        let in_block = call(move || csl::FixedBlock::from_bytes(bl)).to_json(|b| views(&b).as_object().cloned().unwrap());
        let vblock: Vec<u8> = [vec![0x82, 0x07], block.clone()].concat();
        let vb = vblock.clone();
        let in_vblock = call(move || csl::FixedVersionedBlock::from_bytes(vb)).to_json(|b| views(&b.block()).as_object().cloned().unwrap());
        out.ev(json!({"ev": "View", "sc": sc, "dev": s["dev"], "body_in": jbytes(&body), "block": jbytes(&block), "alone": alone, "in_block": in_block, "in_vblock": in_vblock}));
    }
    for (i, op) in s["ops"].as_array().unwrap().iter().enumerate() {
        let name = op.as_str().unwrap();
        // the witness that will be added (so that the validator knows the exact element bytes)
        let (kind, k) = (if name.starts_with("vkey") { "vkey" } else { "boot" }, name[4..].parse::<u8>().unwrap());
        let hash = ft.transaction_hash();
        let added = if kind == "vkey" { csl::make_vkey_witness(&hash, &mk::sk(k)).to_bytes() } else { csl::make_icarus_bootstrap_witness(&hash, &mk::byron_addr(k, 764824073), &mk::bip32(k)).to_bytes() };
        let r = call(|| if kind == "vkey" { ft.sign_and_add_vkey_signature(&mk::sk(k)) } else { ft.sign_and_add_icarus_bootstrap_signature(&mk::byron_addr(k, 764824073), &mk::bip32(k)) });
        let ok = r.is_ok();
        let mut ev = json!({"ev": "Sign", "sc": sc, "i": i, "kind": kind, "k": k, "added": jbytes(&added), "r": r.to_json(|_| obj(vec![]))});
        if ok {
            let mut snap = snapshot(&ft);
            if snap.get("raw_aux").map(|x| x.is_null()).unwrap_or(false) { snap.as_object_mut().unwrap().remove("raw_aux"); }
            ev["after"] = snap;
        }
        out.ev(ev);
    }
}

fn gen(rng: &mut Rng) -> J {
    // datums in non-canonical encodings: integers with wide heads, big integers that fit 64 bits, chunked / definite byte strings,
    // definite / indefinite lists, maps with unsorted and duplicated keys, constructor tags in both forms
    fn datum(rng: &mut Rng, depth: u32) -> Vec<u8> {
        match rng.below(if depth > 2 { 4 } else { 8 }) {
            0 => { let v = rng.edge_u64(); match rng.below(3) { 0 => { let mut b = vec![0x1b]; b.extend(v.to_be_bytes()); b } 1 => vec![0x18, (v % 24) as u8], _ => { let mut b = vec![0xc2, 0x48]; b.extend(v.to_be_bytes()); b } } }
            1 => { let n = rng.below(70) as usize; let body = rng.bytes(n); if n <= 23 { let mut b = vec![0x58, n as u8]; b.extend(body); b } else { let mut b = vec![0x5f, 0x58, n as u8]; b.extend(body); b.push(0xff); b } }
            2 => { let n = rng.below(20) as usize; let mut b = vec![0x5f]; let body = rng.bytes(n); for ch in body.chunks(7) { b.push(0x40 + ch.len() as u8); b.extend(ch); } b.push(0xff); b }
            // negative integers: minimal, and with every wider head than needed; negative big integers that fit 64 bits
            3 => { let v = rng.below(24) as u8; match rng.below(6) { 0 => vec![0x20 + v], 1 => vec![0x38, v], 2 => vec![0x39, 0, v], 3 => vec![0x3a, 0, 0, 0, v],
                     4 => vec![0x3b, 0, 0, 0, 0, 0, 0, 0, v], _ => vec![0xc3, 0x42, 0, v] } }
            4 => { let n = rng.below(4); let mut b = if rng.chance(1, 2) { vec![0x80 + n as u8] } else { vec![0x9f] }; let indef = b[0] == 0x9f; for _ in 0..n { b.extend(datum(rng, depth + 1)); } if indef { b.push(0xff); } b }
            5 => { let n = rng.below(3); let mut b = vec![0xa0 + n as u8 + if rng.chance(1, 3) && n > 0 { 0 } else { 0 }]; for i in 0..n { b.extend(vec![(9 - i) as u8]); b.extend(datum(rng, depth + 1)); } b }
            6 => { let alt = rng.below(7); let n = rng.below(3); let mut b = vec![0xd8, 0x79 + alt as u8]; b.push(if rng.chance(1, 2) { 0x9f } else { 0x80 + n as u8 }); let indef = *b.last().unwrap() == 0x9f; for _ in 0..n { b.extend(datum(rng, depth + 1)); } if indef { b.push(0xff); } b }
            _ => { let n = rng.below(3); let mut b = vec![0xd8, 0x66, 0x82, 0x18, 200 + rng.below(50) as u8]; b.push(0x80 + n as u8); for _ in 0..n { b.extend(datum(rng, depth + 1)); } b }
        }
    }
    json!({"kind": "datum", "bytes": jbytes(&datum(rng, 0))})
}

pub fn main(a: &Args) {
    drive(a, |rng, _| gen(rng), |out, sc, s| run_one(out, sc, s));
}
