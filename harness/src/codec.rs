//! Codec driver (C01 C02 C03 C17): bytes -> typed value through from_bytes, then every other public form of the value.
use crate::util::*;
use cardano_serialization_lib as csl;
use serde_json::{json, Value as J};

fn hexs(b: &[u8]) -> String { b.iter().map(|x| format!("{:02x}", x)).collect() }

macro_rules! json_part {
    (json, $ty:ty, $v:ident, $m:ident) => {{
        let v = &$v;
        let m = &mut $m;
        // JSON form
        let v2 = v.clone();
        let v3 = v.clone();
        m.insert("json".into(), call(move || v2.to_json()).to_json(|js| {
            let js2 = js.clone();
            let js3 = js.clone();
            obj(vec![("len", json!(js.len())), ("from_json", call(move || <$ty>::from_json(&js2)).to_json(|w| {
                let w2 = w.clone();
                // second pass: the value read from JSON is one built without any retained encoding detail
                let again = call(move || -> Result<(bool, Vec<u8>), csl::JsError> { let j2 = w2.to_json()?; let u = <$ty>::from_json(&j2)?; Ok((j2 == js3, u.to_bytes())) });
                obj(vec![("eq", json!(w == v3)), ("to_bytes", call_total(|| w.to_bytes()).to_json(|x| obj(vec![("b", jbytes(&x))]))),
                         ("again", again.to_json(|(same, b)| obj(vec![("same_json", json!(same)), ("b", jbytes(&b))])))])
            }))])
        }));
    }};
    (nojson, $ty:ty, $v:ident, $m:ident) => {{ let _ = (&$v, &$m); }};
}

macro_rules! codec_type {
    ($ty:ty, $input:expr, $light:expr) => { codec_type!($ty, $input, $light, json) };
    ($ty:ty, $input:expr, $light:expr, $mode:ident) => {{
        let input: Vec<u8> = $input;
        let i2 = input.clone();
        match call(move || <$ty>::from_bytes(i2)) {
            Outcome::Err(e) => json!({"err": ascii(&e)}),
            Outcome::Panic(p) => json!({"panic": p}),
            Outcome::Ok(v) => {
                let tb = call_total(|| v.to_bytes());
                match tb {
                    Outcome::Panic(p) => json!({"ok": true, "ser_panic": p}),
                    Outcome::Err(_) => unreachable!(),
                    Outcome::Ok(b) => {
                        let mut m = obj(vec![("to_bytes", jbytes(&b))]);
                        if !$light {
                            // re-decode: equal value, identical bytes
                            let b2 = b.clone();
                            let v1 = v.clone();
                            m.insert("rt".into(), call(move || <$ty>::from_bytes(b2)).to_json(|w| obj(vec![("eq", json!(w == v1)), ("to_bytes", call_total(|| w.to_bytes()).to_json(|x| obj(vec![("b", jbytes(&x))])))])));
                            // hex entry points
                            let hx = call_total(|| v.to_hex());
                            m.insert("hex".into(), match hx {
                                Outcome::Ok(h) => { let h2 = h.clone(); json!({"to_hex": jtext(&h), "from_hex": call(move || <$ty>::from_hex(&h2)).to_json(|w| obj(vec![("to_bytes", call_total(|| w.to_bytes()).to_json(|x| obj(vec![("b", jbytes(&x))])))]))}) }
                                Outcome::Panic(p) => json!({"panic": p}), Outcome::Err(_) => unreachable!() });
                            json_part!($mode, $ty, v, m);
                        }
                        let mut r = J::Object(m);
                        r["ok"] = json!(true);
                        r
                    }
                }
            }
        }
    }};
}

pub const TYPES: [&str; 32] = ["transaction", "body", "output", "value", "mint", "certificate", "witness_set", "native_script", "plutus_data", "auxiliary_data", "metadata",
    "metadatum", "input", "redeemers", "vkeywitness", "bootstrap_witness", "voting_procedures", "proposal", "script_ref", "drep",
    "int", "bigint", "bignum", "certificates", "inputs", "outputs", "withdrawals", "multiasset", "protocol_param_update", "block", "vkeywitnesses", "bootstrap_witnesses"];

pub fn dispatch(ty: &str, input: Vec<u8>, light: bool) -> J {
    match ty {
        "transaction" => codec_type!(csl::Transaction, input, light),
        "body" => codec_type!(csl::TransactionBody, input, light),
        "output" => codec_type!(csl::TransactionOutput, input, light),
        "value" => codec_type!(csl::Value, input, light),
        "mint" => codec_type!(csl::Mint, input, light),
        "certificate" => codec_type!(csl::Certificate, input, light),
        "witness_set" => codec_type!(csl::TransactionWitnessSet, input, light),
        "native_script" => codec_type!(csl::NativeScript, input, light),
        "plutus_data" => codec_type!(csl::PlutusData, input, light, nojson),
        "auxiliary_data" => codec_type!(csl::AuxiliaryData, input, light),
        "metadata" => codec_type!(csl::GeneralTransactionMetadata, input, light),
        "metadatum" => codec_type!(csl::TransactionMetadatum, input, light, nojson),
        "input" => codec_type!(csl::TransactionInput, input, light),
        "redeemers" => codec_type!(csl::Redeemers, input, light),
        "vkeywitness" => codec_type!(csl::Vkeywitness, input, light),
        "bootstrap_witness" => codec_type!(csl::BootstrapWitness, input, light),
        "voting_procedures" => codec_type!(csl::VotingProcedures, input, light),
        "proposal" => codec_type!(csl::VotingProposal, input, light),
        "script_ref" => codec_type!(csl::ScriptRef, input, light),
        "drep" => codec_type!(csl::DRep, input, light),
        "int" => codec_type!(csl::Int, input, light),
        "bigint" => codec_type!(csl::BigInt, input, light),
        "bignum" => codec_type!(csl::BigNum, input, light),
        "certificates" => codec_type!(csl::Certificates, input, light),
        "inputs" => codec_type!(csl::TransactionInputs, input, light),
        "outputs" => codec_type!(csl::TransactionOutputs, input, light),
        "withdrawals" => codec_type!(csl::Withdrawals, input, light),
        "multiasset" => codec_type!(csl::MultiAsset, input, light),
        "protocol_param_update" => codec_type!(csl::ProtocolParamUpdate, input, light),
        "block" => codec_type!(csl::Block, input, light),
        "gov_action" => codec_type!(csl::GovernanceAction, input, light),
        "header_body" => codec_type!(csl::HeaderBody, input, light),
        "header" => codec_type!(csl::Header, input, light),
        "operational_cert" => codec_type!(csl::OperationalCert, input, light),
        "pool_params" => codec_type!(csl::PoolParams, input, light),
        "address" => codec_type!(csl::Address, input, light, nojson),
        "versioned_block" => codec_type!(csl::VersionedBlock, input, light),
        "vkeywitnesses" => codec_type!(csl::Vkeywitnesses, input, light),
        "bootstrap_witnesses" => codec_type!(csl::BootstrapWitnesses, input, light),
        _ => json!({"err": "harness: unknown type"}),
    }
}

/// serialize a constructed value; "same" = "yes" when its own bytes decode to a value equal to the one that was built
macro_rules! fin { ($name:expr, $ty:ty, $v:expr) => {{ let v: $ty = $v; let b = v.to_bytes(); let same = match <$ty>::from_bytes(b.clone()) { Ok(w) => json!(if w == v { "yes" } else { "no" }), Err(_) => json!("undecodable") }; Ok(($name, b, same)) }}; }
/// construct-first: a value is built through a validating constructor of the typed API, then takes the same route as a decoded one
fn construct(s: &J) -> Result<(&'static str, Vec<u8>, J), String> {
    let e = |x: csl::JsError| format!("{:?}", x);
    let text = |v: &J| -> String { String::from_utf8(get_bytes(v)).unwrap_or_default() };
    match s["what"].as_str().unwrap() {
        "constr" => {
            let mut fields = csl::PlutusList::new();
            for i in 0..s["nfields"].as_u64().unwrap_or(0) { fields.add(&csl::PlutusData::new_integer(&csl::BigInt::from_str(&i.to_string()).map_err(e)?)); }
            let c = csl::ConstrPlutusData::new(&bn_of(&s["alt_n"]), &fields);
            fin!("plutus_data", csl::PlutusData, csl::PlutusData::new_constr_plutus_data(&c))
        }
        "md_text" => fin!("metadatum", csl::TransactionMetadatum, csl::TransactionMetadatum::new_text(text(&s["s"])).map_err(e)?),
        "md_bytes" => fin!("metadatum", csl::TransactionMetadatum, csl::TransactionMetadatum::new_bytes(get_bytes(&s["s"])).map_err(e)?),
        "md_map_text_key" => { let mut m = csl::MetadataMap::new(); m.insert_str(&text(&s["s"]), &csl::TransactionMetadatum::new_int(&csl::Int::new_i32(1))).map_err(e)?; fin!("metadatum", csl::TransactionMetadatum, csl::TransactionMetadatum::new_map(&m)) }
        "md_json" => fin!("metadatum", csl::TransactionMetadatum, csl::encode_json_str_to_metadatum(text(&s["s"]), csl::MetadataJsonSchema::NoConversions).map_err(e)?),
        "asset_name" => { let n = csl::AssetName::new(get_bytes(&s["s"])).map_err(e)?; let mut a = csl::Assets::new(); a.insert(&n, &csl::BigNum::from(1u64)); let mut ma = csl::MultiAsset::new(); ma.insert(&csl::ScriptHash::from_bytes(vec![7; 28]).unwrap(), &a);
                          fin!("value", csl::Value, csl::Value::new_with_assets(&csl::BigNum::from(1u64), &ma)) }
        "url_anchor" => { let a = csl::Anchor::new(&csl::URL::new(text(&s["s"])).map_err(e)?, &csl::AnchorDataHash::from_bytes(vec![9; 32]).unwrap());
                          fin!("certificate", csl::Certificate, csl::Certificate::new_drep_update(&csl::DRepUpdate::new_with_anchor(&csl::Credential::from_keyhash(&csl::Ed25519KeyHash::from_bytes(vec![1; 28]).unwrap()), &a))) }
        "plutus_bytes" => fin!("plutus_data", csl::PlutusData, csl::PlutusData::new_bytes(get_bytes(&s["s"]))),
        "plutus_int" => fin!("plutus_data", csl::PlutusData, csl::PlutusData::new_integer(&csl::BigInt::from_str(&text(&s["s"])).map_err(e)?)),
        "donation" => { let ins = csl::TransactionInputs::new(); let mut b = csl::TransactionBody::new_tx_body(&ins, &csl::TransactionOutputs::new(), &csl::BigNum::from(1u64)); b.set_donation(&bn_of(&s["n"])); fin!("body", csl::TransactionBody, b) }
        // an output paying to every kind of address the constructors give (Byron with one / both attributes, pointers, scripts)
        "out_addr" => fin!("output", csl::TransactionOutput, csl::TransactionOutput::new(&crate::mk::addr(&s["addr"]), &csl::Value::new(&csl::BigNum::from(1_000_000u64)))),
        // decode one form, change the value through the setters, encode again: the container has to follow the content
        "out_decode_then_set" => {
            let mut o = csl::TransactionOutput::from_bytes(get_bytes(&s["bytes"])).map_err(|x| format!("{:?}", x))?;
            match s["set"].as_str().unwrap_or("") {
                "inline" => o.set_plutus_data(&csl::PlutusData::new_integer(&csl::BigInt::from_str("7").map_err(e)?)),
                "hash" => o.set_data_hash(&csl::DataHash::from_bytes(vec![9; 32]).map_err(|x| format!("{:?}", x))?),
                "script" => o.set_script_ref(&csl::ScriptRef::new_plutus_script(&csl::PlutusScript::new_v2(vec![1, 2, 3]))),
                _ => {}
            }
            fin!("output", csl::TransactionOutput, o)
        }
        // a collection built element by element from individually decoded items (datums equal in content but not in encoding are
        // different datums: different hashes), placed where the wire format holds it as a set / as a plain list
        // ---- collections that keep the order (or the multiplicity) in which the caller filled them: every order of filling is a value
        // the API can build, and it has to come back from its own bytes as it was
        "mint_pairs" => {
            let mut m = csl::Mint::new();
            for p in s["pairs"].as_array().unwrap() {
                let amt = p[2].as_i64().unwrap();
                let int = if amt < 0 { csl::Int::new_negative(&csl::BigNum::from((-amt) as u64)) } else { csl::Int::new(&csl::BigNum::from(amt as u64)) };
                m.insert(&crate::numeric::policy(p[0].as_u64().unwrap() as u8), &csl::MintAssets::new_from_entry(&csl::AssetName::new(get_bytes(&p[1])).map_err(e)?, &int).map_err(e)?);
            }
            if s.get("in_body").and_then(|x| x.as_bool()) == Some(true) {
                let mut b = csl::TransactionBody::new_tx_body(&csl::TransactionInputs::new(), &csl::TransactionOutputs::new(), &csl::BigNum::from(1u64)); b.set_mint(&m);
                fin!("body", csl::TransactionBody, b)
            } else { fin!("mint", csl::Mint, m) }
        }
        "withdrawals_order" => {
            let mut w = csl::Withdrawals::new();
            for a in s["accts"].as_array().unwrap() {
                let k = a["k"].as_u64().unwrap() as u8;
                let c = if a["script"].as_bool().unwrap_or(false) { csl::Credential::from_scripthash(&crate::mk::scripthash(k)) } else { csl::Credential::from_keyhash(&crate::mk::keyhash(k)) };
                w.insert(&csl::RewardAddress::new(a["net"].as_u64().unwrap_or(1) as u8, &c), &csl::BigNum::from(1000u64 + k as u64));
            }
            if s.get("in_body").and_then(|x| x.as_bool()) == Some(true) {
                let mut b = csl::TransactionBody::new_tx_body(&csl::TransactionInputs::new(), &csl::TransactionOutputs::new(), &csl::BigNum::from(1u64)); b.set_withdrawals(&w);
                fin!("body", csl::TransactionBody, b)
            } else { fin!("withdrawals", csl::Withdrawals, w) }
        }
        "general_md_order" => {
            let mut g = csl::GeneralTransactionMetadata::new();
            for k in s["keys"].as_array().unwrap() { g.insert(&bn_of(k), &csl::TransactionMetadatum::new_int(&csl::Int::new_i32(7))); }
            fin!("metadata", csl::GeneralTransactionMetadata, g)
        }
        "md_map_order" => {
            let mut m = csl::MetadataMap::new();
            for k in s["keys"].as_array().unwrap() { m.insert(&csl::TransactionMetadatum::new_int(&csl::Int::new(&bn_of(k))), &csl::TransactionMetadatum::new_int(&csl::Int::new_i32(7))); }
            fin!("metadatum", csl::TransactionMetadatum, csl::TransactionMetadatum::new_map(&m))
        }
        "plutus_map_order" => {
            let mut m = csl::PlutusMap::new();
            for k in s["keys"].as_array().unwrap() {
                let key = csl::PlutusData::new_integer(&csl::BigInt::from_str(&crate::util::dec_of_be(&get_bytes(k))).map_err(e)?);
                let mut vals = m.get(&key).unwrap_or(csl::PlutusMapValues::new());
                vals.add(&csl::PlutusData::new_bytes(vec![vals.len() as u8]));
                m.insert(&key, &vals);
            }
            fin!("plutus_data", csl::PlutusData, csl::PlutusData::new_map(&m))
        }
        "multiasset_order" => {
            let mut ma = csl::MultiAsset::new();
            for p in s["pairs"].as_array().unwrap() { ma.set_asset(&crate::numeric::policy(p[0].as_u64().unwrap() as u8), &csl::AssetName::new(get_bytes(&p[1])).map_err(e)?, &csl::BigNum::from(p[2].as_u64().unwrap())); }
            fin!("multiasset", csl::MultiAsset, ma)
        }
        "voting_procedures_order" => {
            let mut v = csl::VotingProcedures::new();
            for p in s["votes"].as_array().unwrap() {
                let k = p[0].as_u64().unwrap() as u8;
                let voter = match p[1].as_u64().unwrap() { 0 => csl::Voter::new_constitutional_committee_hot_credential(&csl::Credential::from_keyhash(&crate::mk::keyhash(k))),
                    1 => csl::Voter::new_constitutional_committee_hot_credential(&csl::Credential::from_scripthash(&crate::mk::scripthash(k))),
                    2 => csl::Voter::new_drep_credential(&csl::Credential::from_keyhash(&crate::mk::keyhash(k))), 3 => csl::Voter::new_drep_credential(&csl::Credential::from_scripthash(&crate::mk::scripthash(k))),
                    _ => csl::Voter::new_stake_pool_key_hash(&crate::mk::keyhash(k)) };
                v.insert(&voter, &csl::GovernanceActionId::new(&csl::TransactionHash::from_bytes(vec![p[2].as_u64().unwrap() as u8; 32]).unwrap(), p[3].as_u64().unwrap() as u32), &csl::VotingProcedure::new(csl::VoteKind::Yes));
            }
            fin!("voting_procedures", csl::VotingProcedures, v)
        }
        "datum_set" | "datum_list" => {
            let mut l = csl::PlutusList::new();
            for b in s["elems"].as_array().unwrap() { l.add(&csl::PlutusData::from_bytes(get_bytes(b)).map_err(|x| format!("{:?}", x))?); }
            if s["what"] == "datum_list" { fin!("plutus_data", csl::PlutusData, csl::PlutusData::new_list(&l)) }
            else { let mut ws = csl::TransactionWitnessSet::new(); ws.set_plutus_data(&l); fin!("witness_set", csl::TransactionWitnessSet, ws) }
        }
        w => Err(format!("harness: unknown construct {}", w)),
    }
}

pub fn run_one(out: &mut Out, sc: usize, s: &J) {
    if s.get("kind").and_then(|k| k.as_str()) == Some("construct") {
        match call(|| construct(s)) {
            Outcome::Ok((ty, b, same)) => { let r = dispatch(ty, b.clone(), false); out.ev(json!({"ev": "Codec", "sc": sc, "type": ty, "in": jbytes(&b), "constructed": s["what"], "constructed_same": same, "r": r})); }
            Outcome::Err(e) => out.ev(json!({"ev": "Constructed", "sc": sc, "what": s["what"], "refused": ascii(&e)})),
            Outcome::Panic(p) => out.ev(json!({"ev": "Constructed", "sc": sc, "what": s["what"], "panic": p})),
        }
        return;
    }
    let ty = s["type"].as_str().unwrap();
    let input = get_bytes(&s["bytes"]);
    let light = s.get("light").and_then(|x| x.as_bool()).unwrap_or(false);
    let r = dispatch(ty, input.clone(), light);
    let mut ev = json!({"ev": "Codec", "sc": sc, "type": ty, "in": jbytes(&input), "r": r});
    if let Some(m) = s.get("mut") { ev["mut"] = m.clone(); }
    let _ = hexs;
    out.ev(ev);
}

/// construct-first scenarios: boundary values of the validating constructors
pub fn construct_scenarios() -> Vec<J> {
    let mut v = vec![];
    for alt in [0u64, 1, 6, 7, 8, 126, 127, 128, 129, 65535, 1 << 32, u64::MAX] { for nf in [0u64, 2] { v.push(json!({"kind": "construct", "what": "constr", "alt_n": jn(alt), "nfields": nf})); } }
    let strs: Vec<String> = vec!["".into(), "a".repeat(63), "a".repeat(64), "a".repeat(65), "é".repeat(32), "é".repeat(33), "€".repeat(21), "€".repeat(22), "😀".repeat(16), "😀".repeat(17), "a".repeat(128), "a".repeat(129), "é".repeat(64), "é".repeat(65)];
    for st in strs.iter() {
        for what in ["md_text", "md_map_text_key", "url_anchor"] { v.push(json!({"kind": "construct", "what": what, "s": jtext(st)})); }
        v.push(json!({"kind": "construct", "what": "md_json", "s": jtext(&format!("{{\"k\":\"{}\"}}", st))}));
        v.push(json!({"kind": "construct", "what": "md_json", "s": jtext(&format!("{{\"{}\":1}}", st))}));
    }
    for n in [0usize, 1, 31, 32, 33, 63, 64, 65, 128, 129, 200] {
        for what in ["md_bytes", "asset_name", "plutus_bytes"] { v.push(json!({"kind": "construct", "what": what, "s": jbytes(&vec![7u8; n])})); }
    }
    for st in ["0", "-1", "18446744073709551615", "18446744073709551616", "-18446744073709551616", "-18446744073709551617", "340282366920938463463374607431768211456", "-340282366920938463463374607431768211457",
               // magnitudes that need 64 / 65 bytes (the chunking boundary of bounded bytes), both signs
               "13407807929942597099574024998205846127479365820592393377723561443721764030073546976801874298166903427690031858186486050853753882811946569946433649006084095",
               "13407807929942597099574024998205846127479365820592393377723561443721764030073546976801874298166903427690031858186486050853753882811946569946433649006084096",
               "-13407807929942597099574024998205846127479365820592393377723561443721764030073546976801874298166903427690031858186486050853753882811946569946433649006084096",
               "-13407807929942597099574024998205846127479365820592393377723561443721764030073546976801874298166903427690031858186486050853753882811946569946433649006084097",
               "-3432398830065304857490950399540696608634717650071652704697231729592771591698828026061279820330727277488648155695740429018560993999858321906287014145557528576"] {
        v.push(json!({"kind": "construct", "what": "plutus_int", "s": jtext(st)}));
    }
    for n in [1u64, 23, 24, u64::MAX] { v.push(json!({"kind": "construct", "what": "donation", "n": jn(n)})); }
    for kind in ["ent", "base", "byron", "ptr", "script_ent", "script_base", "reward"] { for k in [1u64, 2] { for magic in [764824073u64, 1097911063, 1] {
        if kind != "byron" && magic != 1 { continue; }
        v.push(json!({"kind": "construct", "what": "out_addr", "addr": {"kind": kind, "k": k, "net": magic % 2, "magic": magic}}));
    } } }
    // outputs in each container form, then a setter that the form may not be able to carry
    let addr: Vec<u8> = [vec![0x58u8, 0x1d, 0x61], vec![7u8; 28]].concat();
    let legacy2: Vec<u8> = [vec![0x82u8], addr.clone(), vec![0x01]].concat();
    let legacy3: Vec<u8> = [vec![0x83u8], addr.clone(), vec![0x01, 0x58, 0x20], vec![9u8; 32]].concat();
    let map2: Vec<u8> = [vec![0xa2u8, 0x00], addr.clone(), vec![0x01, 0x01]].concat();
    let map3: Vec<u8> = [vec![0xa3u8, 0x00], addr.clone(), vec![0x01, 0x01, 0x02, 0x82, 0x01, 0xd8, 0x18, 0x41, 0x05]].concat();
    for b in [legacy2, legacy3, map2, map3] { for set in ["inline", "hash", "script", "none"] {
        v.push(json!({"kind": "construct", "what": "out_decode_then_set", "bytes": jbytes(&b), "set": set}));
    } }
    // insertion-ordered / repeatable collections: ascending, descending, interleaved, key before script credential and the reverse, an
    // entry inserted again later, the same policy twice (a mint and a burn entry)
    for pairs in [json!([[1, [65], 5]]), json!([[1, [65], 5], [1, [65], -3]]), json!([[1, [65], 5], [1, [66], -3]]), json!([[2, [65], 5], [1, [65], 3]]), json!([[1, [65], 5], [2, [], 1], [1, [67], 2]]), json!([[3, [9, 9], -1], [2, [], -1], [1, [0], -1]])] {
        for in_body in [false, true] { v.push(json!({"kind": "construct", "what": "mint_pairs", "pairs": pairs, "in_body": in_body})); }
    }
    for accts in [json!([{"k": 1}]), json!([{"k": 1}, {"k": 2}]), json!([{"k": 2}, {"k": 1}]), json!([{"k": 3}, {"k": 1}, {"k": 2}]), json!([{"k": 1, "script": true}, {"k": 2}]), json!([{"k": 2}, {"k": 1, "script": true}]),
                  json!([{"k": 1}, {"k": 2}, {"k": 1}]), json!([{"k": 2, "net": 0}, {"k": 1, "net": 1}]), json!([{"k": 5, "script": true}, {"k": 4, "script": true}, {"k": 9}])] {
        for in_body in [false, true] { v.push(json!({"kind": "construct", "what": "withdrawals_order", "accts": accts, "in_body": in_body})); }
    }
    for keys in [vec![1u64, 2], vec![2, 1], vec![256, 3, 24, 23], vec![u64::MAX, 0], vec![5, 6, 5]] {
        let ks: Vec<J> = keys.iter().map(|k| jn(*k)).collect();
        for what in ["general_md_order", "md_map_order", "plutus_map_order"] { v.push(json!({"kind": "construct", "what": what, "keys": ks})); }
    }
    for pairs in [json!([[1, [65], 5], [1, [66], 6]]), json!([[2, [66], 5], [1, [65], 6], [2, [65], 7]]), json!([[1, [66, 66], 1], [1, [67], 1], [1, [], 1]]),
                  // names of 24 and more bytes, where the length no longer sits in the head byte
                  json!([[1, [2,2,2,2,2,2,2,2,2,2,2,2,2,2,2,2,2,2,2,2,2,2,2,2], 1], [1, [1,1,1,1,1,1,1,1,1,1,1,1,1,1,1,1,1,1,1,1,1,1,1,1,1], 1]]),
                  json!([[1, [1,1,1,1,1,1,1,1,1,1,1,1,1,1,1,1,1,1,1,1,1,1,1,1,1,1,1,1,1,1,1,1], 1], [1, [3,3,3,3,3,3,3,3,3,3,3,3,3,3,3,3,3,3,3,3,3,3,3], 1], [1, [2,2,2,2,2,2,2,2,2,2,2,2,2,2,2,2,2,2,2,2,2,2,2,2,2,2,2,2], 1]])] {
        v.push(json!({"kind": "construct", "what": "multiasset_order", "pairs": pairs}));
    }
    for votes in [json!([[1, 0, 1, 0]]), json!([[2, 2, 1, 0], [1, 2, 1, 0]]), json!([[1, 0, 1, 0], [1, 1, 1, 0], [1, 4, 1, 0], [1, 3, 1, 0], [1, 2, 1, 0]]), json!([[1, 2, 2, 0], [1, 2, 1, 1], [1, 2, 1, 0]]), json!([[1, 3, 9, 256], [1, 3, 9, 1]])] {
        v.push(json!({"kind": "construct", "what": "voting_procedures_order", "votes": votes}));
    }
    // datum collections from a pool of encodings: every pair and some triples (same content in two encodings, and unrelated ones)
    let pool: Vec<Vec<u8>> = vec![vec![0xd8, 0x79, 0x80], vec![0xd8, 0x79, 0x9f, 0xff], vec![0x80], vec![0x9f, 0xff], vec![0xa0], vec![0x41, 0xaa], vec![0x5f, 0x41, 0xaa, 0xff], vec![0x01], vec![0xc2, 0x41, 0x01],
                                  vec![0x9f, 0x01, 0xff], vec![0x81, 0x01], vec![0xd8, 0x7a, 0x9f, 0x01, 0xff], vec![0xd8, 0x7a, 0x81, 0x01], vec![0xd8, 0x66, 0x82, 0x01, 0x81, 0x01]];
    for i in 0..pool.len() { for j in 0..pool.len() { if i == j { continue; }
        for what in ["datum_set", "datum_list"] { v.push(json!({"kind": "construct", "what": what, "elems": [jbytes(&pool[i]), jbytes(&pool[j])]})); }
        if (i + 2 * j) % 5 == 0 { let k = (i + j) % pool.len(); v.push(json!({"kind": "construct", "what": "datum_set", "elems": [jbytes(&pool[i]), jbytes(&pool[j]), jbytes(&pool[k])]})); }
    } }
    v
}

pub fn main(a: &Args) {
    let cons = a.flags.iter().any(|f| f == "--construct");
    let extra = if cons { construct_scenarios() } else { vec![] };
    let n_extra = extra.len();
    let a2 = Args { dump: a.dump.clone(), scn: a.scn.clone(), seed: a.seed, n: a.n + n_extra, flags: a.flags.clone() };
    drive(&a2, |rng, i| if i < n_extra { extra[i].clone() } else { json!({"type": *rng.pick(&TYPES[..20]), "bytes": jbytes(&rng.bytes(3)), "light": true}) }, |out, sc, s| run_one(out, sc, s));
}
