//! Schema conversion driver (C17): metadata / Plutus datum <-> JSON under every schema, chunked-bytes helpers.
//! Scenario vocabulary (MC_MetadataJson / random generator below):
//!   {kind:"md", md:[cbor]}   {kind:"pd", pd:[cbor]}   {kind:"jplain"|"jtagged", text:[utf8 json]}   {kind:"bytes", b:[..]}
//! JSON documents cross the trace boundary as tagged trees (numbers keep their literal), never as host-language numbers.
use crate::util::*;
use cardano_serialization_lib as csl;
use serde_json::{json, Value as J};

pub fn jtree(v: &J) -> J {
    match v {
        J::Null => json!({"j": "null"}),
        J::Bool(b) => json!({"j": "bool", "b": b}),
        J::Number(n) => json!({"j": "num", "lit": jbytes(n.to_string().as_bytes())}),
        J::String(s) => json!({"j": "str", "s": jbytes(s.as_bytes())}),
        J::Array(xs) => json!({"j": "arr", "xs": xs.iter().map(jtree).collect::<Vec<_>>()}),
        J::Object(m) => json!({"j": "obj", "kvs": m.iter().map(|(k, v)| json!([jbytes(k.as_bytes()), jtree(v)])).collect::<Vec<_>>()}),
    }
}

fn tree_of_text(t: &str) -> J {
    match serde_json::from_str::<J>(t) { Ok(v) => jtree(&v), Err(e) => json!({"j": "unparsable", "why": ascii(&e.to_string())}) }
}

const MD_SCH: [(&str, csl::MetadataJsonSchema); 3] = [("no", csl::MetadataJsonSchema::NoConversions), ("basic", csl::MetadataJsonSchema::BasicConversions), ("detailed", csl::MetadataJsonSchema::DetailedSchema)];
const PL_SCH: [(&str, csl::PlutusDatumSchema); 2] = [("basic", csl::PlutusDatumSchema::BasicConversions), ("detailed", csl::PlutusDatumSchema::DetailedSchema)];

fn run_md(out: &mut Out, sc: usize, b: Vec<u8>) {
    let b2 = b.clone();
    let md = match call(move || csl::TransactionMetadatum::from_bytes(b2)) {
        Outcome::Ok(m) => m,
        o => { out.ev(json!({"ev": "Refused", "sc": sc, "what": "metadatum", "in": jbytes(&b), "r": o.to_json(|_| obj(vec![]))})); return; }
    };
    for (name, sch) in MD_SCH.iter() {
        let m1 = md.clone();
        let r = call(|| csl::decode_metadatum_to_json_str(&m1, *sch));
        let mut ev = json!({"ev": "MdDec", "sc": sc, "sch": name, "md": jbytes(&b)});
        if let Outcome::Ok(text) = &r {
            let t2 = text.clone();
            ev["back"] = call(move || csl::encode_json_str_to_metadatum(t2, *sch)).to_json(|m| match call_total(|| m.to_bytes()) { Outcome::Ok(b) => obj(vec![("md", jbytes(&b))]), _ => obj(vec![("ser_panic", json!(true))]) });
        }
        ev["r"] = r.to_json(|text| obj(vec![("json", tree_of_text(&text))]));
        out.ev(ev);
    }
    let m1 = md.clone();
    out.ev(json!({"ev": "Unchunk", "sc": sc, "md": jbytes(&b), "r": call(|| csl::decode_arbitrary_bytes_from_metadatum(&m1)).to_json(|x| obj(vec![("b", jbytes(&x))]))}));
}

fn run_pd(out: &mut Out, sc: usize, b: Vec<u8>) {
    let b2 = b.clone();
    let pd = match call(move || csl::PlutusData::from_bytes(b2)) {
        Outcome::Ok(m) => m,
        o => { out.ev(json!({"ev": "Refused", "sc": sc, "what": "plutus_data", "in": jbytes(&b), "r": o.to_json(|_| obj(vec![]))})); return; }
    };
    for (name, sch) in PL_SCH.iter() {
        let p1 = pd.clone();
        let r = call(|| csl::decode_plutus_datum_to_json_str(&p1, *sch));
        let mut ev = json!({"ev": "PlDec", "sc": sc, "sch": name, "pd": jbytes(&b)});
        if let Outcome::Ok(text) = &r {
            let t2 = text.clone();
            ev["back"] = call(move || csl::encode_json_str_to_plutus_datum(&t2, *sch)).to_json(|m| match call_total(|| m.to_bytes()) { Outcome::Ok(b) => obj(vec![("pd", jbytes(&b))]), _ => obj(vec![("ser_panic", json!(true))]) });
        }
        ev["r"] = r.to_json(|text| obj(vec![("json", tree_of_text(&text))]));
        out.ev(ev);
    }
    // the generic JSON form of a datum (to_json / from_json)
    let p1 = pd.clone();
    let r = call(|| p1.to_json(csl::PlutusDatumSchema::DetailedSchema));
    let mut ev = json!({"ev": "PlDec", "sc": sc, "sch": "generic", "pd": jbytes(&b)});
    if let Outcome::Ok(text) = &r {
        let t2 = text.clone();
        ev["back"] = call(move || csl::PlutusData::from_json(&t2, csl::PlutusDatumSchema::DetailedSchema)).to_json(|m| match call_total(|| m.to_bytes()) { Outcome::Ok(b) => obj(vec![("pd", jbytes(&b))]), _ => obj(vec![("ser_panic", json!(true))]) });
    }
    ev["r"] = r.to_json(|text| obj(vec![("json", tree_of_text(&text))]));
    out.ev(ev);
}

fn run_json(out: &mut Out, sc: usize, text: String) {
    let jin = tree_of_text(&text);
    for (name, sch) in MD_SCH.iter() {
        let t = text.clone();
        let r = call(move || csl::encode_json_str_to_metadatum(t, *sch));
        let mut ev = json!({"ev": "MdEnc", "sc": sc, "sch": name, "jin": jin.clone()});
        if let Outcome::Ok(m) = &r {
            let m2 = m.clone();
            ev["back"] = call(move || csl::decode_metadatum_to_json_str(&m2, *sch)).to_json(|t| obj(vec![("json", tree_of_text(&t))]));
        }
        ev["r"] = r.to_json(|m| match call_total(|| m.to_bytes()) { Outcome::Ok(b) => obj(vec![("md", jbytes(&b))]), _ => obj(vec![("ser_panic", json!(true))]) });
        out.ev(ev);
    }
    for (name, sch) in PL_SCH.iter() {
        let t = text.clone();
        let r = call(move || csl::encode_json_str_to_plutus_datum(&t, *sch));
        let mut ev = json!({"ev": "PlEnc", "sc": sc, "sch": name, "jin": jin.clone()});
        if let Outcome::Ok(m) = &r {
            let m2 = m.clone();
            ev["back"] = call(move || csl::decode_plutus_datum_to_json_str(&m2, *sch)).to_json(|t| obj(vec![("json", tree_of_text(&t))]));
        }
        ev["r"] = r.to_json(|m| match call_total(|| m.to_bytes()) { Outcome::Ok(b) => obj(vec![("pd", jbytes(&b))]), _ => obj(vec![("ser_panic", json!(true))]) });
        out.ev(ev);
    }
}

fn run_bytes(out: &mut Out, sc: usize, b: Vec<u8>) {
    let b2 = b.clone();
    let r = call_total(move || csl::encode_arbitrary_bytes_as_metadatum(&b2));
    let mut ev = json!({"ev": "Chunk", "sc": sc, "b": jbytes(&b)});
    if let Outcome::Ok(m) = &r {
        let m2 = m.clone();
        ev["back"] = call(move || csl::decode_arbitrary_bytes_from_metadatum(&m2)).to_json(|x| obj(vec![("b", jbytes(&x))]));
    }
    ev["r"] = r.to_json(|m| match call_total(|| m.to_bytes()) { Outcome::Ok(b) => obj(vec![("md", jbytes(&b))]), _ => obj(vec![("ser_panic", json!(true))]) });
    out.ev(ev);
}

pub fn run_one(out: &mut Out, sc: usize, s: &J) {
    match s["kind"].as_str().unwrap_or("") {
        "md" => run_md(out, sc, get_bytes(&s["md"])),
        "pd" => run_pd(out, sc, get_bytes(&s["pd"])),
        "jplain" | "jtagged" => match String::from_utf8(get_bytes(&s["text"])) { Ok(t) => run_json(out, sc, t), Err(_) => out.ev(json!({"ev": "Refused", "sc": sc, "what": "harness: scenario text is not UTF-8"})) },
        "bytes" => run_bytes(out, sc, get_bytes(&s["b"])),
        k => out.ev(json!({"ev": "Refused", "sc": sc, "what": format!("harness: unknown kind {}", k)})),
    }
}

// ---- seeded random scenarios (same vocabulary) ----
fn head(mt: u8, n: u64, o: &mut Vec<u8>) {
    let m = mt << 5;
    if n < 24 { o.push(m | n as u8) } else if n < 256 { o.push(m | 24); o.push(n as u8) } else if n < 65536 { o.push(m | 25); o.extend(&(n as u16).to_be_bytes()) }
    else if n < (1 << 32) { o.push(m | 26); o.extend(&(n as u32).to_be_bytes()) } else { o.push(m | 27); o.extend(&n.to_be_bytes()) }
}
const EDGE: [u64; 12] = [0, 1, 23, 24, 255, 256, 65535, 65536, (1 << 63) - 1, 1 << 63, u64::MAX - 1, u64::MAX];
fn rnd_str(rng: &mut Rng) -> Vec<u8> {
    let pool: [&str; 14] = ["", "a", "k", "v", "0x", "0xab", "0xAB", "12", "-7", "int", "é", "€", "0x0", "\u{7}"];
    let mut s = pool[rng.below(pool.len() as u64) as usize].as_bytes().to_vec();
    match rng.below(8) { 0 => { while s.len() < 63 { s.push(b'c') } } 1 => { while s.len() < 64 { s.push(b'c') } } _ => {} }
    s
}
fn rnd_md(rng: &mut Rng, d: u32, o: &mut Vec<u8>) {
    match rng.below(if d == 0 { 3 } else { 5 }) {
        0 => { let n = *rng.pick(&EDGE); if rng.below(2) == 0 { head(0, n, o) } else { head(1, n, o) } }
        1 => { let n = rng.below(4) * 21 + rng.below(2); let v: Vec<u8> = (0..n.min(64)).map(|i| (i * 37 + 1) as u8).collect(); head(2, v.len() as u64, o); o.extend(v) }
        2 => { let s = rnd_str(rng); head(3, s.len() as u64, o); o.extend(s) }
        3 => { let n = rng.below(4); head(4, n, o); for _ in 0..n { rnd_md(rng, d - 1, o) } }
        _ => { let n = rng.below(4); head(5, n, o); for i in 0..n { if rng.below(3) == 0 { rnd_md(rng, d - 1, o) } else { let mut s = rnd_str(rng); s.push(b'a' + i as u8); if s.len() > 64 { s.truncate(64) } head(3, s.len() as u64, o); o.extend(s) } rnd_md(rng, d - 1, o) } }
    }
}
fn rnd_pd(rng: &mut Rng, d: u32, o: &mut Vec<u8>) {
    match rng.below(if d == 0 { 3 } else { 6 }) {
        0 => { let n = *rng.pick(&EDGE); if rng.below(2) == 0 { head(0, n, o) } else { head(1, n, o) } }
        1 => { let len = [9usize, 16, 64][rng.below(3) as usize]; head(6, 2 + rng.below(2), o); head(2, len as u64, o); o.push(1 + rng.below(255) as u8); for i in 1..len { o.push((i * 11) as u8) } }
        2 => { let n = rng.below(5) * 16 + rng.below(2); let v: Vec<u8> = if rng.below(2) == 0 { (0..n).map(|i| b'a' + (i % 26) as u8).collect() } else { (0..n).map(|i| (i * 37 + 128) as u8).collect() };
               if v.len() <= 64 { head(2, v.len() as u64, o); o.extend(v) } else { o.push(0x5f); for c in v.chunks(64) { head(2, c.len() as u64, o); o.extend(c) } o.push(0xff) } }
        3 => { let n = rng.below(4); head(4, n, o); for _ in 0..n { rnd_pd(rng, d - 1, o) } }
        4 => { let n = rng.below(4); head(5, n, o); for i in 0..n { if rng.below(4) == 0 { rnd_pd(rng, d - 1, o) } else { head(0, i * 3 + rng.below(2), o) } rnd_pd(rng, d - 1, o) } }
        _ => { let alt = *rng.pick(&[0u64, 1, 6, 7, 100, 127, 128, 70000, u64::MAX]); let n = rng.below(3);
               if alt < 7 { head(6, 121 + alt, o) } else if alt < 128 { head(6, 1280 + alt - 7, o) } else { head(6, 102, o); head(4, 2, o); head(0, alt, o) }
               head(4, n, o); for _ in 0..n { rnd_pd(rng, d - 1, o) } }
    }
}
fn esc(s: &[u8]) -> String { serde_json::to_string(&String::from_utf8_lossy(s).to_string()).unwrap() }
fn rnd_num(rng: &mut Rng) -> String {
    match rng.below(8) { 0 => "1.5".into(), 1 => "-0".into(), 2 => "18446744073709551616".into(), 3 => "-9223372036854775809".into(), 4 => "1e3".into(),
        _ => { let n = *rng.pick(&EDGE); if rng.below(3) == 0 && n <= (1 << 63) && n > 0 { format!("-{}", n) } else { n.to_string() } } }
}
fn rnd_plain(rng: &mut Rng, d: u32) -> String {
    match rng.below(if d == 0 { 4 } else { 6 }) {
        0 => rnd_num(rng),
        1 => { let mut s = rnd_str(rng); if rng.below(6) == 0 { while s.len() < 65 { s.push(b'd') } } esc(&s) }
        2 => { let n = [0u64, 1, 2, 64, 65][rng.below(5) as usize]; format!("\"0x{}\"", "ab".repeat(n as usize)) }
        3 => ["null", "true", "false"][rng.below(3) as usize].into(),
        4 => { let n = rng.below(4); format!("[{}]", (0..n).map(|_| rnd_plain(rng, d - 1)).collect::<Vec<_>>().join(",")) }
        _ => { let n = rng.below(4); format!("{{{}}}", (0..n).map(|i| { let mut k = rnd_str(rng); if rng.below(2) == 0 { k.push(b'a' + i as u8) } format!("{}:{}", esc(&k), rnd_plain(rng, d - 1)) }).collect::<Vec<_>>().join(",")) }
    }
}
fn rnd_tagged(rng: &mut Rng, d: u32) -> String {
    match rng.below(if d == 0 { 4 } else { 9 }) {
        0 => format!("{{\"int\":{}}}", rnd_num(rng)),
        1 => format!("{{\"string\":{}}}", esc(&rnd_str(rng))),
        2 => { let n = [0u64, 1, 32, 64, 65][rng.below(5) as usize]; let h = if rng.below(5) == 0 { "AB" } else { "ab" }; format!("{{\"bytes\":\"{}{}\"}}", if rng.below(8) == 0 { "0x" } else { "" }, h.repeat(n as usize)) }
        3 => rnd_plain(rng, 0),
        4 | 5 => { let n = rng.below(4); format!("{{\"list\":[{}]}}", (0..n).map(|_| rnd_tagged(rng, d - 1)).collect::<Vec<_>>().join(",")) }
        6 | 7 => { let n = rng.below(4); format!("{{\"map\":[{}]}}", (0..n).map(|_| format!("{{\"k\":{},\"v\":{}}}", rnd_tagged(rng, d - 1), rnd_tagged(rng, d - 1))).collect::<Vec<_>>().join(",")) }
        _ => { let n = rng.below(3); format!("{{\"constructor\":{},\"fields\":[{}]}}", rnd_num(rng), (0..n).map(|_| rnd_tagged(rng, d - 1)).collect::<Vec<_>>().join(",")) }
    }
}

pub fn gen(rng: &mut Rng, _i: usize) -> J {
    match rng.below(5) {
        0 => { let mut o = vec![]; rnd_md(rng, 3, &mut o); json!({"kind": "md", "md": jbytes(&o)}) }
        1 => { let mut o = vec![]; rnd_pd(rng, 3, &mut o); json!({"kind": "pd", "pd": jbytes(&o)}) }
        2 => json!({"kind": "jplain", "text": jbytes(rnd_plain(rng, 3).as_bytes())}),
        3 => json!({"kind": "jtagged", "text": jbytes(rnd_tagged(rng, 3).as_bytes())}),
        _ => { let n = [0u64, 1, 63, 64, 65, 127, 128, 129, 300][rng.below(9) as usize] + rng.below(2); json!({"kind": "bytes", "b": jbytes(&(0..n).map(|i| (i * 7) as u8).collect::<Vec<u8>>())}) }
    }
}

pub fn main(a: &Args) {
    drive(a, gen, |out, sc, s| run_one(out, sc, s));
}
