//! C20 driver: the same certificates / withdrawals / proposals are put (a) into a TransactionBody handed to the
//! stand-alone helpers and (b) into a TransactionBuilder; both pairs of figures and both bodies are logged.
use crate::mk;
use crate::util::*;
use cardano_serialization_lib as csl;
use serde_json::{json, Value as J};

fn coin_res(r: Outcome<csl::BigNum>) -> J { r.to_json(|c| obj(vec![("v_n", jbn(&c))])) }
fn val_res(r: Outcome<csl::Value>) -> J {
    r.to_json(|v| obj(vec![("v_n", jbn(&v.coin())), ("has_assets", J::Bool(v.multiasset().map(|m| m.len() > 0).unwrap_or(false)))]))
}

/// stand-alone helpers on a body holding this content (constructed and decoded)
fn helpers(certs_j: &[J], wds_j: &[J], props_j: &[J], pd: &csl::BigNum, kd: &csl::BigNum) -> (Vec<u8>, J, J, J) {
    let mut ins = csl::TransactionInputs::new();
    ins.add(&mk::txin(1, 0));
    let mut body = csl::TransactionBody::new_tx_body(&ins, &csl::TransactionOutputs::new(), &csl::BigNum::from(0u64));
    let mut certs = csl::Certificates::new();
    for c in certs_j { certs.add(&mk::cert(c)); }
    if !certs_j.is_empty() { body.set_certs(&certs); }
    let mut wds = csl::Withdrawals::new();
    for w in wds_j { wds.insert(&mk::reward_addr(w["net"].as_u64().unwrap_or(0) as u8, &mk::cred(&w["cred"])), &bn_of(&w["amt_n"])); }
    if !wds_j.is_empty() { body.set_withdrawals(&wds); }
    let mut props = csl::VotingProposals::new();
    for p in props_j { props.add(&mk::proposal(p)); }
    if !props_j.is_empty() { body.set_voting_proposals(&props); }
    let body_bytes = body.to_bytes();
    let h_dep = coin_res(call(|| csl::get_deposit(&body, pd, kd)));
    let h_imp = val_res(call(|| csl::get_implicit_input(&body, pd, kd)));
    // the same through a decoded body (what a wallet receives)
    let h2 = call(|| csl::TransactionBody::from_bytes(body_bytes.clone())).to_json(|b2| {
        obj(vec![("dep", coin_res(call(|| csl::get_deposit(&b2, pd, kd)))), ("imp", val_res(call(|| csl::get_implicit_input(&b2, pd, kd))))])
    });
    (body_bytes, h_dep, h_imp, h2)
}

/// give the builder this content; in a later phase only the parts that CHANGED are touched (set_* again, or remove_* where a part
/// became empty) - whatever the builder remembered about the old content has to follow
fn give(tb: &mut csl::TransactionBuilder, certs_j: &[J], wds_j: &[J], props_j: &[J], prev: Option<&J>) -> Result<(), csl::JsError> {
    let changed = |key: &str, now: &[J]| -> bool { match prev { None => !now.is_empty(), Some(p) => p[key].as_array().map(|a| a.as_slice() != now).unwrap_or(true) } };
    if changed("certs", certs_j) {
        if !certs_j.is_empty() {
            let mut cb = csl::CertificatesBuilder::new();
            // (a certificate whose credential is the hash of a native script goes in with that script as its witness)
            for c in certs_j { match c.get("nw").and_then(|x| x.as_u64()) {
                Some(k) if mk::cert(c).has_required_script_witness() => cb.add_with_native_script(&mk::cert(c), &csl::NativeScriptSource::new(&mk::pubkey_script(k as u8)))?,
                _ => cb.add(&mk::cert(c))? } }
            tb.set_certs_builder(&cb);
        } else { tb.remove_certs(); }
    }
    if changed("wds", wds_j) {
        if !wds_j.is_empty() {
            let mut wb = csl::WithdrawalsBuilder::new();
            for w in wds_j { let ra = mk::reward_addr(w["net"].as_u64().unwrap_or(0) as u8, &mk::cred(&w["cred"]));
                match w.get("nw").and_then(|x| x.as_u64()) { Some(k) => wb.add_with_native_script(&ra, &bn_of(&w["amt_n"]), &csl::NativeScriptSource::new(&mk::pubkey_script(k as u8)))?, None => wb.add(&ra, &bn_of(&w["amt_n"]))? } }
            tb.set_withdrawals_builder(&wb);
        } else { tb.remove_withdrawals(); }
    }
    if changed("props", props_j) {
        let mut pb = csl::VotingProposalBuilder::new();
        for p in props_j { pb.add(&mk::proposal(p))?; }
        tb.set_voting_proposal_builder(&pb);
    }
    Ok(())
}

/// One event per phase. Phase 0 is the scenario's content; "then" lists further contents the SAME builder is given afterwards
/// (its figures were already asked for in the phase before: whatever it remembered must follow the content).
pub fn run_one(out: &mut Out, sc: usize, s: &J) {
    let kd = bn_of(&s["pp"]["kd_n"]);
    let pd = bn_of(&s["pp"]["pd_n"]);
    let mut phases: Vec<J> = vec![s.clone()];
    if let Some(t) = s.get("then").and_then(|x| x.as_array()) { phases.extend(t.iter().cloned()); }
    let mut tb: Option<csl::TransactionBuilder> = None;
    for (k, ph) in phases.iter().enumerate() {
        let empty = vec![];
        let certs_j = ph["certs"].as_array().unwrap_or(&empty);
        let wds_j = ph["wds"].as_array().unwrap_or(&empty);
        let props_j = ph["props"].as_array().unwrap_or(&empty);
        let r = call_total(|| {
            let (body_bytes, h_dep, h_imp, h2) = helpers(certs_j, wds_j, props_j, &pd, &kd);
            let b = call(|| -> Result<_, csl::JsError> {
                if tb.is_none() {
                    let cfg = csl::TransactionBuilderConfigBuilder::new()
                        .fee_algo(&csl::LinearFee::new(&csl::BigNum::from(44u64), &csl::BigNum::from(155381u64)))
                        .pool_deposit(&pd).key_deposit(&kd).max_value_size(5000).max_tx_size(16384)
                        .coins_per_utxo_byte(&csl::BigNum::from(4310u64)).build()?;
                    let mut t = csl::TransactionBuilder::new(&cfg);
                    t.add_regular_input(&mk::enterprise_addr(0, &csl::Credential::from_keyhash(&mk::keyhash(1))), &mk::txin(1, 0), &csl::Value::new(&csl::BigNum::from(5_000_000u64)))?;
                    tb = Some(t);
                }
                let t = tb.as_mut().unwrap();
                give(t, certs_j, wds_j, props_j, if k > 0 { Some(&phases[k - 1]) } else { None })?;
                let dep = coin_res(call(|| t.get_deposit()));
                let imp = val_res(call(|| t.get_implicit_input()));
                t.set_fee(&csl::BigNum::from(0u64));
                let body = call(|| t.build()).to_json(|b| obj(vec![("bytes", jbytes(&b.to_bytes()))]));
                Ok((dep, imp, body))
            }).to_json(|(dep, imp, body)| obj(vec![("dep", dep), ("imp", imp), ("body", body)]));
            (body_bytes, h_dep, h_imp, h2, b)
        });
        let ev = match r {
            Outcome::Ok((body, h_dep, h_imp, h2, b)) => json!({"ev":"Dep","sc":sc,"phase":k,"pp":s["pp"],"n":[certs_j.len(), wds_j.len(), props_j.len()],
                "body": jbytes(&body), "h_dep": h_dep, "h_imp": h_imp, "h2": h2, "b": b}),
            Outcome::Panic(p) => json!({"ev":"Dep","sc":sc,"phase":k,"pp":s["pp"],"panic":p}),
            Outcome::Err(_) => unreachable!(),
        };
        let refused = ev.get("b").map(|b| b.get("ok").is_none()).unwrap_or(true);
        out.ev(ev);
        // a builder that refused this content is in an unknown state: no further phases
        if refused { break; }
    }
}

fn gen(rng: &mut Rng) -> J {
    let amt = |rng: &mut Rng| -> u64 { match rng.below(5) { 0 => 0, 1 => 2_000_000, 2 => u64::MAX - rng.below(3), 3 => u64::MAX / 2 + rng.below(3), _ => rng.edge_u64() } };
    let nc = rng.below(6);
    // pool ids repeat: several registrations / retirements of ONE pool (distinct certificates: other owner, other epoch) in a transaction
    // credentials repeat in a third of the scenarios: registration and deregistration (in either form) of ONE credential in a transaction
    let few = rng.chance(1, 3);
    let certs: Vec<J> = (0..nc).map(|i| json!({"k": if rng.chance(1, 4) { 3 } else { rng.below(19) }, "cred": {"t":0,"h": if few { 1 + rng.below(2) } else { 1 + i }}, "coin_n": jn(amt(rng)), "pool": 20 + rng.below(2)})).collect();
    // a quarter of the credentials are script hashes (of the native script "signature of key k"): the ledger charges and refunds them alike
    let mut certs = certs;
    for c in certs.iter_mut() { if rng.chance(1, 4) { let k = 1 + rng.below(12); c["cred"] = json!({"t": 1, "hb": jbytes(&mk::pubkey_script(k as u8).hash().to_bytes())}); c["nw"] = json!(k); } }
    let nw = rng.below(3);
    let wds: Vec<J> = (0..nw).map(|i| if rng.chance(1, 4) { let k = 1 + rng.below(12); json!({"cred": {"t": 1, "hb": jbytes(&mk::pubkey_script(k as u8).hash().to_bytes())}, "nw": k, "net": 0, "amt_n": jn(amt(rng))}) }
                                       else { json!({"cred": {"t":0,"h": 30 + i}, "net": 0, "amt_n": jn(amt(rng))}) }).collect();
    let np = rng.below(3);
    let mut props: Vec<J> = (0..np).map(|i| json!({"dep_n": jn(amt(rng)), "cred": {"t":0,"h": 40 + i}})).collect();
    // a proposal that is already present is added again (the set keeps it once)
    if np > 0 && rng.chance(1, 3) { let again = props[0].clone(); props.push(again); }
    let mut scn = json!({"pp": {"kd_n": jn(*rng.pick(&[0u64, 2_000_000, u64::MAX])), "pd_n": jn(*rng.pick(&[0u64, 500_000_000, u64::MAX]))}, "certs": certs, "wds": wds, "props": props});
    // further contents for the same builder: a part removed, replaced by a shorter / other list, or everything removed
    if rng.chance(1, 3) {
        let mut then = vec![];
        let mut cur = scn.clone();
        for _ in 0..1 + rng.below(2) {
            match rng.below(5) {
                0 => { cur["certs"] = json!([]); }
                1 => { cur["wds"] = json!([]); }
                2 => { cur["props"] = json!([]); }
                3 => { if let Some(a) = cur["certs"].as_array_mut() { a.pop(); } if let Some(a) = cur["props"].as_array_mut() { a.pop(); } }
                _ => { cur["certs"] = json!([]); cur["wds"] = json!([]); cur["props"] = json!([]); }
            }
            then.push(json!({"certs": cur["certs"], "wds": cur["wds"], "props": cur["props"]}));
        }
        scn["then"] = J::Array(then);
    }
    scn
}

pub fn main(a: &Args) {
    drive(a, |rng, _| gen(rng), |out, sc, s| run_one(out, sc, s));
}
