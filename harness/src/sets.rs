//! C16 driver: set-typed collections under arbitrary arrival histories, witness-set setters, asset-map insertion orders.
use crate::builder::pscript;
use crate::mk;
use crate::util::*;
use cardano_serialization_lib as csl;
use serde_json::{json, Value as J};

/// the legacy (pre-Conway) encoding of an element: every set tag 258 removed (element ids never contain the byte pattern d9 01 02)
fn untag(b: &[u8]) -> Vec<u8> { let mut o = vec![]; let mut i = 0; while i < b.len() { if i + 2 < b.len() && b[i] == 0xd9 && b[i + 1] == 1 && b[i + 2] == 2 { i += 3; } else { o.push(b[i]); i += 1; } } o }
fn arr_head(n: usize) -> Vec<u8> { if n < 24 { vec![0x80 + n as u8] } else { vec![0x98, n as u8] } }

/// one history on one collection type: constructor path with a list, then add() one by one
macro_rules! run_set {
    ($ty:ty, $mk:expr, $js:expr, $enc:expr, $dec:expr, $bld:expr, $s:expr) => {{
        let s: &J = $s;
        let ids = |k: &str| -> Vec<u64> { s[k].as_array().unwrap().iter().map(|x| x.as_u64().unwrap()).collect() };
        let init = ids("init");
        let adds = ids("adds");
        let elem = |id: u64| $mk(id as u8);
        let mut table = serde_json::Map::new();
        for id in 1..=3u64 { table.insert(id.to_string(), jbytes(&$enc(&elem(id)))); }
        let path = s["path"].as_str().unwrap();
        let r = call(|| -> Result<_, csl::JsError> {
            let mut c: $ty = match path {
                "new" => <$ty>::new(),
                // the collection as a BUILDER hands it out (the constructor list went through the builder's add)
                "builder" => { let f: Option<fn(Vec<_>) -> Result<$ty, csl::JsError>> = $bld; match f { Some(f) => f(init.iter().map(|id| elem(*id)).collect())?, None => return Err(csl::JsError::from_str("no builder for this collection")) } }
                "json" => {
                    let parts: Vec<String> = init.iter().map(|id| $js(&elem(*id))).collect();
                    <$ty>::from_json(&format!("[{}]", parts.join(",")))?
                }
                _ => {
                    let mut b = if path == "cbor" || path == "cbor_decoded_adds" { vec![0xd9, 0x01, 0x02] } else { vec![] };
                    b.extend(arr_head(init.len()));
                    for id in init.iter() { b.extend($enc(&elem(*id))); }
                    <$ty>::from_bytes(b).map_err(|e| csl::JsError::from_str(&format!("{:?}", e)))?
                }
            };
            // elements arriving through add(): built through the API, or (path cbor_decoded_adds) decoded from their legacy encoding
            let decoded_adds = path == "cbor_decoded_adds";
            let added: Vec<bool> = adds.iter().map(|id| { let e = elem(*id); if decoded_adds { c.add(&$dec(untag(&$enc(&e)))) } else { c.add(&e) } }).collect();
            let gets: Vec<J> = (0..c.len()).map(|i| jbytes(&$enc(&c.get(i)))).collect();
            Ok((c.to_bytes(), c.len(), added, gets))
        }).to_json(|(b, n, added, gets)| obj(vec![("bytes", jbytes(&b)), ("len", json!(n)), ("added", json!(added)), ("gets", J::Array(gets))]));
        (J::Object(table), r)
    }};
}

pub fn run_one(out: &mut Out, sc: usize, s: &J) {
    if s["kind"] == "assets" { return run_assets(out, sc, s); }
    let types: Vec<&str> = match s.get("types") { Some(t) => t.as_array().unwrap().iter().map(|x| x.as_str().unwrap()).collect(),
        None => vec!["inputs", "keyhashes", "credentials", "certificates", "proposals", "vkeywitnesses", "bootstraps", "ws_native", "ws_plutus", "ws_plutus_mix", "ws_data"] };
    for ty in types {
        let (table, r) = match ty {
            "inputs" => run_set!(csl::TransactionInputs, |id: u8| mk::txin(id, id as u32), |e: &csl::TransactionInput| e.to_json().unwrap(), |e: &csl::TransactionInput| e.to_bytes(), |b: Vec<u8>| csl::TransactionInput::from_bytes(b).unwrap(),
                Some(|es: Vec<csl::TransactionInput>| { let mut b = csl::TxInputsBuilder::new(); for e in es.iter() { b.add_regular_input(&mk::enterprise_addr(0, &csl::Credential::from_keyhash(&mk::keyhash(1))), e, &csl::Value::new(&csl::BigNum::from(1_000_000u64))); } Ok(b.inputs()) }), s),
            "keyhashes" => run_set!(csl::Ed25519KeyHashes, |id: u8| mk::keyhash(id), |e: &csl::Ed25519KeyHash| format!("\"{}\"", e.to_hex()), |e: &csl::Ed25519KeyHash| { let mut b = vec![0x58, 0x1c]; b.extend(e.to_bytes()); b }, |b: Vec<u8>| csl::Ed25519KeyHash::from_bytes(b[2..].to_vec()).unwrap(), None, s),
            "credentials" => run_set!(csl::Credentials, |id: u8| if id == 3 { csl::Credential::from_scripthash(&mk::scripthash(id)) } else { csl::Credential::from_keyhash(&mk::keyhash(id)) }, |e: &csl::Credential| e.to_json().unwrap(), |e: &csl::Credential| e.to_bytes(), |b: Vec<u8>| csl::Credential::from_bytes(b).unwrap(), None, s),
            "certificates" => run_set!(csl::Certificates, |id: u8| mk::cert(&json!({"k": if id == 3 { 7 } else if id == 2 { 3 } else { 2 }, "cred": {"t": 0, "h": id}, "pool": 7, "coin_n": [id]})), |e: &csl::Certificate| e.to_json().unwrap(), |e: &csl::Certificate| e.to_bytes(), |b: Vec<u8>| csl::Certificate::from_bytes(b).unwrap(),
                Some(|es: Vec<csl::Certificate>| { let mut b = csl::CertificatesBuilder::new(); for e in es.iter() { let _ = b.add(e); } Ok(b.build()) }), s),
            "proposals" => run_set!(csl::VotingProposals, |id: u8| mk::proposal(&json!({"dep_n": [id], "cred": {"t": 0, "h": id}})), |e: &csl::VotingProposal| e.to_json().unwrap(), |e: &csl::VotingProposal| e.to_bytes(), |b: Vec<u8>| csl::VotingProposal::from_bytes(b).unwrap(),
                Some(|es: Vec<csl::VotingProposal>| { let mut b = csl::VotingProposalBuilder::new(); for e in es.iter() { let _ = b.add(e); } Ok(b.build()) }), s),
            "vkeywitnesses" => run_set!(csl::Vkeywitnesses, |id: u8| csl::Vkeywitness::new(&csl::Vkey::new(&mk::sk(id).to_public()), &mk::sk(id).sign(&[id])), |e: &csl::Vkeywitness| e.to_json().unwrap(), |e: &csl::Vkeywitness| e.to_bytes(), |b: Vec<u8>| csl::Vkeywitness::from_bytes(b).unwrap(), None, s),
            "bootstraps" => run_set!(csl::BootstrapWitnesses, |id: u8| csl::make_icarus_bootstrap_witness(&csl::TransactionHash::from_bytes(mk::h32(id)).unwrap(), &mk::byron_addr(id, 764824073), &mk::bip32(id)), |e: &csl::BootstrapWitness| e.to_json().unwrap(), |e: &csl::BootstrapWitness| e.to_bytes(), |b: Vec<u8>| csl::BootstrapWitness::from_bytes(b).unwrap(), None, s),
            _ => run_ws(ty, s),
        };
        // a collection no builder hands out has no "builder" path
        if s["path"] == "builder" && r.get("err").and_then(|e| e.as_str()).map(|e| e.contains("no builder for this collection")).unwrap_or(false) { continue; }
        out.ev(json!({"ev": "Set", "sc": sc, "type": ty, "path": s["path"], "init": s["init"], "adds": s["adds"], "elem": table, "r": r}));
    }
}

/// witness-set setters: the whole arrival list (with repeats) is placed through the typed setter, then the witness set is serialized
fn run_ws(ty: &str, s: &J) -> (J, J) {
    let mut all: Vec<u64> = s["init"].as_array().unwrap().iter().map(|x| x.as_u64().unwrap()).collect();
    all.extend(s["adds"].as_array().unwrap().iter().map(|x| x.as_u64().unwrap()));
    let mut table = serde_json::Map::new();
    let r = call(|| -> Result<_, csl::JsError> {
        let mut ws = csl::TransactionWitnessSet::new();
        match ty {
            "ws_native" => { let mut c = csl::NativeScripts::new(); for id in all.iter() { c.add(&mk::pubkey_script(*id as u8)); } ws.set_native_scripts(&c); }
            "ws_plutus" => { let mut c = csl::PlutusScripts::new(); for id in all.iter() { c.add(&pscript(*id as u8 * 3 + 1)); } ws.set_plutus_scripts(&c); }   // ids 4,7,10: all PlutusV2
            // scripts of three language versions in one list (ids 1, 2, 3 -> V2, V3, V1): a script may come again after a script of another version
            "ws_plutus_mix" => { let mut c = csl::PlutusScripts::new(); for id in all.iter() { c.add(&pscript([4u8, 5, 3][(*id as usize - 1) % 3])); } ws.set_plutus_scripts(&c); }
            _ => { let mut c = csl::PlutusList::new(); for id in all.iter() { c.add(&csl::PlutusData::new_bytes(vec![*id as u8; 3])); } ws.set_plutus_data(&c); }
        }
        Ok(ws.to_bytes())
    }).to_json(|b| obj(vec![("bytes", jbytes(&b))]));
    for id in 1..=3u64 {
        let b = match ty { "ws_native" => mk::pubkey_script(id as u8).to_bytes(), "ws_plutus" => pscript(id as u8 * 3 + 1).to_bytes(), "ws_plutus_mix" => pscript([4u8, 5, 3][(id as usize - 1) % 3]).to_bytes(), _ => csl::PlutusData::new_bytes(vec![id as u8; 3]).to_bytes() };
        table.insert(id.to_string(), jbytes(&b));
    }
    (J::Object(table), r)
}

fn run_assets(out: &mut Out, sc: usize, s: &J) {
    let order = s["order"].as_array().unwrap();
    let r = call(|| -> Result<_, csl::JsError> {
        let mut ma = csl::MultiAsset::new();
        let mut mb = csl::MintBuilder::new();
        for (i, a) in order.iter().enumerate() {
            let p = a["p"].as_u64().unwrap() as u8;
            let name = csl::AssetName::new(get_bytes(&a["n"]))?;
            ma.set_asset(&mk::pubkey_script(p).hash(), &name, &csl::BigNum::from(i as u64 + 1));
            mb.add_asset(&csl::MintWitness::new_native_script(&csl::NativeScriptSource::new(&mk::pubkey_script(p))), &name, &csl::Int::new_i32(i as i32 + 1))?;
        }
        let v = csl::Value::new_with_assets(&csl::BigNum::from(1u64), &ma);
        // the builder's emitted mint field
        let cfg = csl::TransactionBuilderConfigBuilder::new().fee_algo(&csl::LinearFee::new(&csl::BigNum::from(44u64), &csl::BigNum::from(155381u64)))
            .pool_deposit(&csl::BigNum::from(1u64)).key_deposit(&csl::BigNum::from(1u64)).max_value_size(5000).max_tx_size(16384).coins_per_utxo_byte(&csl::BigNum::from(1u64)).build()?;
        let mut tb = csl::TransactionBuilder::new(&cfg);
        tb.set_mint_builder(&mb);
        tb.add_regular_input(&mk::enterprise_addr(0, &mk::gcred(1)), &mk::txin(1, 0), &csl::Value::new(&csl::BigNum::from(9_000_000u64)))?;
        tb.set_fee(&csl::BigNum::from(0u64));
        let body = tb.build()?;
        Ok((v.to_bytes(), mb.build()?.to_bytes(), body.to_bytes()))
    }).to_json(|(v, m, b)| obj(vec![("value", jbytes(&v)), ("mint", jbytes(&m)), ("body", jbytes(&b))]));
    out.ev(json!({"ev": "Assets", "sc": sc, "order": s["order"], "r": r}));
}

fn gen(rng: &mut Rng) -> J {
    if rng.chance(1, 3) {
        let n = 2 + rng.below(7);
        let order: Vec<J> = (0..n).map(|_| { let l = *rng.pick(&[0usize, 1, 1, 2, 3, 32]); json!({"p": 1 + rng.below(3), "n": jbytes(&rng.bytes(l))}) }).collect();
        return json!({"kind": "assets", "order": order});
    }
    let li = rng.below(8);
    let la = rng.below(8);
    json!({"kind": "set", "path": *rng.pick(&["new", "cbor", "cbor_untagged", "json"]), "init": (0..li).map(|_| 1 + rng.below(3)).collect::<Vec<_>>(),
           "adds": (0..la).map(|_| 1 + rng.below(3)).collect::<Vec<_>>()})
}

pub fn main(a: &Args) {
    drive(a, |rng, _| { let mut s = gen(rng); if s["kind"] == "set" && s["path"] == "new" { s["init"] = json!([]); } s }, |out, sc, s| run_one(out, sc, s));
}
