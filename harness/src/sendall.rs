//! C13 driver: create_send_all on a UTxO set; every returned transaction is logged unsigned and really signed
//! (one key witness per distinct owning key, one bootstrap witness per Byron address).
use crate::builder::bvalue;
use crate::mk;
use crate::numeric::jvalue;
use crate::util::*;
use cardano_serialization_lib as csl;
use serde_json::{json, Value as J};
use std::collections::{BTreeMap, BTreeSet};

/// "rerun": "maxtx" | "maxval" asks for a second pass whose limit sits one byte below the largest transaction / output value the
/// first pass produced, so that the splitting decisions are taken exactly at the boundary
pub fn run_one(out: &mut Out, sc: usize, s: &J) {
    let (smax, vmax) = run_pass(out, sc, s);
    let mut s2 = s.clone();
    match s.get("rerun").and_then(|x| x.as_str()) {
        Some("maxtx") if smax > 1 => { s2["pp"]["maxtx"] = json!(smax as u64 - 1); }
        Some("maxval") if vmax >= 40 => { s2["pp"]["maxval"] = json!(vmax as u64 - 1); }
        _ => return,
    }
    s2.as_object_mut().unwrap().remove("rerun");
    run_pass(out, sc, &s2);
}

fn run_pass(out: &mut Out, sc: usize, s: &J) -> (usize, usize) {
    let (mut smax, mut vmax) = (0usize, 0usize);
    let pp = &s["pp"];
    let g = |k: &str, d: u64| pp.get(k).and_then(|x| x.as_u64()).unwrap_or(d);
    let cfg = csl::TransactionBuilderConfigBuilder::new()
        .fee_algo(&csl::LinearFee::new(&csl::BigNum::from(g("a", 44)), &csl::BigNum::from(g("b", 155381))))
        .pool_deposit(&csl::BigNum::from(500_000_000u64)).key_deposit(&csl::BigNum::from(2_000_000u64))
        .max_value_size(g("maxval", 5000) as u32).max_tx_size(g("maxtx", 16384) as u32)
        .coins_per_utxo_byte(&csl::BigNum::from(g("cpb", 4310))).build().unwrap();
    let target = mk::addr(&s["target"]);
    let mut utxos = csl::TransactionUnspentOutputs::new();
    let mut env = vec![];
    let mut owner: BTreeMap<Vec<u8>, (bool, u8, u32)> = BTreeMap::new();
    let mut byr_ids: BTreeSet<(u8, u32)> = BTreeSet::new();
    let mut key_ids: BTreeSet<u8> = BTreeSet::new();
    for (i, u) in s["utxo"].as_array().unwrap().iter().enumerate() {
        let input = mk::txin(u.get("tx").and_then(|x| x.as_u64()).unwrap_or(i as u64 + 1) as u8, u.get("ix").and_then(|x| x.as_u64()).unwrap_or(0) as u32);
        let addr = mk::addr(&u["addr"]);
        let mut value = bvalue(&u["value"]);
        if u.get("empty_ma").and_then(|x| x.as_bool()).unwrap_or(false) { value.set_multiasset(&csl::MultiAsset::new()); }
        utxos.add(&csl::TransactionUnspentOutput::new(&input, &csl::TransactionOutput::new(&addr, &value)));
        env.push(json!({"txid": jbytes(&input.transaction_id().to_bytes()), "ix": input.index(), "addr": jbytes(&addr.to_bytes()), "value": jvalue(&value)}));
        let k = u["addr"]["k"].as_u64().unwrap_or(1) as u8;
        let magic = u["addr"].get("magic").and_then(|x| x.as_u64()).unwrap_or(764824073) as u32;
        let is_byron = u["addr"]["kind"].as_str() == Some("byron");
        owner.insert(input.to_bytes(), (is_byron, k, magic));
        if is_byron { byr_ids.insert((k, magic)); }
        key_ids.insert(k);
    }
    let keys: Vec<J> = (1u8..=16).map(|k| { let (vk, h) = mk::pubinfo(k); json!({"k": k, "vkey": jbytes(&vk), "hash": jbytes(&h)}) }).collect();
    let byr: Vec<J> = byr_ids.iter().map(|(k, m)| { let a = mk::byron_addr(*k, *m); json!({"k": k, "addr": jbytes(&a.to_address().to_bytes()), "vkey": jbytes(&mk::bip32(*k).to_public().as_bytes()[..32])}) }).collect();
    let _ = &key_ids;
    out.ev(json!({"ev": "Reset", "sc": sc, "pp": {"a": g("a", 44), "b": g("b", 155381), "cpb": g("cpb", 4310), "maxval": g("maxval", 5000), "maxtx": g("maxtx", 16384)},
                  "utxo": env, "target": jbytes(&target.to_bytes()), "keys": keys, "byron": byr}));
    let r = call(|| csl::create_send_all(&target, &utxos, &cfg));
    let ev = match r {
        Outcome::Ok(list) => {
            let mut txs = vec![];
            for bi in 0..list.len() {
                let batch = list.get(bi);
                for ti in 0..batch.len() {
                    let tx = batch.get(ti);
                    let signed = call(|| -> Result<Vec<u8>, csl::JsError> {
                        let mut vk: BTreeSet<u8> = BTreeSet::new();
                        let mut by: BTreeSet<(u8, u32)> = BTreeSet::new();
                        let ins = tx.body().inputs();
                        for i in 0..ins.len() { if let Some((b, k, m)) = owner.get(&ins.get(i).to_bytes()) { if *b { by.insert((*k, *m)); } else { vk.insert(*k); } } }
                        // the batch builder returns mock witnesses: sign the body afresh
                        let mut ft = csl::FixedTransaction::new_from_body_bytes(&tx.body().to_bytes())?;
                        for k in vk.iter() { ft.sign_and_add_vkey_signature(&mk::sk(*k))?; }
                        for (k, m) in by.iter() { ft.sign_and_add_icarus_bootstrap_signature(&mk::byron_addr(*k, *m), &mk::bip32(*k))?; }
                        Ok(ft.to_bytes())
                    });
                    if let Outcome::Ok(b) = &signed { smax = smax.max(b.len()); }
                    let outs = tx.body().outputs();
                    for oi in 0..outs.len() { vmax = vmax.max(outs.get(oi).amount().to_bytes().len()); }
                    let signed = signed.to_json(|b| obj(vec![("bytes", jbytes(&b))]));
                    txs.push(json!({"tx": jbytes(&tx.to_bytes()), "signed": signed}));
                }
            }
            json!({"ev": "Batch", "sc": sc, "txs": txs})
        }
        Outcome::Err(e) => json!({"ev": "BatchErr", "sc": sc, "err": ascii(&e)}),
        Outcome::Panic(p) => json!({"ev": "BatchErr", "sc": sc, "panic": p}),
    };
    out.ev(ev);
    (smax, vmax)
}

/// many dust UTxOs (too small to pay for a transaction of their own) next to a few ordinary ones, under a small transaction size: which
/// UTxOs are left for the last transaction depends on the order in which the categorizer's hash sets hand them out
fn gen_dust(rng: &mut Rng) -> J {
    let n = 8 + rng.below(45);
    let mut utxo = vec![];
    for i in 0..n {
        let kind = *rng.pick(&["ent", "ent", "base", "byron", "ptr"]);
        let dust = rng.chance(1, 2);
        let na = if dust || rng.chance(1, 2) { 0 } else { 1 + rng.below(6) };
        let assets: Vec<J> = (0..na).map(|j| json!({"p": [1 + rng.below(3)], "n": jbytes(&[(i * 7 + j) as u8, j as u8]), "q_n": jn(1 + rng.below(1000))})).collect();
        let coin = if dust { 150_000 + rng.below(120_000) } else { (match rng.below(3) { 0 => 1_300_000 + rng.below(400_000), 1 => 5_000_000_000 + rng.below(1000), _ => 2_000_000 + rng.below(20_000_000) }) + na * 300_000 };
        utxo.push(json!({"tx": (i * 11) % 251 + 1, "ix": rng.below(3), "addr": {"kind": kind, "k": 1 + rng.below(5)}, "value": {"coin_n": jn(coin), "assets": assets}}));
    }
    let mut scn = json!({"pp": {"a": 44, "b": 155381, "cpb": 4310, "maxval": *rng.pick(&[5000u64, 300]), "maxtx": *rng.pick(&[16384u64, 2000, 1500, 1000])},
           "target": {"kind": *rng.pick(&["ent", "base"]), "k": 14 + rng.below(2)}, "utxo": utxo});
    if rng.chance(1, 2) { scn["rerun"] = json!("maxtx"); }
    scn
}

fn gen(rng: &mut Rng) -> J {
    if rng.chance(1, 6) { return gen_dust(rng); }
    let big = rng.chance(1, 6);
    let n = 1 + rng.below(if big { 60 } else { 12 });
    let npol = 1 + rng.below(4);
    let shared_assets = rng.chance(1, 2);
    let mut utxo = vec![];
    for i in 0..n {
        let kind = *rng.pick(&["ent", "ent", "base", "byron", "ptr"]);
        let na = match rng.below(5) { 0 | 1 => 0, 2 => 1, 3 => 1 + rng.below(5), _ => 1 + rng.below(30) };
        let assets: Vec<J> = (0..na).map(|j| {
            let name: Vec<u8> = if shared_assets { vec![65 + (j % 6) as u8] } else { match rng.below(3) { 0 => vec![9; 32], 1 => vec![(i * 7 + j) as u8, j as u8], _ => { let l = 1 + rng.below(12) as usize; rng.bytes(l) } } };
            // quantities whose sums cross CBOR width boundaries
            let q = match rng.below(5) { 0 => 1, 1 => 12 + rng.below(12), 2 => 128 + rng.below(128), 3 => 32768 + rng.below(32768), _ => 1 + rng.below(1 << 33) };
            json!({"p": [1 + rng.below(npol)], "n": jbytes(&name), "q_n": jn(q)})
        }).collect();
        let coin = match rng.below(6) { 0 => 1_000_000 + rng.below(500_000), 1 => 150_000 + rng.below(100_000), 2 => 5_000_000_000 + rng.below(1000), 3 => 65_536 * 20 + rng.below(9), _ => 1_200_000 + rng.below(20_000_000) };
        let mut e = json!({"tx": (i * 11) % 251 + 1, "ix": rng.below(3), "addr": {"kind": kind, "k": 1 + rng.below(5), "magic": *rng.pick(&[764824073u64, 764824073, 1097911063, 2])}, "value": {"coin_n": jn(coin + na * 300_000), "assets": assets}});
        if na == 0 && rng.chance(1, 12) { e["empty_ma"] = json!(true); }
        utxo.push(e);
    }
    let mut scn = json!({"pp": {"a": 44, "b": 155381, "cpb": *rng.pick(&[4310u64, 4310, 34482, 1]), "maxval": *rng.pick(&[5000u64, 4000, 300, 150]), "maxtx": *rng.pick(&[16384u64, 8000, 2000, 1000])},
           "target": {"kind": *rng.pick(&["ent", "base", "byron", "ptr"]), "k": 14 + rng.below(2)}, "utxo": utxo});
    match rng.below(6) { 0 => { scn["rerun"] = json!("maxtx"); } 1 => { scn["rerun"] = json!("maxval"); } _ => {} }
    scn
}

pub fn main(a: &Args) {
    drive(a, |rng, _| gen(rng), |out, sc, s| run_one(out, sc, s));
}
