//! C02 driver: totality of the public parsers. (a) structure-aware single mutations of schema instances at the node spans found by
//! the TLA+ parser; (b) every input of length <= 2 for every byte decoder; (c) malformed text for the text entry points.
//! Err outcomes are only counted (ParseBatch); every Ok and every Panic is logged as its own event.
use crate::codec::{dispatch, TYPES};
use crate::mk;
use crate::util::*;
use cardano_serialization_lib as csl;
use serde_json::{json, Value as J};

fn head(mt: u8, n: u64, w: u8) -> Vec<u8> {
    match w { 0 => vec![mt * 32 + (n as u8 & 31)], 1 => vec![mt * 32 + 24, n as u8], 2 => { let mut b = vec![mt * 32 + 25]; b.extend((n as u16).to_be_bytes()); b }
              4 => { let mut b = vec![mt * 32 + 26]; b.extend((n as u32).to_be_bytes()); b } _ => { let mut b = vec![mt * 32 + 27]; b.extend(n.to_be_bytes()); b } }
}
fn head_len(ai: u8) -> usize { match ai { 24 => 2, 25 => 3, 26 => 5, 27 => 9, _ => 1 } }

/// all single structural mutations of `b` at node (lo, hi, mt, ai); lo/hi are 1-based inclusive
fn mutants(b: &[u8], lo: usize, hi: usize, mt: u8, ai: u8) -> Vec<(String, Vec<u8>)> {
    let (l, h) = (lo - 1, hi);                    // 0-based [l, h)
    let mut out: Vec<(String, Vec<u8>)> = vec![];
    let splice = |rep: &[u8], from: usize, to: usize| -> Vec<u8> { let mut v = b[..from].to_vec(); v.extend(rep); v.extend(&b[to..]); v };
    let hl = head_len(ai).min(h - l);
    // truncation at the item boundary, inside the head, at the end of the item
    for cut in [l, l + 1, l + hl, h - 1, h] { if cut <= b.len() { out.push((format!("truncate@{}", cut - l), b[..cut].to_vec())); } }
    // every bit of the head byte
    for bit in 0..8 { let mut v = b.to_vec(); v[l] ^= 1 << bit; out.push((format!("flipbit{}", bit), v)); }
    // additional-info rewrites: every width, reserved values, indefinite
    for nai in [0u8, 23, 24, 25, 26, 27, 28, 30, 31] { let mut v = b.to_vec(); v[l] = (v[l] & 0xe0) | nai; out.push((format!("ai{}", nai), v)); }
    // declared length / value rewrites
    for (name, n, w) in [("len0", 0u64, 0u8), ("len1", 1, 0), ("len23", 23, 0), ("len255", 255, 1), ("len2^32-1", 0xffff_ffff, 4), ("len2^63", 1 << 63, 8), ("len2^64-1", u64::MAX, 8)] {
        out.push((name.to_string(), splice(&head(mt, n, w), l, l + hl)));
    }
    // other major types with the same argument
    for nmt in 0..8u8 { if nmt != mt { let mut v = b.to_vec(); v[l] = nmt * 32 + (v[l] & 31); out.push((format!("major{}", nmt), v)); } }
    // replace the item by a special / insert specials and breaks / wrap in tags / duplicate / drop
    for (name, rep) in [("null", vec![0xf6u8]), ("undefined", vec![0xf7]), ("false", vec![0xf4]), ("break", vec![0xff]), ("float", vec![0xfb, 0, 0, 0, 0, 0, 0, 0, 0]), ("simple32", vec![0xf8, 32]), ("empty-indef-arr", vec![0x9f, 0xff]), ("empty-indef-map", vec![0xbf, 0xff]), ("neg", vec![0x20])] {
        out.push((format!("replace-{}", name), splice(&rep, l, h)));
    }
    for (name, ins) in [("break", vec![0xffu8]), ("null", vec![0xf6]), ("zero", vec![0x00])] {
        out.push((format!("insert-{}-before", name), splice(&ins, l, l)));
        out.push((format!("insert-{}-after", name), splice(&ins, h, h)));
    }
    for (name, pre) in [("tag24", vec![0xd8u8, 24]), ("tag258", vec![0xd9, 1, 2]), ("tag2", vec![0xc2]), ("tag-huge", vec![0xdb, 255, 255, 255, 255, 255, 255, 255, 255])] {
        let mut rep = pre.clone(); rep.extend(&b[l..h]); out.push((format!("wrap-{}", name), splice(&rep, l, h)));
    }
    // the item replaced by an EMPTY container / string of each kind (present-but-empty fields)
    for (name, rep) in [("empty-arr", vec![0x80u8]), ("empty-map", vec![0xa0]), ("empty-set", vec![0xd9, 1, 2, 0x80]), ("empty-bytes", vec![0x40]), ("empty-text", vec![0x60]), ("zero", vec![0x00])] {
        out.push((format!("replace-{}", name), splice(&rep, l, h)));
    }
    { let mut rep = b[l..h].to_vec(); rep.extend(&b[l..h]); out.push(("duplicate".into(), splice(&rep, l, h))); }
    out.push(("drop".into(), splice(&[], l, h)));
    // definite <-> indefinite container with the same content
    if (mt == 4 || mt == 5 || mt == 2 || mt == 3) && ai != 31 && h - l >= hl {
        let mut rep = vec![mt * 32 + 31];
        if mt == 2 || mt == 3 { rep.extend(&b[l..h]); } else { rep.extend(&b[l + hl..h]); }
        rep.push(0xff);
        out.push(("to-indefinite".into(), splice(&rep, l, h)));
    }
    out
}

struct Tally { tried: u64, err: u64, ok: u64, panic: u64 }

// A decoder may kill the process (allocation of a huge declared length aborts). Before every call the input is noted in a side
// file; when the process dies the orchestrator reads it, records the outcome "abort" and restarts the driver after that call.
use std::io::{Seek, SeekFrom, Write};
thread_local! {
    static PENDING: std::cell::RefCell<Option<std::fs::File>> = std::cell::RefCell::new(None);
    static RESUME: std::cell::Cell<(usize, u64)> = std::cell::Cell::new((0, 0));
}
fn note_pending(sc: usize, idx: u64, ty: &str, input: &[u8], what: &J) {
    PENDING.with(|p| if let Some(f) = p.borrow_mut().as_mut() {
        let line = format!("{}\n", json!({"sc": sc, "idx": idx, "type": ty, "in": input, "mut": what}));
        let _ = f.seek(SeekFrom::Start(0));
        let _ = f.write_all(line.as_bytes());
        let _ = f.set_len(line.len() as u64);
    });
}
fn skipped(sc: usize, idx: u64) -> bool { let (rs, ri) = RESUME.with(|r| r.get()); sc < rs || (sc == rs && idx <= ri) }

fn try_one(out: &mut Out, sc: usize, ty: &str, input: Vec<u8>, what: J, t: &mut Tally) {
    t.tried += 1;
    if skipped(sc, t.tried) { return; }
    note_pending(sc, t.tried, ty, &input, &what);
    let r = dispatch(ty, input.clone(), true);
    if r.get("panic").is_some() { t.panic += 1; } else if r.get("ok").is_some() { t.ok += 1; } else { t.err += 1; return; }
    out.ev(json!({"ev": "Codec", "sc": sc, "type": ty, "in": jbytes(&input), "mut": what, "r": r}));
    out.flush();        // the next call may kill the process: nothing may stay in the buffer
}

fn text_call(entry: &str, s: &str) -> J {
    macro_rules! t { ($e:expr) => { call(|| $e).to_json(|_| obj(vec![])) }; }
    macro_rules! tt { ($e:expr) => { call_total(|| $e).to_json(|_| obj(vec![])) }; }
    match entry {
        "Address::from_bech32" => t!(csl::Address::from_bech32(s)),
        "Address::from_hex" => t!(csl::Address::from_hex(s)),
        "ByronAddress::from_base58" => t!(csl::ByronAddress::from_base58(s)),
        "ByronAddress::is_valid" => tt!(csl::ByronAddress::is_valid(s)),
        "RewardAddress-from_bech32" => t!(csl::Address::from_bech32(s).map(|a| csl::RewardAddress::from_address(&a))),
        "Transaction::from_hex" => t!(csl::Transaction::from_hex(s)),
        "TransactionBody::from_hex" => t!(csl::TransactionBody::from_hex(s)),
        "FixedTransaction::from_hex" => t!(csl::FixedTransaction::from_hex(s)),
        "PlutusData::from_hex" => t!(csl::PlutusData::from_hex(s)),
        "Value::from_hex" => t!(csl::Value::from_hex(s)),
        "BigNum::from_hex" => t!(csl::BigNum::from_hex(s)),
        "Ed25519KeyHash::from_hex" => t!(csl::Ed25519KeyHash::from_hex(s)),
        "Ed25519KeyHash::from_bech32" => t!(csl::Ed25519KeyHash::from_bech32(s)),
        "TransactionHash::from_hex" => t!(csl::TransactionHash::from_hex(s)),
        "ScriptHash::from_bech32" => t!(csl::ScriptHash::from_bech32(s)),
        "PrivateKey::from_bech32" => t!(csl::PrivateKey::from_bech32(s)),
        "PrivateKey::from_hex" => t!(csl::PrivateKey::from_hex(s)),
        "PublicKey::from_bech32" => t!(csl::PublicKey::from_bech32(s)),
        "PublicKey::from_hex" => t!(csl::PublicKey::from_hex(s)),
        "Bip32PrivateKey::from_bech32" => t!(csl::Bip32PrivateKey::from_bech32(s)),
        "Bip32PrivateKey::from_hex" => t!(csl::Bip32PrivateKey::from_hex(s)),
        "Bip32PublicKey::from_bech32" => t!(csl::Bip32PublicKey::from_bech32(s)),
        "Bip32PublicKey::from_hex" => t!(csl::Bip32PublicKey::from_hex(s)),
        "Ed25519Signature::from_hex" => t!(csl::Ed25519Signature::from_hex(s)),
        "Ed25519Signature::from_bech32" => t!(csl::Ed25519Signature::from_bech32(s)),
        "BigNum::from_str" => t!(csl::BigNum::from_str(s)),
        "Int::from_str" => t!(csl::Int::from_str(s)),
        "BigInt::from_str" => t!(csl::BigInt::from_str(s)),
        "Transaction::from_json" => t!(csl::Transaction::from_json(s)),
        "Value::from_json" => t!(csl::Value::from_json(s)),
        "Certificate::from_json" => t!(csl::Certificate::from_json(s)),
        "TransactionOutput::from_json" => t!(csl::TransactionOutput::from_json(s)),
        "NativeScript::from_json" => t!(csl::NativeScript::from_json(s)),
        "encode_json_str_to_metadatum/0" => t!(csl::encode_json_str_to_metadatum(s.to_string(), csl::MetadataJsonSchema::NoConversions)),
        "encode_json_str_to_metadatum/1" => t!(csl::encode_json_str_to_metadatum(s.to_string(), csl::MetadataJsonSchema::BasicConversions)),
        "encode_json_str_to_metadatum/2" => t!(csl::encode_json_str_to_metadatum(s.to_string(), csl::MetadataJsonSchema::DetailedSchema)),
        "encode_json_str_to_plutus_datum/0" => t!(csl::encode_json_str_to_plutus_datum(s, csl::PlutusDatumSchema::BasicConversions)),
        "encode_json_str_to_plutus_datum/1" => t!(csl::encode_json_str_to_plutus_datum(s, csl::PlutusDatumSchema::DetailedSchema)),
        "encode_json_str_to_native_script" => t!(csl::encode_json_str_to_native_script(s, "", csl::ScriptSchema::Node)),
        "encode_json_str_to_native_script/wallet" => t!(csl::encode_json_str_to_native_script(s, "", csl::ScriptSchema::Wallet)),
        "encode_json_str_to_native_script/wallet_self" => t!(csl::encode_json_str_to_native_script(s, &"cd".repeat(64), csl::ScriptSchema::Wallet)),
        "URL::new" => t!(csl::URL::new(s.to_string())),
        "DNSRecordAorAAAA::new" => t!(csl::DNSRecordAorAAAA::new(s.to_string())),
        _ => json!({"err": "harness: unknown entry"}),
    }
}

fn bytes_call(entry: &str, b: &[u8]) -> J {
    macro_rules! t { ($e:expr) => { call(|| $e).to_json(|_| obj(vec![])) }; }
    match entry {
        "Bip32PrivateKey::from_128_xprv" => t!(csl::Bip32PrivateKey::from_128_xprv(b)),
        "Bip32PrivateKey::from_bytes" => t!(csl::Bip32PrivateKey::from_bytes(b)),
        "Bip32PublicKey::from_bytes" => t!(csl::Bip32PublicKey::from_bytes(b)),
        "PrivateKey::from_normal_bytes" => t!(csl::PrivateKey::from_normal_bytes(b)),
        "PrivateKey::from_extended_bytes" => t!(csl::PrivateKey::from_extended_bytes(b)),
        "PublicKey::from_bytes" => t!(csl::PublicKey::from_bytes(b)),
        "Ed25519Signature::from_bytes" => t!(csl::Ed25519Signature::from_bytes(b.to_vec())),
        "Ed25519KeyHash::from_bytes" => t!(csl::Ed25519KeyHash::from_bytes(b.to_vec())),
        "Address::from_bytes" => t!(csl::Address::from_bytes(b.to_vec())),
        "ByronAddress::from_bytes" => t!(csl::ByronAddress::from_bytes(b.to_vec())),
        "FixedTransaction::from_bytes" => t!(csl::FixedTransaction::from_bytes(b.to_vec())),
        "FixedTransaction::new_from_body_bytes" => t!(csl::FixedTransaction::new_from_body_bytes(b)),
        "has_transaction_set_tag" => t!(csl::has_transaction_set_tag(b.to_vec())),
        "AssetName::new" => t!(csl::AssetName::new(b.to_vec())),
        "decode_arbitrary_bytes_from_metadatum" => t!(csl::TransactionMetadatum::from_bytes(b.to_vec()).map_err(|e| csl::JsError::from_str(&format!("{:?}", e))).and_then(|m| csl::decode_arbitrary_bytes_from_metadatum(&m))),
        "decode_metadatum_to_json_str" => t!(csl::TransactionMetadatum::from_bytes(b.to_vec()).map_err(|e| csl::JsError::from_str(&format!("{:?}", e))).and_then(|m| csl::decode_metadatum_to_json_str(&m, csl::MetadataJsonSchema::DetailedSchema))),
        "decode_plutus_datum_to_json_str" => t!(csl::PlutusData::from_bytes(b.to_vec()).map_err(|e| csl::JsError::from_str(&format!("{:?}", e))).and_then(|m| csl::decode_plutus_datum_to_json_str(&m, csl::PlutusDatumSchema::DetailedSchema))),
        _ => json!({"err": "harness: unknown entry"}),
    }
}
const BYTE_ENTRIES: [&str; 17] = ["Bip32PrivateKey::from_128_xprv", "Bip32PrivateKey::from_bytes", "Bip32PublicKey::from_bytes", "PrivateKey::from_normal_bytes", "PrivateKey::from_extended_bytes",
    "PublicKey::from_bytes", "Ed25519Signature::from_bytes", "Ed25519KeyHash::from_bytes", "Address::from_bytes", "ByronAddress::from_bytes", "FixedTransaction::from_bytes",
    "FixedTransaction::new_from_body_bytes", "has_transaction_set_tag", "AssetName::new", "decode_arbitrary_bytes_from_metadatum", "decode_metadatum_to_json_str", "decode_plutus_datum_to_json_str"];

/// valid text forms from which malformed ones are derived
fn valid_forms() -> Vec<(&'static str, String)> {
    let a = mk::addr(&json!({"kind": "base", "k": 1}));
    let tx_hex = "84a300d90102800180020aa0f5f6".to_string();
    vec![
        ("Address::from_bech32", a.to_bech32(None).unwrap()), ("Address::from_hex", a.to_hex()), ("RewardAddress-from_bech32", mk::addr(&json!({"kind": "reward", "k": 2})).to_bech32(None).unwrap()),
        ("ByronAddress::from_base58", mk::byron_addr(1, 764824073).to_base58()), ("ByronAddress::is_valid", mk::byron_addr(2, 1097911063).to_base58()),
        ("Transaction::from_hex", tx_hex.clone()), ("FixedTransaction::from_hex", tx_hex), ("TransactionBody::from_hex", "a300d90102800180020a".to_string()),
        ("PlutusData::from_hex", "d8799f0102ff".to_string()), ("Value::from_hex", "821a000f4240a1581c".to_string() + &"07".repeat(28) + "a14101181e"), ("BigNum::from_hex", "1a000f4240".to_string()),
        ("Ed25519KeyHash::from_hex", mk::gkeyhash(1).to_hex()), ("Ed25519KeyHash::from_bech32", mk::gkeyhash(1).to_bech32("addr_vkh").unwrap()), ("TransactionHash::from_hex", "11".repeat(32)),
        ("ScriptHash::from_bech32", mk::scripthash(3).to_bech32("script").unwrap()),
        ("PrivateKey::from_bech32", mk::sk(1).to_bech32()), ("PrivateKey::from_hex", mk::sk(1).to_hex()), ("PublicKey::from_bech32", mk::sk(1).to_public().to_bech32()), ("PublicKey::from_hex", mk::sk(1).to_public().to_hex()),
        ("Bip32PrivateKey::from_bech32", mk::bip32(1).to_bech32()), ("Bip32PrivateKey::from_hex", mk::bip32(1).to_hex()), ("Bip32PublicKey::from_bech32", mk::bip32(1).to_public().to_bech32()), ("Bip32PublicKey::from_hex", mk::bip32(1).to_public().to_hex()),
        ("Ed25519Signature::from_hex", mk::sk(1).sign(&[1]).to_hex()), ("Ed25519Signature::from_bech32", mk::sk(1).sign(&[1]).to_bech32()),
        ("BigNum::from_str", "18446744073709551615".to_string()), ("Int::from_str", "-18446744073709551616".to_string()), ("BigInt::from_str", "-340282366920938463463374607431768211456".to_string()),
        ("Value::from_json", csl::Value::new(&csl::BigNum::from(5u64)).to_json().unwrap()), ("Certificate::from_json", mk::cert(&json!({"k": 7, "cred": {"t": 0, "h": 1}, "coin_n": [5]})).to_json().unwrap()),
        ("TransactionOutput::from_json", csl::TransactionOutput::new(&a, &csl::Value::new(&csl::BigNum::from(5u64))).to_json().unwrap()), ("NativeScript::from_json", mk::pubkey_script(1).to_json().unwrap()),
        ("Transaction::from_json", csl::Transaction::from_hex("84a300d90102800180020aa0f5f6").unwrap().to_json().unwrap()),
        ("encode_json_str_to_metadatum/0", "{\"a\":[1,\"b\",{\"c\":-5}]}".to_string()), ("encode_json_str_to_metadatum/1", "{\"0x6162\":\"0x01\",\"5\":[1,-9223372036854775808]}".to_string()),
        ("encode_json_str_to_metadatum/2", "{\"map\":[{\"k\":{\"int\":-9223372036854775808},\"v\":{\"bytes\":\"00ff\"}}]}".to_string()),
        ("encode_json_str_to_plutus_datum/0", "{\"5\":[1,\"0xabcd\",{\"x\":-7}]}".to_string()), ("encode_json_str_to_plutus_datum/1", "{\"constructor\":0,\"fields\":[{\"int\":-18446744073709551616},{\"bytes\":\"00\"},{\"list\":[]},{\"map\":[]}]}".to_string()),
        ("encode_json_str_to_native_script", "{\"type\":\"all\",\"scripts\":[{\"type\":\"sig\",\"keyHash\":\"".to_string() + &"ab".repeat(28) + "\"},{\"type\":\"after\",\"slot\":5}]}"),
        ("encode_json_str_to_native_script/wallet", "{\"cosigners\":{\"cosigner#0\":\"".to_string() + &"ab".repeat(64) + "\",\"cosigner#1\":\"" + &"ef".repeat(64) + "\"},\"template\":{\"all\":[\"cosigner#0\",{\"any\":[{\"active_from\":5},{\"active_until\":10},\"cosigner#1\"]},{\"some\":{\"at_least\":1,\"from\":[\"cosigner#0\",{\"active_from\":7}]}}]}}"),
        ("encode_json_str_to_native_script/wallet_self", "{\"cosigners\":{\"cosigner#0\":\"self\"},\"template\":{\"some\":{\"at_least\":2,\"from\":[\"cosigner#0\",{\"all\":[]},{\"active_until\":1}]}}}".to_string()),
        ("URL::new", "https://example.com".to_string()), ("DNSRecordAorAAAA::new", "relay.example.com".to_string()),
    ]
}
/// structure-aware variants of a JSON document: at every node the value is replaced by a value of every other JSON kind (and by boundary
/// numbers), every member of every object is dropped in turn, renamed and doubled, every array is emptied / loses its first / last element
fn json_mutants(s: &str) -> Vec<String> {
    let doc: J = match serde_json::from_str(s) { Ok(d) => d, Err(_) => return vec![] };
    let mut paths: Vec<Vec<String>> = vec![];
    fn walk(v: &J, path: &mut Vec<String>, out: &mut Vec<Vec<String>>) {
        out.push(path.clone());
        match v {
            J::Object(m) => for (k, x) in m.iter() { path.push(k.clone()); walk(x, path, out); path.pop(); },
            J::Array(a) => for (i, x) in a.iter().enumerate() { path.push(i.to_string()); walk(x, path, out); path.pop(); },
            _ => {}
        }
    }
    walk(&doc, &mut vec![], &mut paths);
    fn at<'a>(v: &'a mut J, path: &[String]) -> &'a mut J { let mut cur = v; for p in path { cur = if cur.is_array() { let i: usize = p.parse().unwrap(); &mut cur[i] } else { &mut cur[p.as_str()] }; } cur }
    let repl: Vec<J> = vec![J::Null, json!(true), json!(0), json!(-1), json!(1.5), json!(u64::MAX), json!(i64::MIN), json!(""), json!("x"), json!("0x"), json!([]), json!({}), json!([[]]), json!({"": {}}),
                            serde_json::from_str("18446744073709551616").unwrap_or(J::Null), serde_json::from_str("-9223372036854775809").unwrap_or(J::Null)];
    let mut out = vec![];
    for p in paths.iter().take(60) {
        for r in repl.iter() { let mut d = doc.clone(); *at(&mut d, p) = r.clone(); out.push(d.to_string()); }
        let mut d = doc.clone();
        let node = at(&mut d, p).clone();
        match node {
            J::Object(m) => {
                for k in m.keys() {
                    let mut m2 = m.clone(); m2.remove(k); let mut d2 = doc.clone(); *at(&mut d2, p) = J::Object(m2); out.push(d2.to_string());
                    let mut m3 = m.clone(); let v = m3.remove(k).unwrap(); m3.insert(format!("{}_", k), v); let mut d3 = doc.clone(); *at(&mut d3, p) = J::Object(m3); out.push(d3.to_string());
                }
                // a member name written twice (serde_json keeps the last one, a hand-written visitor may not)
                if let Some((k, v)) = m.iter().next() { let inner = J::Object(m.clone()).to_string(); let dup = format!("{{{}:{},{}", serde_json::to_string(k).unwrap(), v, &inner[1..]);
                    let mut d4 = doc.clone(); *at(&mut d4, p) = json!("@@DUP@@"); out.push(d4.to_string().replace("\"@@DUP@@\"", &dup)); }
            }
            J::Array(a) => {
                if !a.is_empty() { let mut d2 = doc.clone(); *at(&mut d2, p) = J::Array(a[1..].to_vec()); out.push(d2.to_string()); let mut d3 = doc.clone(); *at(&mut d3, p) = J::Array(a[..a.len() - 1].to_vec()); out.push(d3.to_string());
                    let mut a2 = a.clone(); a2.push(a[0].clone()); let mut d4 = doc.clone(); *at(&mut d4, p) = J::Array(a2); out.push(d4.to_string()); }
            }
            _ => {}
        }
    }
    out
}
fn text_mutants(s: &str, rng: &mut Rng) -> Vec<String> {
    let mut v = vec![String::new(), s[..s.len().min(1)].to_string(), s[..s.len() - 1].to_string(), format!("{}0", s), format!(" {}", s), format!("{}\n", s), s.to_uppercase(), s.replace('1', "l"),
                     format!("{}é", s), s.chars().rev().collect(), format!("z{}", &s[1.min(s.len())..]), "zz".to_string(), "\u{0}".to_string(), "é".to_string(), "€€".to_string(), "0x".to_string(),
                     "null".to_string(), "[]".to_string(), "{}".to_string(), "1e400".to_string(), "-0".to_string(), "{\"int\":1.5}".to_string(), "{\"a\":null}".to_string(), "[[[[[[[[[[[[[[[[[[[[[[[[[[[[[[".to_string(),
                     "-9223372036854775808".to_string(), "9223372036854775808".to_string(), "-9223372036854775809".to_string(), "{\"map\":[{\"k\":{\"int\":1}}]}".to_string(), "{\"constructor\":-1,\"fields\":[]}".to_string(),
                     "{\"bytes\":\"0g\"}".to_string(), "{\"bytes\":\"abc\"}".to_string(), "\"0x0g\"".to_string(), "{\"int\":-9223372036854775808}".to_string(), "-9223372036854775808e0".to_string(), "x".repeat(200)];
    v.extend(json_mutants(s));
    let cs: Vec<char> = s.chars().collect();
    for _ in 0..12 {
        if cs.is_empty() { break; }
        let mut c2 = cs.clone();
        let i = rng.below(c2.len() as u64) as usize;
        match rng.below(4) { 0 => { c2[i] = *rng.pick(&['b', 'i', 'o', '1', 'Z', '"', '{', '\\', 'é', '0', '-']); } 1 => { c2.remove(i); } 2 => { c2.insert(i, *rng.pick(&['0', 'q', ',', '}', ' '])); } _ => { c2.swap(i, (i + 1) % cs.len()); } }
        v.push(c2.into_iter().collect());
    }
    v
}

pub fn run_one(out: &mut Out, sc: usize, s: &J) {
    if sc < RESUME.with(|r| r.get()).0 { return; }          // finished before the restart: its events are already in the trace
    let mut t = Tally { tried: 0, err: 0, ok: 0, panic: 0 };
    match s["kind"].as_str().unwrap() {
        // one input as it is (made by the orchestrator: e.g. Byron payloads with a recomputed checksum)
        "raw" => {
            let ty = s["type"].as_str().unwrap();
            try_one(out, sc, ty, get_bytes(&s["bytes"]), json!({"op": "raw"}), &mut t);
            out.ev(json!({"ev": "ParseBatch", "sc": sc, "kind": "raw", "type": ty, "tried": t.tried, "err": t.err, "ok": t.ok, "panic": t.panic}));
        }
        "base" => {
            let ty = s["type"].as_str().unwrap();
            let b = get_bytes(&s["bytes"]);
            for (ni, sp) in s["spans"].as_array().unwrap().iter().enumerate() {
                let (lo, hi, mt, ai) = (sp["lo"].as_u64().unwrap() as usize, sp["hi"].as_u64().unwrap() as usize, sp["mt"].as_u64().unwrap() as u8, sp["ai"].as_u64().unwrap() as u8);
                for (name, m) in mutants(&b, lo, hi, mt, ai) { try_one(out, sc, ty, m, json!({"op": name, "node": ni}), &mut t); }
            }
            out.ev(json!({"ev": "ParseBatch", "sc": sc, "kind": "mutants", "type": ty, "tried": t.tried, "err": t.err, "ok": t.ok, "panic": t.panic}));
        }
        "short" => {
            let ty = s["type"].as_str().unwrap();
            try_one(out, sc, ty, vec![], json!({"op": "short"}), &mut t);
            for a in 0..=255u8 { try_one(out, sc, ty, vec![a], json!({"op": "short"}), &mut t); }
            for a in 0..=255u8 { for b in 0..=255u8 { try_one(out, sc, ty, vec![a, b], json!({"op": "short"}), &mut t); } }
            out.ev(json!({"ev": "ParseBatch", "sc": sc, "kind": "short", "type": ty, "tried": t.tried, "err": t.err, "ok": t.ok, "panic": t.panic}));
        }
        "short_bytes_entries" => {
            for entry in BYTE_ENTRIES.iter() {
                let mut inputs: Vec<Vec<u8>> = vec![vec![]];
                for a in 0..=255u8 { inputs.push(vec![a]); }
                for a in (0..=255u8).step_by(3) { for b in (0..=255u8).step_by(5) { inputs.push(vec![a, b]); } }
                for n in [27usize, 28, 29, 31, 32, 33, 63, 64, 65, 95, 96, 97, 127, 128, 129] { inputs.push(vec![7u8; n]); inputs.push(vec![0x80; n]); }
                for i in inputs {
                    t.tried += 1;
                    let r = bytes_call(entry, &i);
                    if r.get("panic").is_some() { t.panic += 1; out.ev(json!({"ev": "Text", "sc": sc, "entry": entry, "s": jbytes(&i), "r": r})); } else if r.get("ok").is_some() { t.ok += 1; } else { t.err += 1; }
                }
            }
            out.ev(json!({"ev": "ParseBatch", "sc": sc, "kind": "byte-entries", "type": "-", "tried": t.tried, "err": t.err, "ok": t.ok, "panic": t.panic}));
        }
        _ => {
            let mut rng = Rng(s["seed"].as_u64().unwrap_or(1));
            for (entry, valid) in valid_forms() {
                let rv = text_call(entry, &valid);
                t.tried += 1;
                out.ev(json!({"ev": "Text", "sc": sc, "entry": entry, "s": jtext(&valid), "valid": entry != "encode_json_str_to_native_script", "r": rv}));
                for m in text_mutants(&valid, &mut rng) {
                    t.tried += 1;
                    let r = text_call(entry, &m);
                    if r.get("panic").is_some() { t.panic += 1; out.ev(json!({"ev": "Text", "sc": sc, "entry": entry, "s": jbytes(m.as_bytes()), "r": r})); } else if r.get("ok").is_some() { t.ok += 1; } else { t.err += 1; }
                }
            }
            out.ev(json!({"ev": "ParseBatch", "sc": sc, "kind": "text", "type": "-", "tried": t.tried, "err": t.err, "ok": t.ok, "panic": t.panic}));
        }
    }
}

pub fn main(a: &Args) {
    for (i, f) in a.flags.iter().enumerate() {
        if f == "--pending" { let file = std::fs::OpenOptions::new().create(true).write(true).truncate(true).open(&a.flags[i + 1]).unwrap(); PENDING.with(|p| *p.borrow_mut() = Some(file)); }
        if f == "--resume" { let v: Vec<u64> = a.flags[i + 1].split(':').map(|x| x.parse().unwrap()).collect(); RESUME.with(|r| r.set((v[0] as usize, v[1]))); }
    }
    // fixed scenarios (besides --scn): short-input sweep for every byte decoder, byte entry points, text entry points
    let short = a.flags.iter().any(|f| f == "--short");
    let mut extra: Vec<J> = vec![];
    if short { for ty in TYPES.iter() { extra.push(json!({"kind": "short", "type": ty})); } extra.push(json!({"kind": "short_bytes_entries"})); }
    let n_extra = extra.len();
    let mut a2 = Args { dump: a.dump.clone(), scn: a.scn.clone(), seed: a.seed, n: a.n + n_extra, flags: a.flags.clone() };
    a2.n = a.n + n_extra;
    drive(&a2, |rng, i| if i < n_extra { extra[i].clone() } else { json!({"kind": "text", "seed": rng.next() % 100000}) }, |out, sc, s| run_one(out, sc, s));
}
