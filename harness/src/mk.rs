//! Scenario vocabulary -> library objects (DESIGN B.2). Fixed expansion rules shared with the spec:
//! key / script id k -> the 28 bytes k,k,...; txid u -> 32 bytes u,u,...
use crate::util::*;
use cardano_serialization_lib as csl;
use serde_json::Value as J;

pub fn h28(k: u8) -> Vec<u8> { vec![k; 28] }
pub fn h32(k: u8) -> Vec<u8> { vec![k; 32] }
pub fn keyhash(k: u8) -> csl::Ed25519KeyHash { csl::Ed25519KeyHash::from_bytes(h28(k)).unwrap() }
pub fn scripthash(k: u8) -> csl::ScriptHash { csl::ScriptHash::from_bytes(h28(k)).unwrap() }
pub fn keyhash_b(b: &[u8]) -> csl::Ed25519KeyHash { csl::Ed25519KeyHash::from_bytes(b.to_vec()).unwrap() }
pub fn scripthash_b(b: &[u8]) -> csl::ScriptHash { csl::ScriptHash::from_bytes(b.to_vec()).unwrap() }

fn hash_bytes(v: &J) -> Vec<u8> {
    // "h": small id k -> synthetic k,k,..; "k": key id -> genuine hash of the k-th signing key; "hb": explicit 28 bytes
    if let Some(hb) = v.get("hb") { get_bytes(hb) }
    else if let Some(k) = v.get("k").and_then(|x| x.as_u64()) { gkeyhash(k as u8).to_bytes() }
    else { h28(v["h"].as_u64().unwrap() as u8) }
}
/// {"t":0|1,"h":k}
pub fn cred(v: &J) -> csl::Credential {
    let hb = hash_bytes(v);
    if v["t"].as_u64().unwrap_or(0) == 0 { csl::Credential::from_keyhash(&keyhash_b(&hb)) } else { csl::Credential::from_scripthash(&scripthash_b(&hb)) }
}
/// {"t":0 key|1 script|2 abstain|3 no confidence,"h":k}
pub fn drep(v: &J) -> csl::DRep {
    match v["t"].as_u64().unwrap_or(2) {
        0 => csl::DRep::new_key_hash(&keyhash_b(&hash_bytes(v))),
        1 => csl::DRep::new_script_hash(&scripthash_b(&hash_bytes(v))),
        2 => csl::DRep::new_always_abstain(),
        _ => csl::DRep::new_always_no_confidence(),
    }
}
pub fn reward_addr(net: u8, c: &csl::Credential) -> csl::RewardAddress { csl::RewardAddress::new(net, c) }
pub fn anchor() -> csl::Anchor {
    csl::Anchor::new(&csl::URL::new("https://a.b".to_string()).unwrap(), &csl::AnchorDataHash::from_bytes(h32(9)).unwrap())
}
pub fn pool_params(op: u8, ophash: &csl::Ed25519KeyHash, owner_cred: &csl::Credential) -> csl::PoolParams {
    let mut owners = csl::Ed25519KeyHashes::new();
    owners.add(ophash);
    csl::PoolParams::new(
        ophash, &csl::VRFKeyHash::from_bytes(h32(op)).unwrap(), &csl::BigNum::from(1000u64), &csl::BigNum::from(340u64),
        &csl::UnitInterval::new(&csl::BigNum::from(1u64), &csl::BigNum::from(10u64)), &reward_addr(0, owner_cred), &owners, &csl::Relays::new(), None)
}
/// certificate by wire kind 0..18: {"k":n,"cred":{..},"coin_n":[..],"pool":k,"drep":{..},"cred2":{..}}
pub fn cert(v: &J) -> csl::Certificate {
    let k = v["k"].as_u64().unwrap();
    let dflt = serde_json::json!({"t":0,"h":1});
    let c = cred(v.get("cred").unwrap_or(&dflt));
    let coin = v.get("coin_n").map(bn_of).unwrap_or(csl::BigNum::from(2_000_000u64));
    let pool_id = v.get("pool").and_then(|x| x.as_u64()).unwrap_or(7) as u8;
    // "g": true -> pool / operator hashes are genuine key hashes (signing scenarios)
    let pool = if v.get("g").and_then(|x| x.as_bool()).unwrap_or(false) { gkeyhash(pool_id) } else { keyhash(pool_id) };
    let dr = v.get("drep").map(drep).unwrap_or(csl::DRep::new_always_abstain());
    let c2 = v.get("cred2").map(cred).unwrap_or(csl::Credential::from_keyhash(&keyhash(8)));
    use csl::Certificate as C;
    match k {
        0 => C::new_stake_registration(&csl::StakeRegistration::new(&c)),
        1 => C::new_stake_deregistration(&csl::StakeDeregistration::new(&c)),
        2 => C::new_stake_delegation(&csl::StakeDelegation::new(&c, &pool)),
        3 => C::new_pool_registration(&csl::PoolRegistration::new(&pool_params(pool_id, &pool, &c))),
        4 => C::new_pool_retirement(&csl::PoolRetirement::new(&pool, 100)),
        5 => C::new_genesis_key_delegation(&csl::GenesisKeyDelegation::new(&csl::GenesisHash::from_bytes(h28(3)).unwrap(),
                &csl::GenesisDelegateHash::from_bytes(h28(4)).unwrap(), &csl::VRFKeyHash::from_bytes(h32(5)).unwrap())),
        6 => C::new_move_instantaneous_rewards_cert(&csl::MoveInstantaneousRewardsCert::new(
                &csl::MoveInstantaneousReward::new_to_other_pot(csl::MIRPot::Reserves, &coin))),
        7 => C::new_reg_cert(&csl::StakeRegistration::new_with_explicit_deposit(&c, &coin)).unwrap(),
        8 => C::new_unreg_cert(&csl::StakeDeregistration::new_with_explicit_refund(&c, &coin)).unwrap(),
        9 => C::new_vote_delegation(&csl::VoteDelegation::new(&c, &dr)),
        10 => C::new_stake_and_vote_delegation(&csl::StakeAndVoteDelegation::new(&c, &pool, &dr)),
        11 => C::new_stake_registration_and_delegation(&csl::StakeRegistrationAndDelegation::new(&c, &pool, &coin)),
        12 => C::new_vote_registration_and_delegation(&csl::VoteRegistrationAndDelegation::new(&c, &dr, &coin)),
        13 => C::new_stake_vote_registration_and_delegation(&csl::StakeVoteRegistrationAndDelegation::new(&c, &pool, &dr, &coin)),
        14 => C::new_committee_hot_auth(&csl::CommitteeHotAuth::new(&c, &c2)),
        15 => C::new_committee_cold_resign(&csl::CommitteeColdResign::new(&c)),
        16 => C::new_drep_registration(&csl::DRepRegistration::new(&c, &coin)),
        17 => C::new_drep_deregistration(&csl::DRepDeregistration::new(&c, &coin)),
        18 => C::new_drep_update(&csl::DRepUpdate::new(&c)),
        _ => panic!("cert kind {}", k),
    }
}
/// {"dep_n":[..],"cred":{..},"net":0,"act":0..6,"rm":[ids],"add":[ids]}: a proposal with the given deposit; "act" picks the governance
/// action (default 6, the info action); for the committee update (4) "rm" / "add" list the members in the order they are handed over
pub fn proposal(v: &J) -> csl::VotingProposal {
    let dflt = serde_json::json!({"t":0,"h":2});
    let c = cred(v.get("cred").unwrap_or(&dflt));
    let ids = |key: &str| -> Vec<u8> { v.get(key).and_then(|x| x.as_array()).map(|a| a.iter().map(|x| x.as_u64().unwrap() as u8).collect()).unwrap_or_default() };
    let act = match v.get("act").and_then(|x| x.as_u64()).unwrap_or(6) {
        0 => { let mut u = csl::ProtocolParamUpdate::new(); u.set_max_tx_size(20000); u.set_key_deposit(&csl::BigNum::from(3_000_000u64));
               csl::GovernanceAction::new_parameter_change_action(&csl::ParameterChangeAction::new(&u)) }
        1 => csl::GovernanceAction::new_hard_fork_initiation_action(&csl::HardForkInitiationAction::new(&csl::ProtocolVersion::new(11, 0))),
        2 => { let mut tw = csl::TreasuryWithdrawals::new();
               for (i, k) in ids("add").iter().enumerate() { tw.insert(&reward_addr(0, &csl::Credential::from_keyhash(&keyhash(*k))), &csl::BigNum::from(1_000_000u64 + i as u64)); }
               csl::GovernanceAction::new_treasury_withdrawals_action(&csl::TreasuryWithdrawalsAction::new(&tw)) }
        3 => csl::GovernanceAction::new_no_confidence_action(&csl::NoConfidenceAction::new()),
        4 => { let mut com = csl::Committee::new(&csl::UnitInterval::new(&csl::BigNum::from(2u64), &csl::BigNum::from(3u64)));
               for k in ids("add") { com.add_member(&csl::Credential::from_keyhash(&keyhash(k)), 100 + k as u32); }
               let mut rm = csl::Credentials::new();
               for k in ids("rm") { rm.add(&if k % 2 == 0 { csl::Credential::from_keyhash(&keyhash(k)) } else { csl::Credential::from_scripthash(&scripthash(k)) }); }
               csl::GovernanceAction::new_new_committee_action(&csl::UpdateCommitteeAction::new(&com, &rm)) }
        5 => csl::GovernanceAction::new_new_constitution_action(&csl::NewConstitutionAction::new(&csl::Constitution::new(&anchor()))),
        _ => csl::GovernanceAction::new_info_action(&csl::InfoAction::new()),
    };
    csl::VotingProposal::new(&act, &anchor(), &reward_addr(v.get("net").and_then(|x| x.as_u64()).unwrap_or(0) as u8, &c), &bn_of(&v["dep_n"]))
}
pub fn txin(u: u8, ix: u32) -> csl::TransactionInput {
    csl::TransactionInput::new(&csl::TransactionHash::from_bytes(h32(u)).unwrap(), ix)
}
pub fn enterprise_addr(net: u8, c: &csl::Credential) -> csl::Address { csl::EnterpriseAddress::new(net, c).to_address() }
pub fn base_addr(net: u8, p: &csl::Credential, s: &csl::Credential) -> csl::Address { csl::BaseAddress::new(net, p, s).to_address() }

// ---- genuine keys (signing scenarios): key id k -> Ed25519 private key with seed bytes k,k,..; Byron id k -> Icarus key
use std::cell::RefCell;
use std::collections::HashMap;
thread_local! {
    static KH: RefCell<HashMap<u8, Vec<u8>>> = RefCell::new(HashMap::new());
}
pub fn sk(k: u8) -> csl::PrivateKey { csl::PrivateKey::from_normal_bytes(&[k; 32]).unwrap() }
/// genuine key hash of key id k (cached)
pub fn gkeyhash(k: u8) -> csl::Ed25519KeyHash {
    let b = pubinfo(k).1;
    csl::Ed25519KeyHash::from_bytes(b).unwrap()
}
pub fn gcred(k: u8) -> csl::Credential { csl::Credential::from_keyhash(&gkeyhash(k)) }
thread_local! {
    static B32: RefCell<HashMap<u8, Vec<u8>>> = RefCell::new(HashMap::new());
    static PUB: RefCell<HashMap<u8, (Vec<u8>, Vec<u8>)>> = RefCell::new(HashMap::new());
}
/// Icarus root key of id k (PBKDF2 inside: cached)
pub fn bip32(k: u8) -> csl::Bip32PrivateKey {
    let b = B32.with(|m| m.borrow_mut().entry(k).or_insert_with(|| csl::Bip32PrivateKey::from_bip39_entropy(&[k; 16], &[]).as_bytes()).clone());
    csl::Bip32PrivateKey::from_bytes(&b).unwrap()
}
/// (vkey bytes, key hash bytes) of signing key k (cached)
pub fn pubinfo(k: u8) -> (Vec<u8>, Vec<u8>) {
    PUB.with(|m| m.borrow_mut().entry(k).or_insert_with(|| { let pk = sk(k).to_public(); (pk.as_bytes(), pk.hash().to_bytes()) }).clone())
}
/// Byron address of key k: Icarus style for even k, Daedalus style (with an HD derivation-path attribute, a longer address whose
/// bootstrap witness is longer too) for odd k
pub fn byron_addr(k: u8, magic: u32) -> csl::ByronAddress {
    let a = csl::ByronAddress::icarus_from_key(&bip32(k).to_public(), magic);
    if k % 2 == 0 { return a; }
    use std::str::FromStr;
    match csl::legacy_address::ExtendedAddr::from_str(&a.to_base58()) {
        Ok(mut ea) => { ea.attributes.derivation_path = Some((0..28u8).map(|i| i.wrapping_mul(7).wrapping_add(k)).collect()); csl::ByronAddress::from_bytes(ea.to_address().as_ref().to_vec()).unwrap_or(a) }
        Err(_) => a,
    }
}
/// native script of id k: "signature of key k" for k <= 20; compound scripts over the keys 21..24 above that (nested all / any / n-of-k
/// with time locks in front of, between and behind the signature leaves). Every signature leaf is a key that signs.
pub fn pubkey_script(k: u8) -> csl::NativeScript {
    let sig = |k: u8| csl::NativeScript::new_script_pubkey(&csl::ScriptPubkey::new(&gkeyhash(k)));
    let list = |v: Vec<csl::NativeScript>| { let mut l = csl::NativeScripts::new(); for x in v.iter() { l.add(x); } l };
    let before = |n: u64| csl::NativeScript::new_timelock_start(&csl::TimelockStart::new_timelockstart(&csl::BigNum::from(n)));
    let after = |n: u64| csl::NativeScript::new_timelock_expiry(&csl::TimelockExpiry::new_timelockexpiry(&csl::BigNum::from(n)));
    match k {
        21 => csl::NativeScript::new_script_all(&csl::ScriptAll::new(&list(vec![sig(21), sig(22)]))),
        22 => csl::NativeScript::new_script_all(&csl::ScriptAll::new(&list(vec![sig(22), csl::NativeScript::new_script_any(&csl::ScriptAny::new(&list(vec![sig(23), sig(24)])))]))),
        23 => csl::NativeScript::new_script_n_of_k(&csl::ScriptNOfK::new(2, &list(vec![after(10), sig(23), sig(24)]))),
        24 => csl::NativeScript::new_script_any(&csl::ScriptAny::new(&list(vec![before(0), csl::NativeScript::new_script_n_of_k(&csl::ScriptNOfK::new(1, &list(vec![after(1 << 33), sig(24), sig(21), sig(22)])))]))),
        _ => sig(k),
    }
}
/// ids of the keys at the signature leaves of a native script
pub fn native_leaves(ns: &csl::NativeScript) -> Vec<u8> {
    let mut out = vec![];
    fn walk(ns: &csl::NativeScript, out: &mut Vec<u8>) {
        if let Some(pk) = ns.as_script_pubkey() { let h = pk.addr_keyhash().to_bytes(); for k in 1u8..=24 { if pubinfo(k).1 == h && !out.contains(&k) { out.push(k); } } }
        let kids = ns.as_script_all().map(|x| x.native_scripts()).or(ns.as_script_any().map(|x| x.native_scripts())).or(ns.as_script_n_of_k().map(|x| x.native_scripts()));
        if let Some(l) = kids { for i in 0..l.len() { walk(&l.get(i), out); } }
    }
    walk(ns, &mut out);
    out
}
pub fn signers_of(k: u8) -> Vec<u8> { native_leaves(&pubkey_script(k)) }

/// address spec: {"kind":"ent"|"base"|"byron"|"reward"|"ptr"|"script_ent"|"script_base", "k":id, "s":id, "net":0|1, "magic":n}
pub fn addr(v: &J) -> csl::Address {
    let k = v["k"].as_u64().unwrap_or(1) as u8;
    let s = v["s"].as_u64().unwrap_or(k as u64 + 100) as u8;
    let net = v["net"].as_u64().unwrap_or(0) as u8;
    match v["kind"].as_str().unwrap_or("ent") {
        "base" => csl::BaseAddress::new(net, &gcred(k), &gcred(s)).to_address(),
        "byron" => byron_addr(k, v["magic"].as_u64().unwrap_or(764824073) as u32).to_address(),
        "reward" => csl::RewardAddress::new(net, &gcred(k)).to_address(),
        "ptr" => if k % 2 == 0 { csl::PointerAddress::new(net, &gcred(k), &csl::Pointer::new(2498243, 27, 3)).to_address() }
                 else { csl::PointerAddress::new(net, &gcred(k), &csl::Pointer::new_pointer(&csl::BigNum::from(u64::MAX), &csl::BigNum::from(u64::MAX - 1), &csl::BigNum::from(1u64 << 62))).to_address() },
        "script_ent" => csl::EnterpriseAddress::new(net, &csl::Credential::from_scripthash(&pubkey_script(k).hash())).to_address(),
        "script_base" => csl::BaseAddress::new(net, &csl::Credential::from_scripthash(&pubkey_script(k).hash()), &gcred(s)).to_address(),
        _ => csl::EnterpriseAddress::new(net, &gcred(k)).to_address(),
    }
}

/// a block header built through the constructors (content is irrelevant to the byte-preserving views that embed it)
pub fn header() -> csl::Header {
    let vkey = csl::Vkey::new(&sk(1).to_public());
    let vrf_vkey = csl::VRFVKey::from_bytes(vec![5; 32]).unwrap();
    let vrf = csl::VRFCert::new(vec![6; 64], vec![7; 80]).unwrap();
    let opcert = csl::OperationalCert::new(&csl::KESVKey::from_bytes(vec![8; 32]).unwrap(), 1, 2, &csl::Ed25519Signature::from_bytes(vec![9; 64]).unwrap());
    let hb = csl::HeaderBody::new_headerbody(1, &csl::BigNum::from(2u64), Some(csl::BlockHash::from_bytes(vec![3; 32]).unwrap()), &vkey, &vrf_vkey, &vrf, 100,
        &csl::BlockHash::from_bytes(vec![4; 32]).unwrap(), &opcert, &csl::ProtocolVersion::new(9, 0));
    csl::Header::new(&hb, &csl::KESSignature::from_bytes(vec![1; 448]).unwrap())
}
