//! C15 driver: calls the stand-alone fee functions with the arguments of each scenario
//! (TLC grid) and with seeded random arguments; logs arguments and result.
use crate::util::*;
use cardano_serialization_lib as csl;
use serde_json::{json, Value as J};

fn ui(n: &J, d: &J) -> csl::UnitInterval {
    csl::UnitInterval::new(&bn_of(n), &bn_of(d))
}

pub fn run_one(out: &mut Out, sc: usize, s: &J) {
    let f = s["fn"].as_str().unwrap();
    let r = match f {
        "ref" => {
            let size = u64_of(&s["size_n"]) as usize;
            let p = ui(&s["pn_n"], &s["pd_n"]);
            call(|| csl::min_ref_script_fee(size, &p)).to_json(|c| obj(vec![("v_n", jbn(&c))]))
        }
        "exu" => {
            let eu = csl::ExUnits::new(&bn_of(&s["mem_n"]), &bn_of(&s["steps_n"]));
            let pr = csl::ExUnitPrices::new(&ui(&s["mn_n"], &s["md_n"]), &ui(&s["sn_n"], &s["sd_n"]));
            call(|| csl::calculate_ex_units_ceil_cost(&eu, &pr)).to_json(|c| obj(vec![("v_n", jbn(&c))]))
        }
        "lin" => {
            let lf = csl::LinearFee::new(&bn_of(&s["a_n"]), &bn_of(&s["b_n"]));
            let size = u64_of(&s["size_n"]) as usize;
            call(|| csl::min_fee_for_size(size, &lf)).to_json(|c| obj(vec![("v_n", jbn(&c))]))
        }
        // the script fee of a TRANSACTION: over the summed execution units of all its redeemers
        "script" => {
            let pr = csl::ExUnitPrices::new(&ui(&s["mn_n"], &s["md_n"]), &ui(&s["sn_n"], &s["sd_n"]));
            let mut reds = csl::Redeemers::new();
            for (i, r) in s["reds"].as_array().unwrap().iter().enumerate() {
                reds.add(&csl::Redeemer::new(&csl::RedeemerTag::new_spend(), &csl::BigNum::from(i as u64), &csl::PlutusData::new_integer(&csl::BigInt::from(i as u64)),
                                             &csl::ExUnits::new(&bn_of(&r[0]), &bn_of(&r[1]))));
            }
            let mut ws = csl::TransactionWitnessSet::new();
            ws.set_redeemers(&reds);
            let body = csl::TransactionBody::new_tx_body(&csl::TransactionInputs::new(), &csl::TransactionOutputs::new(), &csl::BigNum::from(0u64));
            let mut tx = csl::Transaction::new(&body, &ws, None);
            // (the ledger's script fee does not look at the validity flag: a transaction marked phase-2 invalid pays the same)
            if s.get("invalid").and_then(|x| x.as_bool()) == Some(true) { tx.set_is_valid(false); }
            call(|| csl::min_script_fee(&tx, &pr)).to_json(|c| obj(vec![("v_n", jbn(&c))]))
        }
        _ => panic!("unknown fn {}", f),
    };
    let mut e = s.clone();
    let m = e.as_object_mut().unwrap();
    m.remove("rnd");
    m.insert("ev".into(), json!("Fee"));
    m.insert("sc".into(), json!(sc));
    m.insert("r".into(), r);
    out.ev(e);
}

pub fn main(a: &Args) {
    drive(a, |rng, _| gen(rng), |out, sc, s| run_one(out, sc, s));
}

fn gen(rng: &mut Rng) -> J {
    let price = |rng: &mut Rng| -> (u64, u64) {
        match rng.below(4) {
            0 => (rng.below(100), 1 + rng.below(100)),
            1 => (rng.edge_u64(), 1 + rng.below(1000)),
            2 => (rng.below(1000), rng.edge_u64().max(1)),
            _ => (rng.edge_u64(), rng.edge_u64().max(1)),
        }
    };
    match rng.below(4) {
        3 => {
            // several redeemers: units whose individual costs are fractional (the sum is priced once), and totals near 2^64
            let (mn, md) = if rng.chance(1, 2) { (577, 10_000) } else { price(rng) };
            let (sn, sd) = if rng.chance(1, 2) { (721, 10_000_000) } else { price(rng) };
            let n = 1 + rng.below(4);
            let near = rng.chance(1, 6);
            let reds: Vec<J> = (0..n).map(|_| if near { json!([jn(rng.edge_u64() / n), jn(rng.edge_u64() / n)]) } else { json!([jn(rng.below(20_000)), jn(rng.below(20_000_000))]) }).collect();
            json!({"fn":"script","reds":reds,"mn_n":jn(mn),"md_n":jn(md),"sn_n":jn(sn),"sd_n":jn(sd),"invalid":rng.chance(1, 3)})
        }
        0 => {
            let (pn, pd) = price(rng);
            let size = match rng.below(3) { 0 => rng.below(1_048_576), 1 => 25_600 * rng.below(41) + rng.below(3), _ => rng.below(60_000) };
            json!({"fn":"ref","size_n":jn(size),"pn_n":jn(pn),"pd_n":jn(pd)})
        }
        1 => {
            let (mn, md) = price(rng);
            let (sn, sd) = price(rng);
            json!({"fn":"exu","mem_n":jn(rng.edge_u64()),"steps_n":jn(rng.edge_u64()),
                   "mn_n":jn(mn),"md_n":jn(md),"sn_n":jn(sn),"sd_n":jn(sd)})
        }
        // linear fee: half of the time the product size x coefficient sits right at 2^64 (the largest coefficient that still fits for this
        // size, and the next one), with a constant that fits or tips the sum over
        _ => if rng.chance(1, 2) {
                let size = match rng.below(4) { 0 => 2 + rng.below(6), 1 => 1 + rng.below(70000), 2 => (1u64 << 31) + rng.below(5), _ => (1u64 << 32) - 1 - rng.below(3) };
                let fit = u64::MAX / size;
                let a = match rng.below(4) { 0 => fit, 1 => fit + 1, 2 => fit - rng.below(3), _ => fit + 1 + rng.below(1000) };
                let room = u64::MAX - fit.saturating_mul(size).min(u64::MAX);
                json!({"fn":"lin","size_n":jn(size),"a_n":jn(a),"b_n":jn(*rng.pick(&[0u64, room, room.saturating_add(1), 155381]))})
             } else { json!({"fn":"lin","size_n":jn(rng.edge_u64() & 0xffff_ffff),"a_n":jn(rng.edge_u64()),"b_n":jn(rng.edge_u64())}) },
    }
}
