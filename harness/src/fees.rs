//! C15 driver: calls the stand-alone fee functions with the arguments of each scenario
//! (TLC grid) and with seeded random arguments; logs arguments and result.
use crate::util::*;
use cardano_serialization_lib as csl;
use serde_json::{json, Value as J};

fn ui(n: &J, d: &J) -> csl::UnitInterval {
    csl::UnitInterval::new(&bn_of(n), &bn_of(d))
}

pub fn run_one(out: &mut Out, sc: usize, s: &J) {
    let f = s["fn"].as_str().unwrap();
    let r = match f {
        "ref" => {
            let size = u64_of(&s["size_n"]) as usize;
            let p = ui(&s["pn_n"], &s["pd_n"]);
            call(|| csl::min_ref_script_fee(size, &p)).to_json(|c| obj(vec![("v_n", jbn(&c))]))
        }
        "exu" => {
            let eu = csl::ExUnits::new(&bn_of(&s["mem_n"]), &bn_of(&s["steps_n"]));
            let pr = csl::ExUnitPrices::new(&ui(&s["mn_n"], &s["md_n"]), &ui(&s["sn_n"], &s["sd_n"]));
            call(|| csl::calculate_ex_units_ceil_cost(&eu, &pr)).to_json(|c| obj(vec![("v_n", jbn(&c))]))
        }
        "lin" => {
            let lf = csl::LinearFee::new(&bn_of(&s["a_n"]), &bn_of(&s["b_n"]));
            let size = u64_of(&s["size_n"]) as usize;
            call(|| csl::min_fee_for_size(size, &lf)).to_json(|c| obj(vec![("v_n", jbn(&c))]))
        }
        _ => panic!("unknown fn {}", f),
    };
    let mut e = s.clone();
    let m = e.as_object_mut().unwrap();
    m.remove("rnd");
    m.insert("ev".into(), json!("Fee"));
    m.insert("sc".into(), json!(sc));
    m.insert("r".into(), r);
    out.ev(e);
}

pub fn main(a: &Args) {
    drive(a, |rng, _| gen(rng), |out, sc, s| run_one(out, sc, s));
}

fn gen(rng: &mut Rng) -> J {
    let price = |rng: &mut Rng| -> (u64, u64) {
        match rng.below(4) {
            0 => (rng.below(100), 1 + rng.below(100)),
            1 => (rng.edge_u64(), 1 + rng.below(1000)),
            2 => (rng.below(1000), rng.edge_u64().max(1)),
            _ => (rng.edge_u64(), rng.edge_u64().max(1)),
        }
    };
    match rng.below(3) {
        0 => {
            let (pn, pd) = price(rng);
            let size = match rng.below(3) { 0 => rng.below(1_048_576), 1 => 25_600 * rng.below(41) + rng.below(3), _ => rng.below(60_000) };
            json!({"fn":"ref","size_n":jn(size),"pn_n":jn(pn),"pd_n":jn(pd)})
        }
        1 => {
            let (mn, md) = price(rng);
            let (sn, sd) = price(rng);
            json!({"fn":"exu","mem_n":jn(rng.edge_u64()),"steps_n":jn(rng.edge_u64()),
                   "mn_n":jn(mn),"md_n":jn(md),"sn_n":jn(sn),"sd_n":jn(sd)})
        }
        _ => json!({"fn":"lin","size_n":jn(rng.edge_u64() & 0xffff_ffff),"a_n":jn(rng.edge_u64()),"b_n":jn(rng.edge_u64())}),
    }
}
