//! Key algebra driver (C12). A scenario is a list of operations over registers (the result of operation #i is register #i, 1-based);
//! every operation is one public API call whose raw outcome is logged. No expectation is computed here.
//!   root i | derive a ix | pub a | dpub a ix | raw a | rawpub a | normal i | topub a | sign a m | verify a m s | hash a
//!   witness a h | icarus a h | daedalus a h | codec a form | encrypt pw salt nonce data | decrypt a pw|sha512_of|append0 flip cut
//! ix = {hard: bool, n: 0..2^31-1} (TLC integers are 32-bit signed).
use crate::util::*;
use cardano_serialization_lib as csl;
use serde_json::{json, Value as J};
use sha2::{Digest, Sha512};

// the key types are not Clone: registers hold the raw bytes and the typed value is rebuilt for every use
#[derive(Clone)]
enum Val { Xprv(Vec<u8>), Xpub(Vec<u8>), Sk(Vec<u8>), Pk(Vec<u8>), Sig(Vec<u8>), Cipher(Vec<u8>), Nothing }
fn xprv(b: &[u8]) -> csl::Bip32PrivateKey { csl::Bip32PrivateKey::from_bytes(b).unwrap() }
fn xpub(b: &[u8]) -> csl::Bip32PublicKey { csl::Bip32PublicKey::from_bytes(b).unwrap() }
fn skey(b: &[u8]) -> csl::PrivateKey { if b.len() == 32 { csl::PrivateKey::from_normal_bytes(b).unwrap() } else { csl::PrivateKey::from_extended_bytes(b).unwrap() } }
fn pkey(b: &[u8]) -> csl::PublicKey { csl::PublicKey::from_bytes(b).unwrap() }
fn sigv(b: &[u8]) -> csl::Ed25519Signature { csl::Ed25519Signature::from_bytes(b.to_vec()).unwrap() }

fn ix_of(v: &J) -> u32 { ((v["hard"].as_bool().unwrap_or(false) as u32) << 31) | (v["n"].as_u64().unwrap_or(0) as u32) }
fn hexs(b: &[u8]) -> String { b.iter().map(|x| format!("{:02x}", x)).collect() }
fn unhex(s: &str) -> Vec<u8> { (0..s.len() / 2).map(|i| u8::from_str_radix(&s[2 * i..2 * i + 2], 16).unwrap_or(0)).collect() }
fn okb(b: &[u8]) -> J { json!({"ok": true, "b": jbytes(b)}) }
fn outcome_b(o: Outcome<Vec<u8>>) -> J { o.to_json(|b| obj(vec![("b", jbytes(&b))])) }

thread_local! { static ROOTS: std::cell::RefCell<std::collections::HashMap<u64, Vec<u8>>> = Default::default(); }
fn root(i: u64) -> csl::Bip32PrivateKey {
    xprv(&ROOTS.with(|r| r.borrow_mut().entry(i).or_insert_with(|| csl::Bip32PrivateKey::from_bip39_entropy(&[i as u8; 32], &[]).as_bytes()).clone()))
}

fn codec(v: &Val, form: &str) -> J {
    macro_rules! rt {
        ($x:expr, $ty:ty, $as_bytes:ident, $from_bytes:expr) => {{
            let x = $x;
            match form {
                "bytes" => { let b = x.$as_bytes(); let b2 = b.clone(); json!({"text": jbytes(&b), "back": outcome_b(call(move || $from_bytes(&b2).map(|y: $ty| y.$as_bytes())))}) }
                "hex" => { let t = x.to_hex(); let t2 = t.clone(); json!({"text": jbytes(t.as_bytes()), "back": outcome_b(call(move || <$ty>::from_hex(&t2).map(|y| y.$as_bytes())))}) }
                "bech32" => { let t = x.to_bech32(); let t2 = t.clone(); json!({"text": jbytes(t.as_bytes()), "back": outcome_b(call(move || <$ty>::from_bech32(&t2).map(|y| y.$as_bytes())))}) }
                _ => json!({"err": "harness: form not available for this kind"}),
            }
        }};
    }
    match v {
        Val::Xprv(k) if form == "xprv128" => { let t = xprv(k).to_128_xprv(); let t2 = t.clone(); json!({"text": jbytes(&t), "back": outcome_b(call(move || csl::Bip32PrivateKey::from_128_xprv(&t2).map(|y| y.as_bytes())))}) }
        Val::Xprv(k) => rt!(xprv(k), csl::Bip32PrivateKey, as_bytes, csl::Bip32PrivateKey::from_bytes),
        Val::Xpub(k) => rt!(xpub(k), csl::Bip32PublicKey, as_bytes, csl::Bip32PublicKey::from_bytes),
        Val::Sk(k) => {
            let k = skey(k);
            if form == "bytes" { let b = k.as_bytes(); let b2 = b.clone(); json!({"text": jbytes(&b), "back": outcome_b(call(move || if b2.len() == 32 { csl::PrivateKey::from_normal_bytes(&b2) } else { csl::PrivateKey::from_extended_bytes(&b2) }.map(|y| y.as_bytes())))}) }
            else { rt!(k, csl::PrivateKey, as_bytes, csl::PrivateKey::from_normal_bytes) }
        }
        Val::Pk(k) => rt!(pkey(k), csl::PublicKey, as_bytes, csl::PublicKey::from_bytes),
        Val::Sig(k) => rt!(sigv(k), csl::Ed25519Signature, to_bytes, |b: &Vec<u8>| csl::Ed25519Signature::from_bytes(b.clone())),
        _ => json!({"err": "harness: nothing to encode"}),
    }
}

pub fn run_one(out: &mut Out, sc: usize, s: &J) {
    let mut regs: Vec<Val> = vec![];
    let empty = vec![];
    for (i, op) in s["ops"].as_array().unwrap_or(&empty).iter().enumerate() {
        let name = op["op"].as_str().unwrap_or("");
        let a = op.get("a").and_then(|x| x.as_u64()).map(|x| regs.get(x as usize - 1).cloned().unwrap_or(Val::Nothing)).unwrap_or(Val::Nothing);
        let mut ev = json!({"ev": "Key", "sc": sc, "i": i + 1, "op": op.clone()});
        let mut val = Val::Nothing;
        let r: J = match (name, &a) {
            ("root", _) => { let k = root(op["i"].as_u64().unwrap_or(0)); let b = k.as_bytes(); val = Val::Xprv(b.clone()); okb(&b) }
            ("normal", _) => match call(|| csl::PrivateKey::from_normal_bytes(&[op["i"].as_u64().unwrap_or(0) as u8; 32])) { Outcome::Ok(k) => { let b = k.as_bytes(); val = Val::Sk(b.clone()); okb(&b) } o => o.to_json(|_| obj(vec![])) },
            // an extended key imported from bytes: the bytes of key a with a bit pattern or-ed into one byte
            ("tweak", Val::Xprv(k)) => { let mut b = k.clone(); let i = op["byte"].as_u64().unwrap_or(0) as usize; if i < b.len() { b[i] |= op["mask"].as_u64().unwrap_or(0) as u8; }
                match call(|| csl::Bip32PrivateKey::from_bytes(&b)) { Outcome::Ok(c) => { let cb = c.as_bytes(); val = Val::Xprv(cb.clone()); okb(&cb) } o => o.to_json(|_| obj(vec![])) } }
            ("derive", Val::Xprv(k)) => match call_total(|| xprv(k).derive(ix_of(&op["ix"]))) { Outcome::Ok(c) => { let b = c.as_bytes(); val = Val::Xprv(b.clone()); okb(&b) } o => o.to_json(|_| obj(vec![])) },
            ("pub", Val::Xprv(k)) => match call_total(|| xprv(k).to_public()) { Outcome::Ok(c) => { let b = c.as_bytes(); val = Val::Xpub(b.clone()); okb(&b) } o => o.to_json(|_| obj(vec![])) },
            ("dpub", Val::Xpub(k)) => match call(|| xpub(k).derive(ix_of(&op["ix"]))) { Outcome::Ok(c) => { let b = c.as_bytes(); val = Val::Xpub(b.clone()); okb(&b) } o => o.to_json(|_| obj(vec![])) },
            ("raw", Val::Xprv(k)) => match call_total(|| xprv(k).to_raw_key()) { Outcome::Ok(c) => { let b = c.as_bytes(); val = Val::Sk(b.clone()); okb(&b) } o => o.to_json(|_| obj(vec![])) },
            ("rawpub", Val::Xpub(k)) => match call_total(|| xpub(k).to_raw_key()) { Outcome::Ok(c) => { let b = c.as_bytes(); val = Val::Pk(b.clone()); okb(&b) } o => o.to_json(|_| obj(vec![])) },
            ("topub", Val::Sk(k)) => match call_total(|| skey(k).to_public()) { Outcome::Ok(c) => { let b = c.as_bytes(); val = Val::Pk(b.clone()); okb(&b) } o => o.to_json(|_| obj(vec![])) },
            ("sign", Val::Sk(k)) => { let m = get_bytes(&op["m"]); match call_total(|| skey(k).sign(&m)) { Outcome::Ok(c) => { let b = c.to_bytes(); val = Val::Sig(b.clone()); okb(&b) } o => o.to_json(|_| obj(vec![])) } }
            ("verify", Val::Pk(k)) => { let m = get_bytes(&op["m"]);
                match op["s"].as_u64().and_then(|x| regs.get(x as usize - 1)) { Some(Val::Sig(sg)) => call_total(|| pkey(k).verify(&m, &sigv(sg))).to_json(|v| obj(vec![("v", json!(v))])), _ => json!({"err": "harness: no signature register"}) } }
            ("hash", Val::Pk(k)) => call_total(|| pkey(k).hash().to_bytes()).to_json(|b| obj(vec![("b", jbytes(&b))])),
            ("witness", Val::Sk(k)) => { let h = get_bytes(&op["h"]); let mut h2 = h.clone(); h2[0] ^= 1;
                call(|| -> Result<_, csl::JsError> { let w = csl::make_vkey_witness(&csl::TransactionHash::from_bytes(h.clone())?, &skey(k)); let pk = w.vkey().public_key();
                    Ok((pk.as_bytes(), w.signature().to_bytes(), pk.verify(&h, &w.signature()), pk.verify(&h2, &w.signature()))) })
                .to_json(|(vk, sg, v1, v2)| obj(vec![("vkey", jbytes(&vk)), ("sig", jbytes(&sg)), ("verifies", json!(v1)), ("verifies_other_hash", json!(v2))])) }
            ("icarus", Val::Xprv(k)) => { let h = get_bytes(&op["h"]); let mut h2 = h.clone(); h2[31] ^= 0x80;
                call(|| -> Result<_, csl::JsError> { let k = xprv(k); let addr = csl::ByronAddress::icarus_from_key(&k.to_public(), 764824073);
                    let w = csl::make_icarus_bootstrap_witness(&csl::TransactionHash::from_bytes(h.clone())?, &addr, &k); let pk = w.vkey().public_key();
                    Ok((pk.as_bytes(), w.signature().to_bytes(), w.chain_code(), pk.verify(&h, &w.signature()), pk.verify(&h2, &w.signature()))) })
                .to_json(|(vk, sg, cc, v1, v2)| obj(vec![("vkey", jbytes(&vk)), ("sig", jbytes(&sg)), ("cc", jbytes(&cc)), ("verifies", json!(v1)), ("verifies_other_hash", json!(v2))])) }
            // "mutate": the legacy key is taken from the bytes of key a with one byte changed - a legacy Daedalus key is any 96 bytes, it need
            // not carry the bit pattern of a BIP32-Ed25519 key (the address only supplies the attributes of the witness)
            ("daedalus", Val::Xprv(k)) => { let h = get_bytes(&op["h"]); let mut h2 = h.clone(); h2[5] ^= 4;
                let mut kb = k.clone();
                if let Some(mu) = op.get("mutate") { let i = mu["byte"].as_u64().unwrap_or(0) as usize; if i < kb.len() { kb[i] ^= mu["xor"].as_u64().unwrap_or(0) as u8; } }
                ev["kb"] = jbytes(&kb);
                call(|| -> Result<_, csl::JsError> { let k = xprv(k); let lk = csl::LegacyDaedalusPrivateKey::from_bytes(&kb)?; let addr = csl::ByronAddress::icarus_from_key(&k.to_public(), 764824073);
                    let w = csl::make_daedalus_bootstrap_witness(&csl::TransactionHash::from_bytes(h.clone())?, &addr, &lk); let pk = w.vkey().public_key();
                    Ok((pk.as_bytes(), w.signature().to_bytes(), w.chain_code(), lk.as_bytes(), pk.verify(&h, &w.signature()), pk.verify(&h2, &w.signature()))) })
                .to_json(|(vk, sg, cc, lb, v1, v2)| obj(vec![("vkey", jbytes(&vk)), ("sig", jbytes(&sg)), ("cc", jbytes(&cc)), ("legacy_bytes", jbytes(&lb)), ("verifies", json!(v1)), ("verifies_other_hash", json!(v2))])) }
            ("codec", v) => { let form = op["form"].as_str().unwrap_or("").to_string(); let v2 = v.clone(); call_total(move || codec(&v2, &form)).to_json(|j| j.as_object().cloned().unwrap_or_default()) }
            ("encrypt", _) => { let (pw, salt, nonce, data) = (get_bytes(&op["pw"]), get_bytes(&op["salt"]), get_bytes(&op["nonce"]), get_bytes(&op["data"]));
                ev["pw_sha512"] = jbytes(&Sha512::digest(&pw));
                match call(|| csl::encrypt_with_password(&hexs(&pw), &hexs(&salt), &hexs(&nonce), &hexs(&data))) { Outcome::Ok(t) => { let b = unhex(&t); val = Val::Cipher(b.clone()); json!({"ok": true, "b": jbytes(&b), "is_lower_hex": t.bytes().all(|c| c.is_ascii_digit() || (b'a'..=b'f').contains(&c))}) } o => o.to_json(|_| obj(vec![])) } }
            ("decrypt", Val::Cipher(c)) => {
                let mut pw = get_bytes(&op["pw"]);
                if op.get("sha512_of_pw").and_then(|x| x.as_bool()) == Some(true) { pw = Sha512::digest(&pw).to_vec(); }
                for _ in 0..op.get("append0").and_then(|x| x.as_u64()).unwrap_or(0) { pw.push(0); }
                let mut c2 = c.clone();
                if let Some(p) = op.get("flip").and_then(|x| x.as_u64()) { if (p as usize) < c2.len() { c2[p as usize] ^= 1 << (p % 8); } }
                if let Some(n) = op.get("cut").and_then(|x| x.as_u64()) { let l = c2.len().saturating_sub(n as usize); c2.truncate(l); }
                ev["pw_used"] = jbytes(&pw); ev["pw_sha512"] = jbytes(&Sha512::digest(&pw)); ev["cipher_used"] = jbytes(&c2);
                outcome_b(call(|| csl::decrypt_with_password(&hexs(&pw), &hexs(&c2)).map(|t| unhex(&t)))) }
            _ => json!({"err": "harness: operand register has another kind"}),
        };
        ev["r"] = r;
        out.ev(ev);
        regs.push(val);
    }
}

// ---- seeded random scenarios: long derivation paths with a random switch to the public side, random sign / verify pairs, random containers ----
const IXS: [(bool, u64); 8] = [(false, 0), (false, 1), (false, 1852), (false, 0x7fff_ffff), (true, 0), (true, 1), (true, 1815), (true, 0x7fff_ffff)];
pub fn gen(rng: &mut Rng, _i: usize) -> J {
    let mut ops: Vec<J> = vec![];
    match rng.below(3) {
        0 => {
            // path of depth 1..6; private chain, then public chains started at every level
            let d = 1 + rng.below(6) as usize;
            let path: Vec<(bool, u64)> = (0..d).map(|_| if rng.below(4) == 0 { (rng.below(2) == 0, rng.below(1 << 31)) } else { *rng.pick(&IXS) }).collect();
            ops.push(json!({"op": "root", "i": rng.below(3)}));
            for (h, n) in path.iter() { let a = ops.len(); ops.push(json!({"op": "derive", "a": a, "ix": {"hard": h, "n": n}})); }
            for lvl in 0..=d {
                ops.push(json!({"op": "pub", "a": lvl + 1}));
                if rng.below(2) == 0 { for (h, n) in path[lvl..].iter() { let a = ops.len(); ops.push(json!({"op": "dpub", "a": a, "ix": {"hard": h, "n": n}})); if *h { break; } } }
            }
            let leaf = d + 1;
            ops.push(json!({"op": "raw", "a": leaf})); let sk = ops.len();
            ops.push(json!({"op": "topub", "a": sk})); let pk = ops.len();
            ops.push(json!({"op": "pub", "a": leaf})); let xp = ops.len();
            ops.push(json!({"op": "rawpub", "a": xp}));
            let ml = rng.below(80) as usize; let m = rng.bytes(ml);
            ops.push(json!({"op": "sign", "a": sk, "m": jbytes(&m)})); let sg = ops.len();
            ops.push(json!({"op": "verify", "a": pk, "m": jbytes(&m), "s": sg}));
            let mut m2 = m.clone(); m2.push(0);
            ops.push(json!({"op": "verify", "a": pk, "m": jbytes(&m2), "s": sg}));
            ops.push(json!({"op": "hash", "a": pk}));
            let h = rng.bytes(32);
            ops.push(json!({"op": "sign", "a": sk, "m": jbytes(&h)}));
            ops.push(json!({"op": "witness", "a": sk, "h": jbytes(&h)}));
            ops.push(json!({"op": "icarus", "a": leaf, "h": jbytes(&h)}));
            if rng.below(2) == 0 { ops.push(json!({"op": "daedalus", "a": leaf, "h": jbytes(&h)})); }
            if rng.below(3) == 0 { ops.push(json!({"op": "daedalus", "a": leaf, "h": jbytes(&h), "mutate": {"byte": *rng.pick(&[0u64, 0, 31, 31, 32, 63, 64, 95]), "xor": 1u64 << rng.below(8)}})); }
            for (reg, forms) in [(leaf, vec!["bytes", "hex", "bech32", "xprv128"]), (xp, vec!["bytes", "hex", "bech32"]), (sk, vec!["bytes", "hex", "bech32"]), (pk, vec!["bytes", "hex", "bech32"]), (sg, vec!["bytes", "hex", "bech32"])] {
                for f in forms { if rng.below(3) == 0 { ops.push(json!({"op": "codec", "a": reg, "form": f})); } }
            }
        }
        1 => {
            // several keys and messages: every signature against every key and message
            let nk = 2 + rng.below(2) as usize; let nm = 2 + rng.below(2) as usize;
            let mut sks = vec![]; let mut pks = vec![];
            for k in 0..nk {
                if rng.below(2) == 0 { ops.push(json!({"op": "normal", "i": rng.below(200) + k as u64 * 200})); } else { ops.push(json!({"op": "root", "i": rng.below(3)})); let a = ops.len(); ops.push(json!({"op": "derive", "a": a, "ix": {"hard": rng.below(2) == 0, "n": k as u64 + 10 * rng.below(100)}})); let a = ops.len(); ops.push(json!({"op": "raw", "a": a})); }
                sks.push(ops.len()); ops.push(json!({"op": "topub", "a": ops.len()})); pks.push(ops.len());
            }
            let msgs: Vec<Vec<u8>> = (0..nm).map(|j| { let ml = [0usize, 1, 32, 200][rng.below(4) as usize]; let mut m = rng.bytes(ml); m.push(j as u8); m }).collect();
            let mut sigs = vec![];
            for s in sks.iter() { for m in msgs.iter() { ops.push(json!({"op": "sign", "a": s, "m": jbytes(m)})); sigs.push(ops.len()); } }
            for p in pks.iter() { for m in msgs.iter() { for sg in sigs.iter() { ops.push(json!({"op": "verify", "a": p, "m": jbytes(m), "s": sg})); } } }
            for sg in sigs.iter().take(2) { for f in ["bytes", "hex", "bech32"] { ops.push(json!({"op": "codec", "a": sg, "form": f})); } }
        }
        _ => {
            let pl = [1usize, 8, 63, 64, 65, 127, 128, 129, 200][rng.below(9) as usize];
            let pw: Vec<u8> = (0..pl).map(|i| 1 + ((i * 7 + rng.below(3) as usize) % 250) as u8).collect();
            let dl = [0usize, 1, 16, 64, 100][rng.below(5) as usize]; let data = rng.bytes(dl);
            let sl = if rng.below(10) == 0 { 31 } else { 32 }; let nl = if rng.below(10) == 0 { 13 } else { 12 }; let salt = rng.bytes(sl); let nonce = rng.bytes(nl);
            ops.push(json!({"op": "encrypt", "pw": jbytes(&pw), "salt": jbytes(&salt), "nonce": jbytes(&nonce), "data": jbytes(&data)}));
            ops.push(json!({"op": "decrypt", "a": 1, "pw": jbytes(&pw)}));
            let total = 60 + data.len() as u64;
            for _ in 0..1 + rng.below(3) { match rng.below(8) {
                0 => ops.push(json!({"op": "decrypt", "a": 1, "pw": jbytes(&pw), "sha512_of_pw": true})),
                1 => ops.push(json!({"op": "decrypt", "a": 1, "pw": jbytes(&pw), "append0": 1 + rng.below(2)})),
                2 => { let mut p2 = pw.clone(); let l = p2.len(); p2[l - 1] ^= 1; ops.push(json!({"op": "decrypt", "a": 1, "pw": jbytes(&p2)})) }
                5 => { let l = pw.len(); ops.push(json!({"op": "decrypt", "a": 1, "pw": jbytes(&pw[..l - 1 - (rng.below(l as u64) as usize).min(l - 1)])})) }
                6 => { let mut p2 = pw.clone(); p2.push(1 + rng.below(255) as u8); ops.push(json!({"op": "decrypt", "a": 1, "pw": jbytes(&p2)})) }
                3 => ops.push(json!({"op": "decrypt", "a": 1, "pw": jbytes(&pw), "flip": rng.below(total)})),
                _ => ops.push(json!({"op": "decrypt", "a": 1, "pw": jbytes(&pw), "cut": 1 + rng.below(3)})),
            } }
        }
    }
    json!({"ops": ops})
}

pub fn main(a: &Args) {
    drive(a, gen, |out, sc, s| run_one(out, sc, s));
}
