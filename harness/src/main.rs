mod util;
mod fees;
mod numeric;
mod mk;
mod deposits;
mod select;
mod builder;
mod address;
mod sendall;
mod sets;
mod fixedtx;
mod mdjson;
mod keys;
mod hashes;
mod codec;
mod parse;

fn main() {
    let argv: Vec<String> = std::env::args().collect();
    if argv.len() < 2 {
        eprintln!("usage: csl-conform <driver> [--scn FILE] [--seed N] [--n N] [flags]");
        std::process::exit(2);
    }
    util::quiet_panics();
    let a = util::parse_args(&argv[2..]);
    match argv[1].as_str() {
        "fees" => fees::main(&a),
        "numeric" => numeric::main(&a),
        "deposits" => deposits::main(&a),
        "select" => select::main(&a),
        "builder" => builder::main(&a),
        "address" => address::main(&a),
        "sendall" => sendall::main(&a),
        "sets" => sets::main(&a),
        "fixedtx" => fixedtx::main(&a),
        "codec" => codec::main(&a),
        "parse" => parse::main(&a),
        "json" => mdjson::main(&a),
        "keys" => keys::main(&a),
        "hashes" => hashes::main(&a),
        d => {
            eprintln!("unknown driver {}", d);
            std::process::exit(2);
        }
    }
}
