//! C14 driver: amount types. One event per call: arguments and every observation of the result.
use crate::util::*;
use cardano_serialization_lib as csl;
use csl::{BigInt, BigNum, Int};
use serde_json::{json, Map, Value as J};

fn ascii_of(v: &J) -> String {
    String::from_utf8_lossy(&get_bytes(v)).to_string()
}
fn signed_dec(v: &J) -> String {
    let d = dec_of_be(&get_bytes(&v["mag_n"]));
    if v["neg"].as_bool().unwrap() && d != "0" { format!("-{}", d) } else { d }
}
fn opt_bn(o: Option<BigNum>) -> J {
    match o { Some(v) => json!({"some": true, "v_n": jbn(&v)}), None => json!({"some": false}) }
}
fn rt_str<E: std::fmt::Debug>(f: impl FnOnce() -> Result<String, E>) -> J {
    call(f).to_json(|s| obj(vec![("s", jtext(&s))]))
}

fn int_obs(x: Int) -> Map<String, J> {
    let to_str = x.to_str();
    let to_bytes = call_total(|| x.to_bytes());
    let (tb, rt) = match to_bytes {
        Outcome::Ok(b) => {
            let b2 = b.clone();
            (json!({"ok": true, "bytes": jbytes(&b)}), rt_str(move || Int::from_bytes(b2).map(|y| y.to_str())))
        }
        Outcome::Panic(p) => (json!({"panic": p}), json!({"err": "n/a"})),
        Outcome::Err(_) => unreachable!(),
    };
    let s2 = to_str.clone();
    let str_rt = rt_str(move || Int::from_str(&s2).map(|y| y.to_str()));
    let x2 = x.clone();
    let json_rt = rt_str(move || x2.to_json().and_then(|j| Int::from_json(&j)).map(|y| y.to_str()));
    let i32v = x.as_i32_or_nothing();
    obj(vec![("obs", json!({
        "to_str": jtext(&to_str),
        "is_positive": x.is_positive(),
        "as_positive": opt_bn(x.as_positive()),
        "as_negative": opt_bn(x.as_negative()),
        "as_i32": match i32v { Some(v) => json!({"some": true, "v": jsigned_dec(&v.to_string())}), None => json!({"some": false}) },
        "as_i32_fail": x.as_i32_or_fail().is_err(),
        "to_bytes": tb, "rt": rt, "str_rt": str_rt, "json_rt": json_rt,
    }))])
}

fn bigint_obs(x: BigInt) -> Map<String, J> {
    let to_str = x.to_str();
    let to_bytes = call_total(|| x.to_bytes());
    let (tb, rt) = match to_bytes {
        Outcome::Ok(b) => {
            let b2 = b.clone();
            (json!({"ok": true, "bytes": jbytes(&b)}), rt_str(move || BigInt::from_bytes(b2).map(|y| y.to_str())))
        }
        Outcome::Panic(p) => (json!({"panic": p}), json!({"err": "n/a"})),
        Outcome::Err(_) => unreachable!(),
    };
    let s2 = to_str.clone();
    let str_rt = rt_str(move || BigInt::from_str(&s2).map(|y| y.to_str()));
    let as_int = match call_total(|| x.as_int()) {
        Outcome::Ok(Some(i)) => json!({"some": true, "s": jtext(&i.to_str())}),
        Outcome::Ok(None) => json!({"some": false}),
        _ => json!({"some": true, "s": jtext("panic")}),
    };
    obj(vec![("obs", json!({
        "to_str": jtext(&to_str), "is_zero": x.is_zero(), "as_u64": opt_bn(x.as_u64()), "as_int": as_int,
        "to_bytes": tb, "rt": rt, "str_rt": str_rt,
    }))])
}

pub fn policy(k: u8) -> csl::ScriptHash {
    csl::ScriptHash::from_bytes(vec![k; 28]).unwrap()
}

/// {"coin_n":[..],"assets":[{"p":[k],"n":[..],"q_n":[..]}],"ma":bool} -> Value; policies are expanded k -> 28 x k
pub fn value_of(v: &J) -> csl::Value {
    let coin = bn_of(&v["coin_n"]);
    let mut ma = csl::MultiAsset::new();
    let assets = v["assets"].as_array().cloned().unwrap_or_default();
    for a in assets.iter() {
        let pb = get_bytes(&a["p"]);
        let p = if pb.len() == 28 { csl::ScriptHash::from_bytes(pb).unwrap() } else { policy(pb[0]) };
        let n = csl::AssetName::new(get_bytes(&a["n"])).unwrap();
        ma.set_asset(&p, &n, &bn_of(&a["q_n"]));
    }
    let mut val = csl::Value::new(&coin);
    if v.get("ma").and_then(|b| b.as_bool()).unwrap_or(!assets.is_empty()) {
        val.set_multiasset(&ma);
    }
    val
}
/// Value -> trace JSON (every entry, including zero quantities)
pub fn jvalue(v: &csl::Value) -> J {
    let mut assets = vec![];
    if let Some(ma) = v.multiasset() {
        let ps = ma.keys();
        for i in 0..ps.len() {
            let p = ps.get(i);
            let a = ma.get(&p).unwrap();
            let ns = a.keys();
            for k in 0..ns.len() {
                let n = ns.get(k);
                assets.push(json!({"p": jbytes(&p.to_bytes()), "n": jbytes(&n.name()), "q_n": jbn(&a.get(&n).unwrap())}));
            }
        }
    }
    json!({"coin_n": jbn(&v.coin()), "assets": assets, "ma": v.multiasset().is_some()})
}

pub fn run_one(out: &mut Out, sc: usize, s: &J) {
    let ty = s["ty"].as_str().unwrap();
    let op = s["op"].as_str().unwrap();
    let a = &s["a"];
    let mut a_logged = a.clone();
    let r: J = match (ty, op) {
        ("BigNum", "from_str") => {
            let t = ascii_of(&a["s"]);
            call(|| BigNum::from_str(&t)).to_json(|v| obj(vec![("v_n", jbn(&v)), ("to_str", jtext(&v.to_str())), ("to_bytes", jbytes(&v.to_bytes()))]))
        }
        ("BigNum", "from_bytes") => {
            let b = get_bytes(&a["bytes"]);
            call(|| BigNum::from_bytes(b)).to_json(|v| obj(vec![("v_n", jbn(&v)), ("to_str", jtext(&v.to_str())), ("to_bytes", jbytes(&v.to_bytes()))]))
        }
        ("BigNum", _) => {
            let (x, y) = (bn_of(&a["a_n"]), bn_of(&a["b_n"]));
            match op {
                "checked_add" => call(|| x.checked_add(&y)).to_json(|v| obj(vec![("v_n", jbn(&v))])),
                "checked_mul" => call(|| x.checked_mul(&y)).to_json(|v| obj(vec![("v_n", jbn(&v))])),
                "checked_sub" => call(|| x.checked_sub(&y)).to_json(|v| obj(vec![("v_n", jbn(&v))])),
                "clamped_sub" => call_total(|| x.clamped_sub(&y)).to_json(|v| obj(vec![("v_n", jbn(&v))])),
                "max" => call_total(|| BigNum::max(&x, &y)).to_json(|v| obj(vec![("v_n", jbn(&v))])),
                "less_than" => call_total(|| x.less_than(&y)).to_json(|v| obj(vec![("b", J::Bool(v))])),
                "compare" => call_total(|| x.compare(&y)).to_json(|v| obj(vec![("c", jsigned_dec(&v.to_string()))])),
                _ => panic!("op {}", op),
            }
        }
        ("Int", "new") => { let x = bn_of(&a["a_n"]); call_total(|| Int::new(&x)).to_json(int_obs) }
        ("Int", "new_negative") => { let x = bn_of(&a["a_n"]); call_total(|| Int::new_negative(&x)).to_json(int_obs) }
        ("Int", "new_i32") => { let v: i32 = signed_dec(&a["a"]).parse().unwrap(); call_total(|| Int::new_i32(v)).to_json(int_obs) }
        ("Int", "from_str") => { let t = ascii_of(&a["s"]); call(|| Int::from_str(&t)).to_json(int_obs) }
        ("Int", "from_bytes") => { let b = get_bytes(&a["bytes"]); call(|| Int::from_bytes(b)).to_json(int_obs) }
        ("Int", "from_bigint") => {
            let b = BigInt::from_str(&signed_dec(&a["a"])).unwrap();
            call(|| b.as_int().ok_or("none")).to_json(int_obs)
        }
        ("BigInt", "from_str") => { let t = ascii_of(&a["s"]); call(|| BigInt::from_str(&t)).to_json(bigint_obs) }
        ("BigInt", "from_bytes") => { let b = get_bytes(&a["bytes"]); call(|| BigInt::from_bytes(b)).to_json(bigint_obs) }
        ("BigInt", "from_bignum") => { let x = bn_of(&a["a_n"]); call_total(|| BigInt::from(x)).to_json(bigint_obs) }
        ("BigInt", "abs") => { let x = BigInt::from_str(&signed_dec(&a["a"])).unwrap(); call_total(|| x.abs()).to_json(bigint_obs) }
        ("BigInt", "increment") => { let x = BigInt::from_str(&signed_dec(&a["a"])).unwrap(); call_total(|| x.increment()).to_json(bigint_obs) }
        ("BigInt", "pow") => { let x = BigInt::from_str(&signed_dec(&a["a"])).unwrap(); let e = a["e"].as_u64().unwrap() as u32; call_total(|| x.pow(e)).to_json(bigint_obs) }
        ("BigInt", _) => {
            let x = BigInt::from_str(&signed_dec(&a["a"])).unwrap();
            let y = BigInt::from_str(&signed_dec(&a["b"])).unwrap();
            match op {
                "add" => call_total(|| x.add(&y)).to_json(bigint_obs),
                "sub" => call_total(|| x.sub(&y)).to_json(bigint_obs),
                "mul" => call_total(|| x.mul(&y)).to_json(bigint_obs),
                "div_floor" => call_total(|| x.div_floor(&y)).to_json(bigint_obs),
                "div_ceil" => call_total(|| x.div_ceil(&y)).to_json(bigint_obs),
                _ => panic!("op {}", op),
            }
        }
        ("Value", _) => {
            let (x, y) = (value_of(&a["a"]), value_of(&a["b"]));
            a_logged = json!({"a": jvalue(&x), "b": jvalue(&y)});
            match op {
                "checked_add" => call(|| x.checked_add(&y)).to_json(|v| obj(vec![("v", jvalue(&v))])),
                "checked_sub" => call(|| x.checked_sub(&y)).to_json(|v| obj(vec![("v", jvalue(&v))])),
                "clamped_sub" => call_total(|| x.clamped_sub(&y)).to_json(|v| obj(vec![("v", jvalue(&v))])),
                "compare" => call_total(|| x.compare(&y)).to_json(|v| match v {
                    Some(c) => obj(vec![("some", J::Bool(true)), ("c", J::from(c as i64))]),
                    None => obj(vec![("some", J::Bool(false))]),
                }),
                "eq" => call_total(|| x == y).to_json(|v| obj(vec![("b", J::Bool(v))])),
                _ => panic!("op {}", op),
            }
        }
        ("Mint", "accumulate") => {
            let amounts: Vec<Int> = a["amounts"].as_array().unwrap().iter()
                .map(|x| if x["neg"].as_bool().unwrap() { Int::new_negative(&bn_of(&x["mag_n"])) } else { Int::new(&bn_of(&x["mag_n"])) }).collect();
            call(move || -> Result<_, csl::JsError> {
                let ns = csl::NativeScript::new_script_pubkey(&csl::ScriptPubkey::new(&csl::Ed25519KeyHash::from_bytes(vec![1; 28]).unwrap()));
                let w = csl::MintWitness::new_native_script(&csl::NativeScriptSource::new(&ns));
                let name = csl::AssetName::new(vec![65]).unwrap();
                let mut mb = csl::MintBuilder::new();
                for am in amounts.iter() {
                    mb.add_asset(&w, &name, am)?;
                }
                let mint = mb.build()?;
                let total = mint.get(&ns.hash()).and_then(|ms| ms.get(0)).and_then(|m| m.get(&name)).ok_or(csl::JsError::from_str("missing"))?;
                Ok((total.to_str(), call_total(|| mint.to_bytes())))
            }).to_json(|(t, b)| {
                let mut m = obj(vec![("total", jtext(&t))]);
                match b { Outcome::Ok(b) => { m.insert("mint".into(), jbytes(&b)); } _ => { m.insert("mint_panic".into(), J::Bool(true)); } }
                m
            })
        }
        _ => panic!("unknown {} {}", ty, op),
    };
    out.ev(json!({"ev": "Num", "sc": sc, "ty": ty, "op": op, "a": a_logged, "r": r}));
}

fn rnd_value(rng: &mut Rng) -> J {
    let n = rng.below(4);
    let mut assets = vec![];
    for _ in 0..n {
        let p = 1 + rng.below(2) as u8;
        let name: Vec<u8> = match rng.below(3) { 0 => vec![], 1 => vec![7], _ => vec![7, 8] };
        let q = match rng.below(4) { 0 => 0, 1 => 1 + rng.below(3), 2 => u64::MAX - rng.below(3), _ => rng.edge_u64() };
        assets.push(json!({"p": [p], "n": jbytes(&name), "q_n": jn(q)}));
    }
    let coin = match rng.below(3) { 0 => rng.below(4), 1 => u64::MAX - rng.below(3), _ => rng.edge_u64() };
    json!({"coin_n": jn(coin), "assets": assets, "ma": n > 0 || rng.chance(1, 4)})
}
fn rnd_signed(rng: &mut Rng, wide: bool) -> J {
    // mostly 64-bit edge values; one third 65..256 bits; rarely up to 2000 bits (several CBOR chunks)
    let mag = if wide && rng.chance(1, 3) {
        let n = if rng.chance(1, 25) { 33 + rng.below(218) as usize } else { 9 + rng.below(24) as usize };
        let mut b = rng.bytes(n); b[0] |= 1; b
    } else { be_u64(rng.edge_u64()) };
    json!({"neg": rng.chance(1, 2), "mag_n": jbytes(&mag)})
}

fn gen(rng: &mut Rng) -> J {
    match rng.below(10) {
        0..=3 => {
            let a = rnd_value(rng);
            // related second operand: often a sub-value or the same assets
            let b = if rng.chance(1, 3) { a.clone() } else { rnd_value(rng) };
            let op = *rng.pick(&["checked_add", "checked_sub", "clamped_sub", "compare"]);
            json!({"ty": "Value", "op": op, "a": {"a": a, "b": b}})
        }
        4 => {
            let k = 1 + rng.below(4);
            let amounts: Vec<J> = (0..k).map(|_| { let m = match rng.below(3) { 0 => 1 + rng.below(5), 1 => u64::MAX - rng.below(2), _ => rng.edge_u64() }; json!({"neg": rng.chance(1, 3), "mag_n": jn(m)}) }).collect();
            json!({"ty": "Mint", "op": "accumulate", "a": {"amounts": amounts}})
        }
        5 | 6 => {
            let op = *rng.pick(&["add", "sub", "mul", "div_floor", "div_ceil"]);
            let (mut x, mut y) = (rnd_signed(rng, true), rnd_signed(rng, true));
            if op.starts_with("div") {
                for v in [&mut x, &mut y] { let mut m = get_bytes(&v["mag_n"]); m.truncate(20); v["mag_n"] = jbytes(&m); }
                if get_bytes(&y["mag_n"]).iter().all(|b| *b == 0) { y["mag_n"] = jbytes(&[3]); }
                if rng.chance(1, 2) { let mut m = get_bytes(&y["mag_n"]); m.truncate(1 + rng.below(3) as usize); if m.iter().all(|b| *b == 0) { m = vec![2]; } y["mag_n"] = jbytes(&m); }
            }
            if op == "mul" {
                // the TLA+ product is quadratic in the number of limbs: keep factors at most 512 bits
                for v in [&mut x, &mut y] { let mut m = get_bytes(&v["mag_n"]); m.truncate(64); v["mag_n"] = jbytes(&m); }
            }
            json!({"ty": "BigInt", "op": op, "a": {"a": x, "b": y}})
        }
        7 => {
            let x = rnd_signed(rng, true);
            let s = signed_dec(&x);
            json!({"ty": *rng.pick(&["BigInt", "Int"]), "op": "from_str", "a": {"s": jtext(&s)}})
        }
        8 => json!({"ty": "Int", "op": "from_bigint", "a": {"a": rnd_signed(rng, true)}}),
        _ => {
            let op = *rng.pick(&["checked_add", "checked_mul", "checked_sub", "clamped_sub", "max", "less_than", "compare"]);
            json!({"ty": "BigNum", "op": op, "a": {"a_n": jn(rng.edge_u64()), "b_n": jn(rng.edge_u64())}})
        }
    }
}

pub fn main(a: &Args) {
    drive(a, |rng, _| gen(rng), |out, sc, s| run_one(out, sc, s));
}
