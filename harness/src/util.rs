//! Shared helpers: JSON conventions of the trace (DESIGN §2.5), panic capture, RNG.
//! There is no oracle in this crate: it calls the public API and logs what came back.
use cardano_serialization_lib as csl;
use serde_json::{json, Map, Value as J};
use std::io::Write;
use std::panic::{catch_unwind, AssertUnwindSafe};

pub fn quiet_panics() {
    if std::env::var("VERIF_DEBUG").is_ok() { return; }
    std::panic::set_hook(Box::new(|_| {}));
}

/// Outcome of one call into the library.
pub enum Outcome<T> {
    Ok(T),
    Err(String),
    Panic(String),
}

pub fn call<T, E: std::fmt::Debug>(f: impl FnOnce() -> Result<T, E>) -> Outcome<T> {
    match catch_unwind(AssertUnwindSafe(f)) {
        Ok(Ok(v)) => Outcome::Ok(v),
        Ok(Err(e)) => Outcome::Err(format!("{:?}", e)),
        Err(p) => Outcome::Panic(panic_msg(p)),
    }
}

pub fn call_total<T>(f: impl FnOnce() -> T) -> Outcome<T> {
    match catch_unwind(AssertUnwindSafe(f)) {
        Ok(v) => Outcome::Ok(v),
        Err(p) => Outcome::Panic(panic_msg(p)),
    }
}

fn panic_msg(p: Box<dyn std::any::Any + Send>) -> String {
    let s = if let Some(s) = p.downcast_ref::<&str>() {
        s.to_string()
    } else if let Some(s) = p.downcast_ref::<String>() {
        s.clone()
    } else {
        "panic".to_string()
    };
    s.chars().filter(|c| c.is_ascii() && *c != '"' && *c != '\\').take(120).collect()
}

impl<T> Outcome<T> {
    /// {"ok":true, ...fields} | {"err":"..."} | {"panic":"..."}
    pub fn to_json(self, f: impl FnOnce(T) -> Map<String, J>) -> J {
        match self {
            Outcome::Ok(v) => {
                let mut m = f(v);
                m.insert("ok".into(), J::Bool(true));
                J::Object(m)
            }
            Outcome::Err(e) => json!({ "err": ascii(&e) }),
            Outcome::Panic(e) => json!({ "panic": e }),
        }
    }
    pub fn is_ok(&self) -> bool {
        matches!(self, Outcome::Ok(_))
    }
}

pub fn ascii(s: &str) -> String {
    s.chars().filter(|c| c.is_ascii() && !c.is_ascii_control() && *c != '"' && *c != '\\').take(160).collect()
}

pub fn obj(pairs: Vec<(&str, J)>) -> Map<String, J> {
    let mut m = Map::new();
    for (k, v) in pairs {
        m.insert(k.to_string(), v);
    }
    m
}

// ---- bytes and naturals

pub fn jbytes(b: &[u8]) -> J {
    J::Array(b.iter().map(|x| J::from(*x as u64)).collect())
}

pub fn get_bytes(v: &J) -> Vec<u8> {
    v.as_array().map(|a| a.iter().map(|x| x.as_u64().unwrap() as u8).collect()).unwrap_or_default()
}

/// minimal big-endian bytes of a u64 (zero = empty)
pub fn be_u64(n: u64) -> Vec<u8> {
    let b = n.to_be_bytes();
    let k = b.iter().position(|x| *x != 0).unwrap_or(8);
    b[k..].to_vec()
}
pub fn be_u128(n: u128) -> Vec<u8> {
    let b = n.to_be_bytes();
    let k = b.iter().position(|x| *x != 0).unwrap_or(16);
    b[k..].to_vec()
}
pub fn jn(n: u64) -> J {
    jbytes(&be_u64(n))
}
pub fn jbn(n: &csl::BigNum) -> J {
    jn(u64::from(n.clone()))
}
pub fn u64_of(v: &J) -> u64 {
    let b = get_bytes(v);
    assert!(b.len() <= 8, "u64_of: too wide");
    b.iter().fold(0u64, |a, x| (a << 8) | (*x as u64))
}
pub fn u128_of(v: &J) -> u128 {
    let b = get_bytes(v);
    assert!(b.len() <= 16);
    b.iter().fold(0u128, |a, x| (a << 8) | (*x as u128))
}
pub fn bn_of(v: &J) -> csl::BigNum {
    csl::BigNum::from(u64_of(v))
}
/// decimal string of an arbitrary big-endian magnitude
pub fn dec_of_be(b: &[u8]) -> String {
    let mut digits: Vec<u8> = vec![];
    let mut cur: Vec<u8> = b.to_vec();
    while cur.iter().any(|x| *x != 0) {
        let mut rem: u32 = 0;
        for x in cur.iter_mut() {
            let t = rem * 256 + *x as u32;
            *x = (t / 10) as u8;
            rem = t % 10;
        }
        digits.push(b'0' + rem as u8);
    }
    if digits.is_empty() {
        digits.push(b'0');
    }
    digits.reverse();
    String::from_utf8(digits).unwrap()
}
/// big-endian magnitude of a decimal string of digits
pub fn be_of_dec(s: &str) -> Vec<u8> {
    let mut out: Vec<u8> = vec![];
    for c in s.bytes() {
        let mut carry = (c - b'0') as u32;
        for x in out.iter_mut().rev() {
            let t = *x as u32 * 10 + carry;
            *x = (t & 255) as u8;
            carry = t >> 8;
        }
        while carry > 0 {
            out.insert(0, (carry & 255) as u8);
            carry >>= 8;
        }
    }
    let k = out.iter().position(|x| *x != 0).unwrap_or(out.len());
    out[k..].to_vec()
}
/// signed decimal string -> {"neg":bool,"mag_n":[..]}
pub fn jsigned_dec(s: &str) -> J {
    let (neg, d) = if let Some(r) = s.strip_prefix('-') { (true, r) } else { (false, s) };
    json!({"neg": neg, "mag_n": jbytes(&be_of_dec(d))})
}
pub fn jtext(s: &str) -> J {
    jbytes(s.as_bytes())
}

// ---- output

pub struct Out {
    w: std::io::BufWriter<std::io::Stdout>,
    pub n: usize,
}
impl Out {
    pub fn new() -> Self {
        Out { w: std::io::BufWriter::with_capacity(1 << 20, std::io::stdout()), n: 0 }
    }
    pub fn ev(&mut self, v: J) {
        serde_json::to_writer(&mut self.w, &v).unwrap();
        self.w.write_all(b"\n").unwrap();
        self.n += 1;
    }
    pub fn flush(&mut self) {
        self.w.flush().unwrap();
    }
}

// ---- deterministic RNG for the random drivers (splitmix64)
pub struct Rng(pub u64);
impl Rng {
    pub fn next(&mut self) -> u64 {
        self.0 = self.0.wrapping_add(0x9E37_79B9_7F4A_7C15);
        let mut z = self.0;
        z = (z ^ (z >> 30)).wrapping_mul(0xBF58_476D_1CE4_E5B9);
        z = (z ^ (z >> 27)).wrapping_mul(0x94D0_49BB_1331_11EB);
        z ^ (z >> 31)
    }
    pub fn below(&mut self, n: u64) -> u64 {
        if n == 0 { 0 } else { self.next() % n }
    }
    pub fn pick<'a, T>(&mut self, xs: &'a [T]) -> &'a T {
        &xs[self.below(xs.len() as u64) as usize]
    }
    pub fn chance(&mut self, num: u64, den: u64) -> bool {
        self.below(den) < num
    }
    /// a u64 biased towards CBOR width boundaries
    pub fn edge_u64(&mut self) -> u64 {
        const E: [u64; 16] = [0, 1, 23, 24, 255, 256, 65535, 65536, 0xffff_ffff, 0x1_0000_0000,
            (1 << 63) - 1, 1 << 63, u64::MAX, u64::MAX - 1, 1_000_000, 2_000_000];
        match self.below(4) {
            0 => *self.pick(&E),
            1 => self.pick(&E).wrapping_add(self.below(3)).wrapping_sub(1),
            2 => self.next() >> self.below(64),
            _ => self.below(5_000_000),
        }
    }
    pub fn bytes(&mut self, n: usize) -> Vec<u8> {
        (0..n).map(|_| self.next() as u8).collect()
    }
}

pub struct Args {
    pub dump: Option<String>,
    pub scn: Option<String>,
    pub seed: u64,
    pub n: usize,
    pub flags: Vec<String>,
}
pub fn parse_args(a: &[String]) -> Args {
    let mut r = Args { dump: None, scn: None, seed: 1, n: 0, flags: vec![] };
    let mut i = 0;
    while i < a.len() {
        match a[i].as_str() {
            "--scn" => { r.scn = Some(a[i + 1].clone()); i += 1; }
            "--dump" => { r.dump = Some(a[i + 1].clone()); i += 1; }
            "--seed" => { r.seed = a[i + 1].parse().unwrap(); i += 1; }
            "--n" => { r.n = a[i + 1].parse().unwrap(); i += 1; }
            f => r.flags.push(f.to_string()),
        }
        i += 1;
    }
    r
}
pub fn read_scn(path: &Option<String>) -> Vec<J> {
    match path {
        None => vec![],
        Some(p) => std::fs::read_to_string(p).unwrap().lines().filter(|l| !l.trim().is_empty())
            .map(|l| serde_json::from_str(l).unwrap()).collect(),
    }
}

/// The common driver loop: scenarios from --scn first, then --n seeded random scenarios in the
/// same vocabulary; every scenario that was run is written to --dump with its "sc" number so
/// that the orchestrator can store a failing one as a replay file.
pub fn drive(a: &Args, mut gen: impl FnMut(&mut Rng, usize) -> J, mut run: impl FnMut(&mut Out, usize, &J)) {
    let mut out = Out::new();
    let mut dump = a.dump.as_ref().map(|p| std::io::BufWriter::new(std::fs::File::create(p).unwrap()));
    let mut sc = 0usize;
    let mut rng = Rng(a.seed.wrapping_mul(0x2545_F491_4F6C_DD1D) ^ 0x1234_5678);
    let fixed = read_scn(&a.scn);
    let nfixed = fixed.len();
    for i in 0..(nfixed + a.n) {
        sc += 1;
        let mut s = if i < nfixed { fixed[i].clone() } else { gen(&mut rng, i - nfixed) };
        if let Some(m) = s.as_object_mut() {
            m.remove("t");
            m.insert("sc".into(), J::from(sc as u64));
            if i >= nfixed { m.insert("rnd".into(), J::Bool(true)); }
        }
        if let Some(d) = dump.as_mut() {
            serde_json::to_writer(&mut *d, &s).unwrap();
            d.write_all(b"\n").unwrap();
        }
        run(&mut out, sc, &s);
    }
    out.flush();
    if let Some(d) = dump.as_mut() { d.flush().unwrap(); }
}
