//! Transaction-builder driver (C05 C06 C07 C09 C10 C16 C18 C19). A scenario is a UTxO environment, protocol
//! parameters and a sequence of public builder operations. Every operation's outcome is logged; `Build` logs
//! the transaction bytes, the builder's size prediction and the transaction really signed by the keys the
//! scenario's items call for. No property is decided here.
use crate::mk;
use crate::numeric::{jvalue, policy};
use crate::util::*;
use cardano_serialization_lib as csl;
use csl::verif_hooks as hook;
use serde_json::{json, Map, Value as J};
use std::collections::{BTreeMap, BTreeSet};

// ------------------------------------------------------------------ scenario atoms

/// value: {"coin_n":[..],"assets":[{"p":[k]|28 bytes | "mp":k (policy of the native script of key k),"n":[..],"q_n":[..]}]}
pub fn bvalue(v: &J) -> csl::Value {
    let coin = bn_of(&v["coin_n"]);
    let mut ma = csl::MultiAsset::new();
    let assets = v["assets"].as_array().cloned().unwrap_or_default();
    for a in assets.iter() {
        let p = if let Some(mp) = a.get("mp") { mk::pubkey_script(mp.as_u64().unwrap() as u8).hash() } else {
            let pb = get_bytes(&a["p"]);
            if pb.len() == 28 { csl::ScriptHash::from_bytes(pb).unwrap() } else { policy(pb[0]) }
        };
        let n = csl::AssetName::new(get_bytes(&a["n"])).unwrap();
        let cur = ma.get_asset(&p, &n);
        ma.set_asset(&p, &n, &cur.checked_add(&bn_of(&a["q_n"])).unwrap_or(csl::BigNum::max_value()));
    }
    if assets.is_empty() { csl::Value::new(&coin) } else { csl::Value::new_with_assets(&coin, &ma) }
}
/// datum of id n: the integer n, freshly built; ids from 3_000_000_000 up: the integer n - 3_000_000_000 DECODED from a non-minimal encoding (4-byte
/// head) which it keeps - the same value as datum n - 3_000_000_000, other bytes, another datum hash
fn pdata(n: u64) -> csl::PlutusData {
    if n >= 3_000_000_000 && n < 3_000_100_000 { let mut b = vec![0x1au8]; b.extend(((n - 3_000_000_000) as u32).to_be_bytes()); return csl::PlutusData::from_bytes(b).unwrap(); }
    csl::PlutusData::new_integer(&csl::BigInt::from_str(&n.to_string()).unwrap())
}

// ---- scripts: Plutus script id s -> bytes s,s,.. (20+s of them), language 1 + s % 3; native script id k -> signature of key k
pub fn plang(sid: u8) -> csl::Language { match sid % 3 { 0 => csl::Language::new_plutus_v1(), 1 => csl::Language::new_plutus_v2(), _ => csl::Language::new_plutus_v3() } }
// scripts 5 and 6 share the compiled code of scripts 1 and 2 under another language version (same bytes, different hash)
pub fn pscript(sid: u8) -> csl::PlutusScript { let code = if sid >= 5 { sid - 4 } else { sid }; csl::PlutusScript::new_with_version(vec![code; 20 + code as usize], &plang(sid)) }
fn exunits(e: &J) -> csl::ExUnits { csl::ExUnits::new(&csl::BigNum::from(e[0].as_u64().unwrap_or(1000)), &csl::BigNum::from(e[1].as_u64().unwrap_or(2000))) }
fn redeemer(tag: &csl::RedeemerTag, rid: u64, ex: &J) -> csl::Redeemer { csl::Redeemer::new(tag, &csl::BigNum::from(0u64), &pdata(rid), &exunits(ex)) }
/// the reference script a UTxO holds: {"plutus": s} | {"native": k}
fn script_ref_of(r: &J) -> csl::ScriptRef {
    if let Some(sid) = r.get("plutus") { csl::ScriptRef::new_plutus_script(&pscript(sid.as_u64().unwrap() as u8)) }
    else { csl::ScriptRef::new_native_script(&mk::pubkey_script(r["native"].as_u64().unwrap() as u8)) }
}
fn cost_models(langs: &J) -> csl::Costmdls {
    let mut c = csl::Costmdls::new();
    for l in langs.as_array().unwrap() {
        let v = l.as_u64().unwrap();
        let mut cm = csl::CostModel::new();
        for (i, x) in [197209i32 + v as i32, 0, 1, 23000, -5, 100].iter().enumerate() { cm.set(i, &csl::Int::new_i32(*x)).unwrap(); }
        let lang = match v { 1 => csl::Language::new_plutus_v1(), 2 => csl::Language::new_plutus_v2(), _ => csl::Language::new_plutus_v3() };
        c.insert(&lang, &cm);
    }
    c
}

struct Utxo { input: csl::TransactionInput, addr: csl::Address, addr_spec: J, value: csl::Value, spec: J }

struct St {
    tb: csl::TransactionBuilder,
    env: BTreeMap<u64, Utxo>,
    collateral: csl::TxInputsBuilder,
    // keys the harness will sign with: which key ids own what it put into the transaction
    vkeys: BTreeSet<u8>,
    byrons: BTreeSet<u8>,
    inputs_builder_signers: BTreeMap<u64, (bool, u8)>, // u -> (byron?, key id)
    cert_signers: Vec<u8>,
    wd_signers: Vec<u8>,
    mint_signers: Vec<u8>,
    req_signers: Vec<u8>,
    inputs: csl::TxInputsBuilder, // explicit inputs go through one running TxInputsBuilder + set_inputs (until a selection call)
    selected: bool,
    script_signers: Vec<u8>,      // keys of native scripts used by inputs / certs / withdrawals / votes
    vote_signers: Vec<u8>,
}

fn config(pp: &J) -> Result<csl::TransactionBuilderConfig, csl::JsError> {
    let g = |k: &str, d: u64| pp.get(k).and_then(|x| x.as_u64()).unwrap_or(d);
    let mut b = csl::TransactionBuilderConfigBuilder::new()
        .fee_algo(&csl::LinearFee::new(&csl::BigNum::from(g("a", 44)), &csl::BigNum::from(g("b", 155381))))
        .pool_deposit(&pp.get("pd_n").map(bn_of).unwrap_or(csl::BigNum::from(500_000_000u64)))
        .key_deposit(&pp.get("kd_n").map(bn_of).unwrap_or(csl::BigNum::from(2_000_000u64)))
        .max_value_size(g("maxval", 5000) as u32).max_tx_size(g("maxtx", 16384) as u32)
        .coins_per_utxo_byte(&csl::BigNum::from(g("cpb", 4310)))
        .prefer_pure_change(pp.get("prefer_pure_change").and_then(|x| x.as_bool()).unwrap_or(false))
        .do_not_burn_extra_change(pp.get("no_burn").and_then(|x| x.as_bool()).unwrap_or(false))
        .deduplicate_explicit_ref_inputs_with_regular_inputs(pp.get("dedup").and_then(|x| x.as_bool()).unwrap_or(false));
    if let Some(r) = pp.get("ref") {
        b = b.ref_script_coins_per_byte(&csl::UnitInterval::new(&csl::BigNum::from(r[0].as_u64().unwrap()), &csl::BigNum::from(r[1].as_u64().unwrap())));
    }
    if let Some(e) = pp.get("ex") {
        b = b.ex_unit_prices(&csl::ExUnitPrices::new(
            &csl::UnitInterval::new(&csl::BigNum::from(e[0].as_u64().unwrap()), &csl::BigNum::from(e[1].as_u64().unwrap())),
            &csl::UnitInterval::new(&csl::BigNum::from(e[2].as_u64().unwrap()), &csl::BigNum::from(e[3].as_u64().unwrap()))));
    }
    b.build()
}

/// native script "any of key k, key k+1"
fn any2_script(k: u8) -> csl::NativeScript {
    let mut ns = csl::NativeScripts::new();
    ns.add(&mk::pubkey_script(k));
    ns.add(&mk::pubkey_script(k + 1));
    csl::NativeScript::new_script_any(&csl::ScriptAny::new(&ns))
}
fn baddr(v: &J) -> csl::Address {
    match v["kind"].as_str().unwrap_or("ent") {
        "any2_ent" => csl::EnterpriseAddress::new(v["net"].as_u64().unwrap_or(0) as u8, &csl::Credential::from_scripthash(&any2_script(v["k"].as_u64().unwrap() as u8).hash())).to_address(),
        "plutus_ent" => csl::EnterpriseAddress::new(v["net"].as_u64().unwrap_or(0) as u8, &csl::Credential::from_scripthash(&pscript(v["s"].as_u64().unwrap() as u8).hash())).to_address(),
        _ => mk::addr(v),
    }
}
/// script source: "wit" | {"ref": u}
fn plutus_source(st: &St, sid: u8, src: &J) -> csl::PlutusScriptSource {
    match src.get("ref") {
        Some(u) => { let x = &st.env[&u.as_u64().unwrap()]; csl::PlutusScriptSource::new_ref_input(&pscript(sid).hash(), &x.input, &plang(sid), csl::ScriptRef::new_plutus_script(&pscript(sid)).to_unwrapped_bytes().len()) }
        None => csl::PlutusScriptSource::new(&pscript(sid)),
    }
}
fn native_source(st: &St, k: u8, src: &J) -> csl::NativeScriptSource {
    match src.get("ref") {
        Some(u) => { let x = &st.env[&u.as_u64().unwrap()]; let ns = mk::pubkey_script(k); let mut s = csl::NativeScriptSource::new_ref_input(&ns.hash(), &x.input, csl::ScriptRef::new_native_script(&ns).to_unwrapped_bytes().len());
                     let mut ks = csl::Ed25519KeyHashes::new(); for kk in mk::signers_of(k) { ks.add(&mk::gkeyhash(kk)); } s.set_required_signers(&ks); s }
        None => csl::NativeScriptSource::new(&mk::pubkey_script(k)),
    }
}
/// Plutus witness for a use with redeemer id rid: {"s":sid,"rid":r,"script":src,"datum":"wit"|"inline"|"none"|{"ref":u},"dn":n,"ex":[m,s]}
fn plutus_witness(st: &St, w: &J, tag: &csl::RedeemerTag) -> csl::PlutusWitness {
    let sid = w["s"].as_u64().unwrap() as u8;
    let red = redeemer(tag, w["rid"].as_u64().unwrap(), &w["ex"]);
    let mut src = plutus_source(st, sid, &w["script"]);
    // "req": k - the caller annotates THIS use of the script with a required signer (the same script may be used without it elsewhere)
    if let Some(k) = w.get("req").and_then(|x| x.as_u64()) { let mut ks = csl::Ed25519KeyHashes::new(); ks.add(&mk::gkeyhash(k as u8)); src.set_required_signers(&ks); }
    let d = &w["datum"];
    if d.as_str() == Some("wit") { csl::PlutusWitness::new_with_ref(&src, &csl::DatumSource::new(&pdata(w["dn"].as_u64().unwrap_or(0))), &red) }
    else if let Some(u) = d.get("ref") { csl::PlutusWitness::new_with_ref(&src, &csl::DatumSource::new_ref_input(&st.env[&u.as_u64().unwrap()].input), &red) }
    else { csl::PlutusWitness::new_with_ref_without_datum(&src, &red) }
}

fn owner_of(spec: &J) -> (bool, u8) {
    let k = spec["k"].as_u64().unwrap_or(1) as u8;
    (spec["kind"].as_str() == Some("byron"), k)
}

fn output_of(o: &J) -> Result<csl::TransactionOutput, csl::JsError> {
    let mut out = csl::TransactionOutput::new(&baddr(&o["to"]), &bvalue(&o["value"]));
    if let Some(d) = o.get("datum") {
        if let Some(h) = d.get("hash") { out.set_data_hash(&csl::hash_plutus_data(&pdata(h.as_u64().unwrap()))); }
        if let Some(i) = d.get("inline") { out.set_plutus_data(&pdata(i.as_u64().unwrap())); }
        if let Some(n) = d.get("inline_bytes") { out.set_plutus_data(&csl::PlutusData::new_bytes(vec![7u8; n.as_u64().unwrap() as usize])); }
    }
    if let Some(r) = o.get("ref_script") {
        if r.is_object() { out.set_script_ref(&script_ref_of(r)); }
        else { out.set_script_ref(&csl::ScriptRef::new_native_script(&mk::pubkey_script(r.as_u64().unwrap() as u8))); }
    }
    Ok(out)
}

fn utxos_of(st: &St, us: &J) -> csl::TransactionUnspentOutputs {
    let mut r = csl::TransactionUnspentOutputs::new();
    for u in us.as_array().unwrap() {
        let x = &st.env[&u.as_u64().unwrap()];
        r.add(&csl::TransactionUnspentOutput::new(&x.input, &csl::TransactionOutput::new(&x.addr, &x.value)));
    }
    r
}
fn strategy(s: &str) -> csl::CoinSelectionStrategyCIP2 {
    match s {
        "LargestFirst" => csl::CoinSelectionStrategyCIP2::LargestFirst,
        "RandomImprove" => csl::CoinSelectionStrategyCIP2::RandomImprove,
        "LargestFirstMultiAsset" => csl::CoinSelectionStrategyCIP2::LargestFirstMultiAsset,
        _ => csl::CoinSelectionStrategyCIP2::RandomImproveMultiAsset,
    }
}

// ------------------------------------------------------------------ operations

fn apply(st: &mut St, op: &J) -> Result<Map<String, J>, csl::JsError> {
    let name = op["op"].as_str().unwrap();
    let mut res = Map::new();
    match name {
        "AddInput" => {
            let u = op["u"].as_u64().unwrap();
            let x = &st.env[&u];
            if op.get("utxo").and_then(|b| b.as_bool()) == Some(true) {
                // the whole unspent output is handed over: the builder itself reads the reference script it holds
                let mut o = csl::TransactionOutput::new(&x.addr, &x.value);
                if let Some(r) = x.spec.get("ref_script") { o.set_script_ref(&script_ref_of(r)); }
                st.inputs.add_regular_utxo(&csl::TransactionUnspentOutput::new(&x.input, &o))?; st.tb.set_inputs(&st.inputs);
            }
            else if let Some(via) = op.get("via").and_then(|v| v.as_str()) {
                // the older, kind-specific entry points: on the transaction builder itself ("tb": from then on the inputs builder of
                // the harness is detached, as after a selecting call) or on the inputs builder
                let kind = x.addr_spec["kind"].as_str().unwrap_or("ent");
                let k = x.addr_spec["k"].as_u64().unwrap_or(1) as u8;
                match (kind, via) {
                    ("byron", "tb") => { st.selected = true; st.tb.add_bootstrap_input(&csl::ByronAddress::from_address(&x.addr).ok_or(csl::JsError::from_str("harness: not byron"))?, &x.input, &x.value); }
                    ("byron", _) => { if st.selected { return Err(csl::JsError::from_str("harness: inputs builder detached")); } st.inputs.add_bootstrap_input(&csl::ByronAddress::from_address(&x.addr).ok_or(csl::JsError::from_str("harness: not byron"))?, &x.input, &x.value); st.tb.set_inputs(&st.inputs); }
                    ("ent", "tb") | ("base", "tb") | ("ptr", "tb") => { st.selected = true; st.tb.add_key_input(&mk::gkeyhash(k), &x.input, &x.value); }
                    ("ent", _) | ("base", _) | ("ptr", _) => { if st.selected { return Err(csl::JsError::from_str("harness: inputs builder detached")); } st.inputs.add_key_input(&mk::gkeyhash(k), &x.input, &x.value); st.tb.set_inputs(&st.inputs); }
                    _ => return Err(csl::JsError::from_str("harness: legacy input entry point for a script-locked output is not expressible")),
                }
            }
            else if st.selected { st.tb.add_regular_input(&x.addr, &x.input, &x.value)?; }
            else { st.inputs.add_regular_input(&x.addr, &x.input, &x.value)?; st.tb.set_inputs(&st.inputs); }
            st.inputs_builder_signers.insert(u, owner_of(&x.addr_spec));
            res.insert("item".into(), jbytes(&x.input.to_bytes()));
        }
        "AddPlutusInput" => {
            let u = op["u"].as_u64().unwrap();
            let w = plutus_witness(st, &op["w"], &csl::RedeemerTag::new_spend());
            if let Some(k) = op["w"].get("req").and_then(|x| x.as_u64()) { st.script_signers.push(k as u8); }
            let x = &st.env[&u];
            if st.selected { st.tb.add_plutus_script_input(&w, &x.input, &x.value); }
            else { st.inputs.add_plutus_script_input(&w, &x.input, &x.value); st.tb.set_inputs(&st.inputs); }
            let sid = op["w"]["s"].as_u64().unwrap() as u8;
            res.insert("attach".into(), json!([{"rid": op["w"]["rid"], "purpose": 0, "item": jbytes(&x.input.to_bytes()), "sh": jbytes(&pscript(sid).hash().to_bytes()),
                "lang": pscript(sid).language_version().kind() as u64 + 1, "db": jbytes(&pdata(match op["w"]["datum"].get("ref") { Some(_) => 777, None => op["w"]["dn"].as_u64().unwrap_or(0) }).to_bytes()),
                "req": match op["w"].get("req").and_then(|x| x.as_u64()) { Some(k) => jbytes(&mk::gkeyhash(k as u8).to_bytes()), None => json!([]) }}]));
        }
        "AddAny2Input" => {
            // input locked by any-of(k, k+1); the caller declares which of the two keys will sign for THIS input
            let u = op["u"].as_u64().unwrap();
            let k = st.env[&u].addr_spec["k"].as_u64().unwrap() as u8;
            let signer = op["signer"].as_u64().unwrap() as u8;
            let mut src = csl::NativeScriptSource::new(&any2_script(k));
            let mut ks = csl::Ed25519KeyHashes::new();
            ks.add(&mk::gkeyhash(signer));
            src.set_required_signers(&ks);
            let x = &st.env[&u];
            if st.selected { return Err(csl::JsError::from_str("harness: any2 input after selection is not expressible")); }
            st.inputs.add_native_script_input(&src, &x.input, &x.value);
            st.tb.set_inputs(&st.inputs);
            st.script_signers.push(signer);
            res.insert("declared_signer".into(), jbytes(&mk::gkeyhash(signer).to_bytes()));
        }
        "AddNativeInput" => {
            let u = op["u"].as_u64().unwrap();
            let k = st.env[&u].addr_spec["k"].as_u64().unwrap() as u8;
            let src = native_source(st, k, &op["script"]);
            let x = &st.env[&u];
            if st.selected {
                if op["script"].get("ref").is_some() { return Err(csl::JsError::from_str("harness: native reference input after selection is not expressible")); }
                st.tb.add_native_script_input(&mk::pubkey_script(k), &x.input, &x.value);
            } else if op.get("utxo").and_then(|b| b.as_bool()) == Some(true) {
                st.inputs.add_native_script_utxo(&csl::TransactionUnspentOutput::new(&x.input, &csl::TransactionOutput::new(&x.addr, &x.value)), &src)?; st.tb.set_inputs(&st.inputs);
            } else { st.inputs.add_native_script_input(&src, &x.input, &x.value); st.tb.set_inputs(&st.inputs); }
            st.script_signers.extend(mk::signers_of(k));
        }
        "AddRefInput" => {
            let x = &st.env[&op["u"].as_u64().unwrap()];
            match op.get("size").and_then(|v| v.as_u64()) { Some(n) => st.tb.add_script_reference_input(&x.input, n as usize), None => st.tb.add_reference_input(&x.input) }
        }
        // "alt": the same value in another encoding (non-minimal integer head) - another datum with another hash
        "AddExtraDatum" => { let n = op["n"].as_u64().unwrap();
            if op.get("alt").and_then(|x| x.as_bool()) == Some(true) {
                let b: Vec<u8> = if n < 256 { vec![0x19, 0, n as u8] } else { let mut v = vec![0x1b]; v.extend(n.to_be_bytes()); v };
                st.tb.add_extra_witness_datum(&csl::PlutusData::from_bytes(b).map_err(|e| csl::JsError::from_str(&format!("{:?}", e)))?)
            } else { st.tb.add_extra_witness_datum(&pdata(n)) } }
        // a key-locked output offered as a Plutus-script input together with a script witness: the builder has to refuse it
        "OfferKeyUtxoAsPlutus" => {
            let u = op["u"].as_u64().unwrap();
            let w = plutus_witness(st, &op["w"], &csl::RedeemerTag::new_spend());
            let x = &st.env[&u];
            let o = csl::TransactionOutput::new(&x.addr, &x.value);
            let r = st.inputs.add_plutus_script_utxo(&csl::TransactionUnspentOutput::new(&x.input, &o), &w);
            match r {
                Ok(()) => { st.tb.set_inputs(&st.inputs); st.inputs_builder_signers.insert(u, owner_of(&x.addr_spec)); res.insert("accepted".into(), J::Bool(true)); }
                Err(_) => { st.inputs.add_regular_input(&x.addr, &x.input, &x.value)?; st.tb.set_inputs(&st.inputs); st.inputs_builder_signers.insert(u, owner_of(&x.addr_spec)); res.insert("accepted".into(), J::Bool(false)); }
            }
        }
        "CalcScriptDataHash" => st.tb.calc_script_data_hash(&cost_models(&op["langs"]))?,
        "SetVotes" => {
            let mut vb = csl::VotingBuilder::new();
            let mut attach = vec![];
            let mut signers = vec![];
            for v in op["votes"].as_array().unwrap() {
                let kind = v["kind"].as_str().unwrap();
                let voter = match kind {
                    "drep_key" => csl::Voter::new_drep_credential(&mk::gcred(v["k"].as_u64().unwrap() as u8)),
                    "cc_key" => csl::Voter::new_constitutional_committee_hot_credential(&mk::gcred(v["k"].as_u64().unwrap() as u8)),
                    "spo" => csl::Voter::new_stake_pool_key_hash(&mk::gkeyhash(v["k"].as_u64().unwrap() as u8)),
                    "drep_script" => csl::Voter::new_drep_credential(&csl::Credential::from_scripthash(&pscript(v["w"]["s"].as_u64().unwrap() as u8).hash())),
                    _ => csl::Voter::new_constitutional_committee_hot_credential(&csl::Credential::from_scripthash(&pscript(v["w"]["s"].as_u64().unwrap() as u8).hash())),
                };
                let gid = csl::GovernanceActionId::new(&csl::TransactionHash::from_bytes(mk::h32(v["act"].as_u64().unwrap_or(1) as u8)).unwrap(), 0);
                let proc_ = csl::VotingProcedure::new(csl::VoteKind::Yes);
                if kind.ends_with("_script") {
                    vb.add_with_plutus_witness(&voter, &gid, &proc_, &plutus_witness(st, &v["w"], &csl::RedeemerTag::new_vote()))?;
                    { let sid = v["w"]["s"].as_u64().unwrap() as u8; attach.push(json!({"rid": v["w"]["rid"], "purpose": 4, "item": jbytes(&voter.to_bytes()), "sh": jbytes(&pscript(sid).hash().to_bytes()), "lang": pscript(sid).language_version().kind() as u64 + 1, "db": []})); }
                } else { vb.add(&voter, &gid, &proc_)?; signers.push(v["k"].as_u64().unwrap() as u8); }
            }
            st.tb.set_voting_builder(&vb);
            st.vote_signers = signers;
            res.insert("attach".into(), J::Array(attach));
        }
        "AddOutput" => { st.tb.add_output(&output_of(op)?)?; }
        "AddOutputRaw" => {
            let o = csl::TransactionOutput::from_bytes(get_bytes(&op["bytes"])).map_err(|e| csl::JsError::from_str(&format!("{:?}", e)))?;
            let mut v = o.amount(); v.set_coin(&v.coin().checked_add(&bn_of(&op["plus_n"]))?);
            let mut o2 = csl::TransactionOutput::new(&o.address(), &v);
            if let Some(d) = o.plutus_data() { o2.set_plutus_data(&d); }
            if let Some(d) = o.data_hash() { o2.set_data_hash(&d); }
            if let Some(r) = o.script_ref() { o2.set_script_ref(&r); }
            st.tb.add_output(&o2)?;
        }
        "SetCerts" => {
            let mut cb = csl::CertificatesBuilder::new();
            let mut signers = vec![];
            let mut attach = vec![];
            let mut script_signers = vec![];
            for c in op["certs"].as_array().unwrap() {
                if let Some(sid) = c.get("plain_script") {
                    // a script credential handed to the plain add(): the builder must refuse it (no witness can be attached this way)
                    let mut c2 = c.clone();
                    c2["cred"] = json!({"t": 1, "hb": jbytes(&pscript(sid.as_u64().unwrap() as u8).hash().to_bytes())});
                    cb.add(&mk::cert(&c2))?;
                    continue;
                }
                if let Some(w) = c.get("pw") {
                    // credential = hash of Plutus script w.s; certificate witnessed by a Plutus witness with redeemer id w.rid
                    let mut c2 = c.clone();
                    c2["cred"] = json!({"t": 1, "hb": jbytes(&pscript(w["s"].as_u64().unwrap() as u8).hash().to_bytes())});
                    let cert = mk::cert(&c2);
                    cb.add_with_plutus_witness(&cert, &plutus_witness(st, w, &csl::RedeemerTag::new_cert()))?;
                    { let sid = w["s"].as_u64().unwrap() as u8; attach.push(json!({"rid": w["rid"], "purpose": 2, "item": jbytes(&cert.to_bytes()), "sh": jbytes(&pscript(sid).hash().to_bytes()), "lang": pscript(sid).language_version().kind() as u64 + 1, "db": []})); }
                    continue;
                }
                if let Some(nk) = c.get("nw") {
                    let k = nk.as_u64().unwrap() as u8;
                    let mut c2 = c.clone();
                    c2["cred"] = json!({"t": 1, "hb": jbytes(&mk::pubkey_script(k).hash().to_bytes())});
                    cb.add_with_native_script(&mk::cert(&c2), &csl::NativeScriptSource::new(&mk::pubkey_script(k)))?;
                    script_signers.extend(mk::signers_of(k));
                    continue;
                }
                cb.add(&mk::cert(c))?;
                let k = c["k"].as_u64().unwrap();
                let ck = c["cred"]["k"].as_u64().unwrap_or(1) as u8;
                match k { 0 | 5 | 6 => {}, 3 | 4 => signers.push(c["pool"].as_u64().unwrap_or(7) as u8), _ => signers.push(ck) }
            }
            signers.extend(script_signers);
            res.insert("attach".into(), J::Array(attach));
            st.tb.set_certs_builder(&cb);
            st.cert_signers = signers;
        }
        "SetWithdrawals" => {
            let mut wb = csl::WithdrawalsBuilder::new();
            let mut signers = vec![];
            let mut attach = vec![];
            for w in op["wds"].as_array().unwrap() {
                if let Some(pw) = w.get("pw") {
                    let ra = csl::RewardAddress::new(w["net"].as_u64().unwrap_or(0) as u8, &csl::Credential::from_scripthash(&pscript(pw["s"].as_u64().unwrap() as u8).hash()));
                    wb.add_with_plutus_witness(&ra, &bn_of(&w["amt_n"]), &plutus_witness(st, pw, &csl::RedeemerTag::new_reward()))?;
                    { let sid = pw["s"].as_u64().unwrap() as u8; attach.push(json!({"rid": pw["rid"], "purpose": 3, "item": jbytes(&ra.to_address().to_bytes()), "sh": jbytes(&pscript(sid).hash().to_bytes()), "lang": pscript(sid).language_version().kind() as u64 + 1, "db": []})); }
                    continue;
                }
                if let Some(nk) = w.get("nw") {
                    let k = nk.as_u64().unwrap() as u8;
                    let ra = csl::RewardAddress::new(w["net"].as_u64().unwrap_or(0) as u8, &csl::Credential::from_scripthash(&mk::pubkey_script(k).hash()));
                    wb.add_with_native_script(&ra, &bn_of(&w["amt_n"]), &csl::NativeScriptSource::new(&mk::pubkey_script(k)))?;
                    signers.extend(mk::signers_of(k));
                    continue;
                }
                let k = w["k"].as_u64().unwrap() as u8;
                wb.add(&csl::RewardAddress::new(w["net"].as_u64().unwrap_or(0) as u8, &mk::gcred(k)), &bn_of(&w["amt_n"]))?;
                signers.push(k);
            }
            res.insert("attach".into(), J::Array(attach));
            st.tb.set_withdrawals_builder(&wb);
            st.wd_signers = signers;
        }
        "SetMint" => {
            let mut mb = csl::MintBuilder::new();
            let mut signers = vec![];
            let mut attach = vec![];
            for m in op["mints"].as_array().unwrap() {
                let amt = if m["amt"]["neg"].as_bool().unwrap() { csl::Int::new_negative(&bn_of(&m["amt"]["mag_n"])) } else { csl::Int::new(&bn_of(&m["amt"]["mag_n"])) };
                if let Some(pw) = m.get("pw") {
                    let sid = pw["s"].as_u64().unwrap() as u8;
                    let w = csl::MintWitness::new_plutus_script(&plutus_source(st, sid, &pw["script"]), &redeemer(&csl::RedeemerTag::new_mint(), pw["rid"].as_u64().unwrap(), &pw["ex"]));
                    mb.add_asset(&w, &csl::AssetName::new(get_bytes(&m["n"])).unwrap(), &amt)?;
                    attach.push(json!({"rid": pw["rid"], "purpose": 1, "item": jbytes(&pscript(sid).hash().to_bytes()), "sh": jbytes(&pscript(sid).hash().to_bytes()), "lang": pscript(sid).language_version().kind() as u64 + 1, "db": []}));
                    continue;
                }
                let k = m["mp"].as_u64().unwrap() as u8;
                let w = csl::MintWitness::new_native_script(&csl::NativeScriptSource::new(&mk::pubkey_script(k)));
                let amt = if m["amt"]["neg"].as_bool().unwrap() { csl::Int::new_negative(&bn_of(&m["amt"]["mag_n"])) } else { csl::Int::new(&bn_of(&m["amt"]["mag_n"])) };
                mb.add_asset(&w, &csl::AssetName::new(get_bytes(&m["n"])).unwrap(), &amt)?;
                signers.push(k);
            }
            res.insert("attach".into(), J::Array(attach));
            st.tb.set_mint_builder(&mb);
            st.mint_signers = signers;
        }
        "SetProposals" => {
            let mut pb = csl::VotingProposalBuilder::new();
            let mut attach = vec![];
            for p in op["props"].as_array().unwrap() {
                if let Some(w) = p.get("w") {
                    // a proposal guarded by the constitution's proposal policy (guardrail script): treasury withdrawal or parameter change
                    let sid = w["s"].as_u64().unwrap() as u8;
                    let sh = pscript(sid).hash();
                    let act = if p.get("pc").and_then(|x| x.as_bool()).unwrap_or(false) {
                        let mut u = csl::ProtocolParamUpdate::new(); u.set_max_tx_size(16384 + sid as u32);
                        csl::GovernanceAction::new_parameter_change_action(&csl::ParameterChangeAction::new_with_policy_hash(&u, &sh))
                    } else {
                        let mut tw = csl::TreasuryWithdrawals::new();
                        tw.insert(&mk::reward_addr(0, &mk::gcred(p["cred"]["k"].as_u64().unwrap_or(7) as u8)), &bn_of(&p["dep_n"]).checked_add(&csl::BigNum::from(1u64))?);
                        csl::GovernanceAction::new_treasury_withdrawals_action(&csl::TreasuryWithdrawalsAction::new_with_policy_hash(&tw, &sh))
                    };
                    let prop = csl::VotingProposal::new(&act, &mk::anchor(), &mk::reward_addr(0, &mk::gcred(p["cred"]["k"].as_u64().unwrap_or(7) as u8)), &bn_of(&p["dep_n"]));
                    pb.add_with_plutus_witness(&prop, &plutus_witness(st, w, &csl::RedeemerTag::new_voting_proposal()))?;
                    attach.push(json!({"rid": w["rid"], "purpose": 5, "item": jbytes(&prop.to_bytes()), "sh": jbytes(&sh.to_bytes()), "lang": pscript(sid).language_version().kind() as u64 + 1, "db": []}));
                } else { pb.add(&mk::proposal(p))?; }
            }
            st.tb.set_voting_proposal_builder(&pb);
            if !attach.is_empty() { res.insert("attach".into(), J::Array(attach)); }
        }
        "SetDonation" => st.tb.set_donation(&bn_of(&op["n"])),
        "SetTreasury" => st.tb.set_current_treasury_value(&bn_of(&op["n"]))?,
        "SetTtl" => st.tb.set_ttl_bignum(&bn_of(&op["n"])),
        "SetValidityStart" => st.tb.set_validity_start_interval_bignum(bn_of(&op["n"])),
        "AddRequiredSigner" => { let k = op["k"].as_u64().unwrap() as u8; st.tb.add_required_signer(&mk::gkeyhash(k)); st.req_signers.push(k); }
        // auxiliary data / metadata that is present but holds nothing
        "SetAux" if op.get("empty").is_some() => {
            match op["empty"].as_str().unwrap_or("metadata") {
                "aux" => st.tb.set_auxiliary_data(&csl::AuxiliaryData::new()),
                "aux_alonzo" => { let mut a = csl::AuxiliaryData::new(); a.set_prefer_alonzo_format(true); st.tb.set_auxiliary_data(&a); }
                _ => st.tb.set_metadata(&csl::GeneralTransactionMetadata::new()),
            }
        }
        "SetAux" => {
            let mut md = csl::GeneralTransactionMetadata::new();
            md.insert(&bn_of(&op["label_n"]), &csl::TransactionMetadatum::new_text("x".repeat(op["len"].as_u64().unwrap_or(3) as usize))?);
            if op.get("alonzo").and_then(|x| x.as_bool()).unwrap_or(false) {
                // metadata-only auxiliary data kept in the post-Alonzo (tag 259) format
                let mut aux = csl::AuxiliaryData::new();
                aux.set_metadata(&md);
                aux.set_prefer_alonzo_format(true);
                st.tb.set_auxiliary_data(&aux);
            } else { st.tb.set_metadata(&md); }
        }
        "SetFee" => st.tb.set_fee(&bn_of(&op["n"])),
        "SetMinFee" => st.tb.set_min_fee(&bn_of(&op["n"])),
        "AddInputsFrom" | "AddInputsFromAndChange" | "AddInputsFromAndChangeWithCollateralReturn" => {
            let us = utxos_of(st, &op["us"]);
            hook::set_seed(op["seed"].as_u64().unwrap_or(1));
            st.selected = true;
            let before: BTreeSet<u64> = st.inputs_builder_signers.keys().cloned().collect();
            let r = match name {
                "AddInputsFrom" => st.tb.add_inputs_from(&us, strategy(op["strat"].as_str().unwrap())).map(|_| true),
                "AddInputsFromAndChange" => st.tb.add_inputs_from_and_change(&us, strategy(op["strat"].as_str().unwrap()), &csl::ChangeConfig::new(&mk::addr(&op["to"]))),
                _ => st.tb.add_inputs_from_and_change_with_collateral_return(&us, strategy(op["strat"].as_str().unwrap()),
                        &csl::ChangeConfig::new(&mk::addr(&op["to"])), &bn_of(&op["pct_n"])).map(|_| true),
            };
            hook::clear();
            let _ = before;
            // whichever offered UTxOs ended up in the builder are found at Build time from the body's inputs
            res.insert("v".into(), J::Bool(r?));
        }
        "AddChange" => { res.insert("v".into(), J::Bool(st.tb.add_change_if_needed(&mk::addr(&op["to"]))?)); }
        "AddCollateral" => {
            let u = op["u"].as_u64().unwrap();
            let x = &st.env[&u];
            st.collateral.add_regular_input(&x.addr, &x.input, &x.value)?;
            st.tb.set_collateral(&st.collateral);
        }
        "SetCollateralReturn" => st.tb.set_collateral_return(&output_of(op)?),
        "SetCollateralReturnAndTotal" => st.tb.set_collateral_return_and_total(&output_of(op)?)?,
        "SetTotalCollateral" => st.tb.set_total_collateral(&bn_of(&op["n"])),
        "SetTotalCollateralAndReturn" => st.tb.set_total_collateral_and_return(&bn_of(&op["n"]), &mk::addr(&op["to"]))?,
        // ---- the older mint entry points of the transaction builder (native policies only); they work on the builder's current MintBuilder
        "AddMintAsset" | "AddMintAssetAndOutput" => {
            let k = op["mp"].as_u64().unwrap() as u8;
            let amt = if op["amt"]["neg"].as_bool().unwrap_or(false) { csl::Int::new_negative(&bn_of(&op["amt"]["mag_n"])) } else { csl::Int::new(&bn_of(&op["amt"]["mag_n"])) };
            let an = csl::AssetName::new(get_bytes(&op["n"])).unwrap();
            if name == "AddMintAsset" { st.tb.add_mint_asset(&mk::pubkey_script(k), &an, &amt)?; }
            else {
                let mut ob = csl::TransactionOutputBuilder::new().with_address(&baddr(&op["to"]));
                if let Some(d) = op.get("datum") {
                    if let Some(h) = d.get("hash") { ob = ob.with_data_hash(&csl::hash_plutus_data(&pdata(h.as_u64().unwrap()))); }
                    if let Some(i) = d.get("inline") { ob = ob.with_plutus_data(&pdata(i.as_u64().unwrap())); }
                }
                if let Some(r) = op.get("ref_script") { ob = ob.with_script_ref(&csl::ScriptRef::new_native_script(&mk::pubkey_script(r.as_u64().unwrap() as u8))); }
                let ab = ob.next()?;
                match op.get("coin_n") { Some(c) => st.tb.add_mint_asset_and_output(&mk::pubkey_script(k), &an, &amt, &ab, &bn_of(c))?,
                                         None => st.tb.add_mint_asset_and_output_min_required_coin(&mk::pubkey_script(k), &an, &amt, &ab)? }
            }
            if !st.mint_signers.contains(&k) { st.mint_signers.push(k); }
        }
        "SetMintAsset" => {
            let k = op["mp"].as_u64().unwrap() as u8;
            let mut ma = csl::MintAssets::new();
            for m in op["assets"].as_array().unwrap() {
                let amt = if m["amt"]["neg"].as_bool().unwrap_or(false) { csl::Int::new_negative(&bn_of(&m["amt"]["mag_n"])) } else { csl::Int::new(&bn_of(&m["amt"]["mag_n"])) };
                ma.insert(&csl::AssetName::new(get_bytes(&m["n"])).unwrap(), &amt)?;
            }
            st.tb.set_mint_asset(&mk::pubkey_script(k), &ma)?;
            if !st.mint_signers.contains(&k) { st.mint_signers.push(k); }
        }
        // the whole mint replaced through the older entry point (a Mint value plus its native scripts); logged as SetMint with no redeemer
        "SetMintLegacy" => {
            let mut mint = csl::Mint::new();
            let mut scripts = csl::NativeScripts::new();
            let mut ks: Vec<u8> = vec![];
            let mut per: BTreeMap<u8, csl::MintAssets> = BTreeMap::new();
            for m in op["mints"].as_array().unwrap() {
                let k = m["mp"].as_u64().unwrap() as u8;
                let amt = if m["amt"]["neg"].as_bool().unwrap_or(false) { csl::Int::new_negative(&bn_of(&m["amt"]["mag_n"])) } else { csl::Int::new(&bn_of(&m["amt"]["mag_n"])) };
                let e = per.entry(k).or_insert_with(csl::MintAssets::new);
                e.insert(&csl::AssetName::new(get_bytes(&m["n"])).unwrap(), &amt)?;
                if !ks.contains(&k) { ks.push(k); scripts.add(&mk::pubkey_script(k)); }
            }
            for k in ks.iter() { mint.insert(&mk::pubkey_script(*k).hash(), &per[k]); }
            st.tb.set_mint(&mint, &scripts)?;
            res.insert("attach".into(), json!([]));
            st.mint_signers = ks;
        }
        "RemoveMint" => { st.tb.remove_mint_builder(); st.mint_signers.clear(); res.insert("attach".into(), json!([])); }
        "RemoveCerts" => { st.tb.remove_certs(); st.cert_signers.clear(); res.insert("attach".into(), json!([])); }
        "RemoveWithdrawals" => { st.tb.remove_withdrawals(); st.wd_signers.clear(); res.insert("attach".into(), json!([])); }
        // ---- metadata entry points: each works on the auxiliary data the builder already holds
        "AddMetadatum" => {
            let label = bn_of(&op["label_n"]);
            match op["how"].as_str().unwrap_or("text") {
                "int" => st.tb.add_metadatum(&label, &csl::TransactionMetadatum::new_int(&csl::Int::new_negative(&bn_of(&op["v_n"])))),
                "json" => st.tb.add_json_metadatum(&label, op["json"].as_str().unwrap().to_string())?,
                "json_detailed" => st.tb.add_json_metadatum_with_schema(&label, op["json"].as_str().unwrap().to_string(), csl::MetadataJsonSchema::DetailedSchema)?,
                "json_basic" => st.tb.add_json_metadatum_with_schema(&label, op["json"].as_str().unwrap().to_string(), csl::MetadataJsonSchema::BasicConversions)?,
                _ => st.tb.add_metadatum(&label, &csl::TransactionMetadatum::new_text("y".repeat(op["len"].as_u64().unwrap_or(3) as usize))?),
            }
        }
        // auxiliary data that also holds scripts (they are hashed with the metadata, and are no witnesses)
        "SetAuxScripts" => {
            let mut aux = st.tb.get_auxiliary_data().unwrap_or(csl::AuxiliaryData::new());
            let mut ns = csl::NativeScripts::new();
            for k in op["native"].as_array().cloned().unwrap_or_default() { ns.add(&mk::pubkey_script(k.as_u64().unwrap() as u8)); }
            if ns.len() > 0 { aux.set_native_scripts(&ns); }
            let mut ps = csl::PlutusScripts::new();
            for sid in op["plutus"].as_array().cloned().unwrap_or_default() { ps.add(&pscript(sid.as_u64().unwrap() as u8)); }
            if ps.len() > 0 { aux.set_plutus_scripts(&ps); }
            st.tb.set_auxiliary_data(&aux);
        }
        "RemoveAux" => st.tb.remove_auxiliary_data(),
        "SetTtl32" => st.tb.set_ttl(op["v"].as_u64().unwrap() as u32),
        "SetValidityStart32" => st.tb.set_validity_start_interval(op["v"].as_u64().unwrap() as u32),
        "RemoveTtl" => st.tb.remove_ttl(),
        "RemoveValidityStart" => st.tb.remove_validity_start_interval(),
        "RemoveCollateralReturn" => st.tb.remove_collateral_return(),
        "RemoveTotalCollateral" => st.tb.remove_total_collateral(),
        "SetScriptDataHash" => st.tb.set_script_data_hash(&csl::ScriptDataHash::from_bytes(vec![op["v"].as_u64().unwrap_or(1) as u8; 32]).unwrap()),
        "RemoveScriptDataHash" => st.tb.remove_script_data_hash(),
        "AddChangeWithDatum" => {
            let d = if let Some(h) = op["datum"].get("hash") { csl::OutputDatum::new_data_hash(&csl::hash_plutus_data(&pdata(h.as_u64().unwrap()))) } else { csl::OutputDatum::new_data(&pdata(op["datum"]["inline"].as_u64().unwrap_or(1))) };
            res.insert("v".into(), J::Bool(st.tb.add_change_if_needed_with_datum(&mk::addr(&op["to"]), &d)?));
        }
        _ => return Err(csl::JsError::from_str(&format!("harness: unknown op {}", name))),
    }
    Ok(res)
}

/// The keys that must sign, from what the harness itself put into the transaction (the validator recomputes the
/// required set from the emitted bytes and the environment, and reports a tool error when the two differ).
fn sign(st: &St, tx: &csl::Transaction) -> Result<Vec<u8>, csl::JsError> {
    let body = tx.body();
    let mut vk: BTreeSet<u8> = BTreeSet::new();
    let mut by: BTreeSet<u8> = BTreeSet::new();
    let mut owner_by_outpoint: BTreeMap<Vec<u8>, (bool, u8)> = BTreeMap::new();
    // only key-owned outputs have an owner who signs; script-locked ones bring their signers through the script witnesses
    for (_, x) in st.env.iter() { if matches!(x.addr_spec["kind"].as_str().unwrap_or("ent"), "ent" | "base" | "byron" | "ptr") { owner_by_outpoint.insert(x.input.to_bytes(), owner_of(&x.addr_spec)); } }
    let mut add_owner = |i: &csl::TransactionInput, vk: &mut BTreeSet<u8>, by: &mut BTreeSet<u8>| {
        if let Some((b, k)) = owner_by_outpoint.get(&i.to_bytes()) { if *b { by.insert(*k); } else { vk.insert(*k); } }
    };
    let ins = body.inputs();
    for i in 0..ins.len() { add_owner(&ins.get(i), &mut vk, &mut by); }
    if let Some(col) = body.collateral() { for i in 0..col.len() { add_owner(&col.get(i), &mut vk, &mut by); } }
    // native mint policies: read back from the builder (a mint-with-output call that fails on its output has already added its mint)
    let mut mint_signers: Vec<u8> = vec![];
    if let Some(ns) = st.tb.get_mint_scripts() {
        for i in 0..ns.len() { mint_signers.extend(mk::native_leaves(&ns.get(i))); }
    }
    let _ = &st.mint_signers;
    for k in st.cert_signers.iter().chain(st.wd_signers.iter()).chain(mint_signers.iter()).chain(st.req_signers.iter())
        .chain(st.script_signers.iter()).chain(st.vote_signers.iter()) { vk.insert(*k); }
    let mut ft = csl::FixedTransaction::from_bytes(tx.to_bytes())?;
    for k in vk.iter() { ft.sign_and_add_vkey_signature(&mk::sk(*k))?; }
    for k in by.iter() { ft.sign_and_add_icarus_bootstrap_signature(&mk::byron_addr(*k, 764824073), &mk::bip32(*k))?; }
    Ok(ft.to_bytes())
}

fn run_minada(out: &mut Out, sc: usize, s: &J) {
    for m in s["minada"].as_array().unwrap() {
        let ev = match call(|| output_of(&m["out"])) {
            Outcome::Ok(o) => {
                let cpb = bn_of(&m["cpb_n"]);
                let r = call(|| csl::min_ada_for_output(&o, &csl::DataCost::new_coins_per_byte(&cpb))).to_json(|c| obj(vec![("v_n", jbn(&c))]));
                // the same output made by the output builder, which fills in the least coin the output needs
                let dc = csl::DataCost::new_coins_per_byte(&cpb);
                let ob = call(|| {
                    let mut b = csl::TransactionOutputBuilder::new().with_address(&o.address());
                    if let Some(h) = o.data_hash() { b = b.with_data_hash(&h); }
                    if let Some(d) = o.plutus_data() { b = b.with_plutus_data(&d); }
                    if let Some(r) = o.script_ref() { b = b.with_script_ref(&r); }
                    b.next()?.with_asset_and_min_required_coin_by_utxo_cost(&o.amount().multiasset().unwrap_or(csl::MultiAsset::new()), &dc)?.build()
                }).to_json(|x| obj(vec![("bytes", jbytes(&x.to_bytes()))]));
                out.ev(json!({"ev": "OutMin", "sc": sc, "cpb_n": m["cpb_n"], "r": ob}));
                json!({"ev": "MinAda", "sc": sc, "out": jbytes(&o.to_bytes()), "cpb_n": m["cpb_n"], "r": r})
            }
            _ => json!({"ev": "SetupErr", "sc": sc}),
        };
        out.ev(ev);
    }
}

/// output lattice x coins-per-byte values chosen so that the required coin sits on a CBOR width boundary
fn gen_minada(rng: &mut Rng) -> J {
    let mut calls = vec![];
    for _ in 0..12 {
        let na = *rng.pick(&[0u64, 0, 1, 3, 10]);
        let coin = *rng.pick(&[0u64, 0, 1, 23, 24, 255, 256, 65535, 65536, 1_000_000, 0xffff_ffff, 0x1_0000_0000, u64::MAX]);
        let mut o = json!({"to": {"kind": *rng.pick(&["ent", "base", "byron", "ptr", "script_ent"]), "k": 1 + rng.below(5)}, "value": rvalue(rng, coin, na)});
        match rng.below(6) { 0 => { o["datum"] = json!({"hash": 1}); } 1 => { o["datum"] = json!({"inline": rng.below(1 << 20)}); } 2 => { o["datum"] = json!({"inline_bytes": rng.below(70)}); } _ => {} }
        // (a script reference - native, compound native or Plutus - with or without a datum next to it)
        match rng.below(6) { 0 => { o["ref_script"] = json!(3); } 1 => { o["ref_script"] = json!(21 + rng.below(4)); } 2 => { o["ref_script"] = json!({"plutus": 1 + rng.below(6)}); } _ => {} }
        // size of the output at this coin, to aim cpb at the boundaries 24, 2^8, 2^16, 2^32 of cpb * (160 + size)
        let size = output_of(&o).map(|x| x.to_bytes().len() as u64).unwrap_or(60);
        let target = *rng.pick(&[24u64, 256, 65536, 65536, 1 << 32, 1 << 32]);
        let base = target / (160 + size + rng.below(6));
        let cpb = match rng.below(5) { 0 => *rng.pick(&[0u64, 1, 4310, 34482, 1 << 32, u64::MAX / 300]), _ => (base + rng.below(3)).saturating_sub(1) };
        calls.push(json!({"out": o, "cpb_n": jn(cpb)}));
    }
    json!({"minada": calls})
}

/// A scenario may ask for a second pass that sits exactly on a boundary the first pass located ("rerun"):
///   "fixed_fee": permille  - the same operations, but the outputs of the first transaction are added verbatim (the last one richer
///                            by delta) and the fee is FIXED by the caller at first fee - delta, somewhere above the linear part;
///   "max_tx": k            - the same scenario with max_tx_size = signed size of the first transaction - 1 - k.
/// Both passes are ordinary histories in the same vocabulary (a second Reset starts the second one).
pub fn run_one(out: &mut Out, sc: usize, s: &J) {
    if s.get("minada").is_some() { return run_minada(out, sc, s); }
    AIM.with(|x| x.set(None));
    let first = run_pass(out, sc, s);
    if let Some(d) = s.get("rerun").and_then(|r| r.get("exact_edge")).and_then(|x| x.as_i64()) {
        // the lovelace left over equals the fee the builder asks for WITHOUT a change output, +- d: the balancing call takes its
        // "nothing left" / "leftover goes into the fee" branches (the library's own figures are used for aiming only)
        if let Some((left, mf)) = AIM.with(|x| x.get()) {
            let mut s2 = s.clone();
            s2.as_object_mut().unwrap().remove("rerun");
            let c0 = u64_of(&s2["utxo"][0]["value"]["coin_n"]);
            if left > mf && c0 > (left - mf) + 1_000_000 {
                let give = (left - mf) as i64 - d;
                if give > 0 { s2["utxo"][0]["value"]["coin_n"] = jn(c0 - give as u64); run_pass(out, sc, &s2); }
            }
        }
        return;
    }
    let (tx, signed_len) = match (first, s.get("rerun")) { (Some(x), Some(_)) => x, _ => return };
    let rr = &s["rerun"];
    let mut s2 = s.clone();
    s2.as_object_mut().unwrap().remove("rerun");
    if let Some(d) = rr.get("change_edge").and_then(|x| x.as_i64()) {
        // the coin of the LAST output (change) aimed at its own minimum + d lovelace: the decisions "is there room for one more
        // change output / is the leftover burnt or folded in" are taken exactly at the edge (the library's min-ADA figure is used
        // for aiming only). The first UTxO gives up the difference.
        let outs = tx.body().outputs();
        if outs.len() == 0 { return; }
        let last = outs.get(outs.len() - 1);
        let dc = csl::DataCost::new_coins_per_byte(&csl::BigNum::from(s["pp"]["cpb"].as_u64().unwrap_or(4310)));
        let m: u64 = match csl::min_ada_for_output(&last, &dc) { Ok(x) => x.into(), Err(_) => return };
        let c: u64 = last.amount().coin().into();
        let target = (m as i64 + d).max(0) as u64;
        if c <= target { return; }
        let give = c - target;
        let c0 = u64_of(&s2["utxo"][0]["value"]["coin_n"]);
        if c0 <= give + 1_000_000 { return; }
        s2["utxo"][0]["value"]["coin_n"] = jn(c0 - give);
        run_pass(out, sc, &s2);
    } else if let Some(d) = rr.get("width_edge").and_then(|x| x.as_i64()) {
        // the minimum coin of the LAST output (change) placed just below the point where the coin field of an output widens
        // (2^16: 3 -> 5 bytes; the wider field makes the output larger and its minimum higher) and the coin itself aimed just above
        // it. Second pass: the price per byte that puts the minimum there; third pass: the first UTxO gives up the difference.
        let outs = tx.body().outputs();
        if outs.len() == 0 { return; }
        let last = outs.get(outs.len() - 1);
        let mut narrow = last.amount(); narrow.set_coin(&csl::BigNum::from(65535u64));
        let mut o3 = csl::TransactionOutput::new(&last.address(), &narrow);
        if let Some(x) = last.plutus_data() { o3.set_plutus_data(&x); }
        if let Some(x) = last.data_hash() { o3.set_data_hash(&x); }
        if let Some(x) = last.script_ref() { o3.set_script_ref(&x); }
        let cpb = 65535 / (160 + o3.to_bytes().len() as u64);
        s2["pp"]["cpb"] = json!(cpb);
        let tx2 = match run_pass(out, sc, &s2) { Some((t, _)) => t, None => return };
        let outs2 = tx2.body().outputs();
        if outs2.len() == 0 { return; }
        let c: u64 = outs2.get(outs2.len() - 1).amount().coin().into();
        let target = (65536 + d).max(0) as u64;
        if c <= target { return; }
        let give = c - target;
        let c0 = u64_of(&s2["utxo"][0]["value"]["coin_n"]);
        if c0 <= give + 1_000_000 { return; }
        s2["utxo"][0]["value"]["coin_n"] = jn(c0 - give);
        run_pass(out, sc, &s2);
    } else if let Some(d) = rr.get("pct_edge").and_then(|x| x.as_u64()) {
        // the percentage at which fee x percentage / 100 just leaves 64 bits (fee of the first pass): the helper has to refuse, not wrap
        let fee: u64 = tx.body().fee().into();
        if fee == 0 { return; }
        let pct = (((1u128 << 64) * 100) / fee as u128) as u64;
        let mut ops = s2["ops"].as_array().cloned().unwrap_or_default();
        for o in ops.iter_mut() { if o["op"] == "AddInputsFromAndChangeWithCollateralReturn" { o["pct_n"] = jn(pct.saturating_add(d)); } }
        s2["ops"] = J::Array(ops);
        run_pass(out, sc, &s2);
    } else if let Some(d) = rr.get("col_exact").and_then(|x| x.as_i64()) {
        // the (single, pure-lovelace) collateral input holds exactly what the percentage helper asks for: fee x percentage / 100 + 1 (+ d),
        // so that NOTHING is left to return. The fee may move when the coin changes: up to three passes until it stands still.
        let ops = s2["ops"].as_array().cloned().unwrap_or_default();
        let cols: Vec<u64> = ops.iter().filter(|o| o["op"] == "AddCollateral").filter_map(|o| o["u"].as_u64()).collect();
        let pct = ops.iter().find(|o| o["op"] == "AddInputsFromAndChangeWithCollateralReturn").map(|o| u64_of(&o["pct_n"]));
        if let (1, Some(pct)) = (cols.len(), pct) {
            let ci = (cols[0] - 1) as usize;
            if s2["utxo"][ci]["value"]["assets"].as_array().map(|a| a.is_empty()).unwrap_or(true) && pct <= 1000 {
                let mut fee: u64 = tx.body().fee().into();
                for _ in 0..3 {
                    let need = ((fee as u128 * pct as u128) / 100 + 1) as i64 + d;
                    if need <= 0 { break; }
                    s2["utxo"][ci]["value"]["coin_n"] = jn(need as u64);
                    match run_pass(out, sc, &s2) { Some((t2, _)) => { let f2: u64 = t2.body().fee().into(); if f2 == fee { break; } fee = f2; } None => break }
                }
            }
        }
    } else if let Some(k) = rr.get("max_val").and_then(|x| x.as_u64()) {
        // max_value_size just below the largest value the first transaction carries
        let outs = tx.body().outputs();
        let vmax = (0..outs.len()).map(|i| outs.get(i).amount().to_bytes().len()).max().unwrap_or(0);
        if vmax < 40 { return; }
        s2["pp"]["maxval"] = json!(vmax as u64 - 1 - k);
        run_pass(out, sc, &s2);
    } else if let Some(k) = rr.get("max_tx").and_then(|x| x.as_u64()) {
        s2["pp"]["maxtx"] = json!((signed_len as u64).saturating_sub(1 + k).max(1));
        run_pass(out, sc, &s2);
    } else if let Some(pm) = rr.get("fixed_fee").and_then(|x| x.as_u64()) {
        let body = tx.body();
        let fee: u64 = body.fee().into();
        let linear = s["pp"]["a"].as_u64().unwrap_or(44) * signed_len as u64 + s["pp"]["b"].as_u64().unwrap_or(155381);
        if fee <= linear + 1 { return; }
        let delta = 1 + (fee - linear - 1) * pm / 1000;
        let outs = body.outputs();
        if outs.len() == 0 { return; }
        let mut ops: Vec<J> = s["ops"].as_array().unwrap().iter().filter(|o| !matches!(o["op"].as_str().unwrap_or(""),
            "AddOutput" | "AddChange" | "AddChangeWithDatum" | "AddInputsFromAndChange" | "AddInputsFromAndChangeWithCollateralReturn" | "Build" | "BuildAgain" | "SetFee" | "SetMinFee")).cloned().collect();
        // (the mint of a mint-with-output call stays, its output comes back with the others)
        for o in ops.iter_mut() { if o["op"] == "AddMintAssetAndOutput" { o["op"] = json!("AddMintAsset"); } }
        for i in 0..outs.len() { ops.push(json!({"op": "AddOutputRaw", "bytes": jbytes(&outs.get(i).to_bytes()), "plus_n": jn(if i + 1 == outs.len() { delta } else { 0 })})); }
        ops.push(json!({"op": "SetFee", "n": jn(fee - delta)}));
        ops.push(json!({"op": "Build"}));
        s2["ops"] = J::Array(ops);
        run_pass(out, sc, &s2);
    }
}

thread_local! { static AIM: std::cell::Cell<Option<(u64, u64)>> = std::cell::Cell::new(None); }
/// one history; returns the last transaction a VALIDATING build produced after a successful balancing, with its signed length
fn run_pass(out: &mut Out, sc: usize, s: &J) -> Option<(csl::Transaction, usize)> {
    let mut last: Option<(csl::Transaction, usize)> = None;
    let mut balanced_ok = false;
    let cfg = match call(|| config(&s["pp"])) { Outcome::Ok(c) => c, _ => { out.ev(json!({"ev": "SetupErr", "sc": sc})); return None; } };
    let mut st = St { tb: csl::TransactionBuilder::new(&cfg), env: BTreeMap::new(), collateral: csl::TxInputsBuilder::new(),
        vkeys: BTreeSet::new(), byrons: BTreeSet::new(), inputs_builder_signers: BTreeMap::new(),
        cert_signers: vec![], wd_signers: vec![], mint_signers: vec![], req_signers: vec![], inputs: csl::TxInputsBuilder::new(), selected: false, script_signers: vec![], vote_signers: vec![] };
    let mut env_j = vec![];
    let mut key_ids: BTreeSet<u8> = BTreeSet::new();
    for u in s["utxo"].as_array().unwrap() {
        let id = u["u"].as_u64().unwrap();
        let input = mk::txin(u.get("tx").and_then(|x| x.as_u64()).unwrap_or(id) as u8, u.get("ix").and_then(|x| x.as_u64()).unwrap_or(0) as u32);
        let addr = baddr(&u["addr"]);
        let value = bvalue(&u["value"]);
        let mut ej = json!({"u": id, "txid": jbytes(&input.transaction_id().to_bytes()), "ix": input.index(), "addr": jbytes(&addr.to_bytes()),
                          "kind": u["addr"]["kind"].as_str().unwrap_or("ent"), "value": jvalue(&value)});
        // what the spent / referenced output carries besides its value
        if let Some(d) = u.get("datum") {
            if let Some(h) = d.get("hash") { ej["datum_hash"] = jbytes(&csl::hash_plutus_data(&pdata(h.as_u64().unwrap())).to_bytes()); }
            if let Some(i) = d.get("inline") { ej["inline_datum"] = jbytes(&pdata(i.as_u64().unwrap()).to_bytes()); }
        }
        if let Some(r) = u.get("ref_script") {
            let sr = script_ref_of(r);
            ej["ref_script_hash"] = jbytes(&match r.get("plutus") { Some(sid) => pscript(sid.as_u64().unwrap() as u8).hash(), None => mk::pubkey_script(r["native"].as_u64().unwrap() as u8).hash() }.to_bytes());
            // the size the LEDGER charges for (originalBytesSize): the Plutus binary itself, or the native script's CBOR;
            // callers declare ScriptRef::to_unwrapped_bytes().len() to the builder, as the library does for UTxO-based inputs (4 bytes more)
            let _ = sr;
            ej["ref_script_size"] = json!(match r.get("plutus") { Some(sid) => pscript(sid.as_u64().unwrap() as u8).bytes().len(), None => mk::pubkey_script(r["native"].as_u64().unwrap() as u8).to_bytes().len() });
        }
        env_j.push(ej);
        key_ids.insert(u["addr"]["k"].as_u64().unwrap_or(1) as u8);
        st.env.insert(id, Utxo { input, addr, addr_spec: u["addr"].clone(), value, spec: u.clone() });
    }
    // key table: id -> vkey, hash (the orchestrator re-checks hash = blake2b-224(vkey) with hashlib)
    let keys: Vec<J> = (1u8..=24).map(|k| { let (vk, h) = mk::pubinfo(k); json!({"k": k, "vkey": jbytes(&vk), "hash": jbytes(&h)}) }).collect();
    let byr: Vec<J> = key_ids.iter().map(|k| { let a = mk::byron_addr(*k, 764824073); json!({"k": k, "addr": jbytes(&a.to_address().to_bytes()), "vkey": jbytes(&mk::bip32(*k).to_public().as_bytes()[..32])}) }).collect();
    // script table (hash re-checked by the orchestrator with hashlib): Plutus ids 1..6, native ids 1..12; datum table
    let mut scripts: Vec<J> = (1u8..=6).map(|sid| { let ps = pscript(sid); json!({"id": sid, "kind": "plutus", "lang": ps.language_version().kind() as u64 + 1, "bytes": jbytes(&ps.bytes()), "hash": jbytes(&ps.hash().to_bytes())}) }).collect();
    scripts.push({ let ns = any2_script(13); json!({"id": 113, "kind": "native", "lang": 0, "bytes": jbytes(&ns.to_bytes()), "hash": jbytes(&ns.hash().to_bytes())}) });
    scripts.extend((1u8..=12).chain(21u8..=24).map(|k| { let ns = mk::pubkey_script(k); json!({"id": k, "kind": "native", "lang": 0, "bytes": jbytes(&ns.to_bytes()), "hash": jbytes(&ns.hash().to_bytes())}) }));
    out.ev(json!({"ev": "Reset", "sc": sc, "pp": s["pp"], "utxo": env_j, "keys": keys, "byron": byr, "scripts": scripts}));
    let _ = (&st.vkeys, &st.byrons);
    for (i, op) in s["ops"].as_array().unwrap().iter().enumerate() {
        let name = op["op"].as_str().unwrap();
        if name == "Build" || name == "BuildAgain" {
            let tb = &st.tb;
            // build_tx validates fee and balance; when it refuses, the unvalidated build_tx_unsafe is what a caller using
            // build() gets: it is logged as well ("unsafe"), the obligations of a reported-successful balancing still apply
            let (r, unsafe_) = match call(|| tb.build_tx()) {
                Outcome::Ok(tx) => (Outcome::Ok(tx), false),
                // (cost bound: after a balancing that never succeeded a failed change attempt may leave hundreds of outputs behind; such
                // an unvalidated transaction carries no obligation of a successful balancing and is not logged beyond 8 KiB)
                Outcome::Err(e1) => match call(|| tb.build_tx_unsafe()) { Outcome::Ok(tx) if balanced_ok || tx.to_bytes().len() <= 8192 => { let _ = e1; (Outcome::Ok(tx), true) } , _ => (Outcome::Err(e1), false) },
                Outcome::Panic(p) => (Outcome::Panic(p), false),
            };
            let ev = match r {
                Outcome::Ok(tx) => {
                    let bytes = tx.to_bytes();
                    let full = call(|| tb.full_size()).to_json(|n| obj(vec![("n", J::from(n as u64))]));
                    let signed_o = call(|| sign(&st, &tx));
                    if let (Outcome::Ok(b), false, true) = (&signed_o, unsafe_, balanced_ok) { last = Some((tx.clone(), b.len())); }
                    let signed = signed_o.to_json(|b| obj(vec![("bytes", jbytes(&b))]));
                    json!({"ev": "Built", "sc": sc, "i": i, "again": name == "BuildAgain", "unsafe": unsafe_, "tx": jbytes(&bytes), "full_size": full, "signed": signed,
                           "fee_if_set": tb.get_fee_if_set().map(|f| jbn(&f)).unwrap_or(J::Null) })
                }
                Outcome::Err(e) => json!({"ev": "BuildErr", "sc": sc, "i": i, "err": ascii(&e)}),
                Outcome::Panic(p) => json!({"ev": "BuildErr", "sc": sc, "i": i, "panic": p}),
            };
            let mut ev = ev;
            if ev["fee_if_set"].is_null() { ev.as_object_mut().unwrap().remove("fee_if_set"); }
            out.ev(ev);
            continue;
        }
        if matches!(name, "AddChange" | "AddChangeWithDatum") {
            // figures of the builder just before the balancing call (for AIMING a later pass only: leftover lovelace and the fee it asks for)
            if let (Ok(ti), Ok(to), Ok(mf)) = (st.tb.get_total_input(), st.tb.get_total_output(), st.tb.min_fee()) {
                let (a, b, f): (u64, u64, u64) = (ti.coin().into(), to.coin().into(), mf.into());
                AIM.with(|x| x.set(Some((a.saturating_sub(b), f))));
            }
        }
        let r = call(|| apply(&mut st, op)).to_json(|m| m);
        if matches!(name, "AddChange" | "AddChangeWithDatum" | "AddInputsFromAndChange" | "AddInputsFromAndChangeWithCollateralReturn") { balanced_ok = r.get("ok").is_some(); }
        // the op is logged with its arguments resolved to wire values where the validator needs them
        let mut ev = json!({"ev": "Op", "sc": sc, "i": i, "op": name, "r": r});
        for k in ["n", "pct_n", "langs"] { if let Some(v) = op.get(k) { ev[k] = v.clone(); } }
        if name == "AddInput" { if let Some(it) = ev["r"].get("item").cloned() { ev["item"] = it; } }
        out.ev(ev);
    }
    last
}

// ------------------------------------------------------------------ seeded random scenarios

fn rvalue(rng: &mut Rng, coin: u64, assets: u64) -> J {
    let a: Vec<J> = (0..assets).map(|_| {
        let name: Vec<u8> = match rng.below(4) { 0 => vec![], 1 => vec![7], 2 => vec![9; 32], _ => { let l = 1 + rng.below(8) as usize; rng.bytes(l) } };
        json!({"p": [1 + rng.below(3)], "n": jbytes(&name), "q_n": jn(match rng.below(4) { 0 => 1, 1 => 1 + rng.below(1000), 2 => 1 << 32, _ => (rng.edge_u64() >> 4).max(1) })})
    }).collect();
    json!({"coin_n": jn(coin), "assets": a})
}

pub fn gen(rng: &mut Rng) -> J {
    let width_coin = |rng: &mut Rng| -> u64 { match rng.below(6) { 0 => 1_000_000 + rng.below(3_000_000), 1 => 65_536 * 16 + rng.below(100), 2 => (1u64 << 32) + rng.below(2_000_000) - 1_000_000,
        3 => 5_000_000_000 + rng.below(1000), 4 => 2_000_000 + rng.below(400_000), _ => 1_000_000 + rng.below(100_000_000) } };
    // coins-per-byte also at values where the min-ADA of an ordinary output sits at a coin-width boundary (2^16 around 200..283 per byte)
    let cpb = match rng.below(8) { 0 => 1, 1 => 0, 2 => 34482, 3 => 200 + rng.below(84), _ => 4310 };
    let pp = json!({"a": 44, "b": 155381, "cpb": cpb, "maxval": *rng.pick(&[5000u64, 5000, 500, 200]), "maxtx": *rng.pick(&[16384u64, 16384, 16384, 4000, 1500, 900, 600]),
                    "kd_n": jn(2_000_000), "pd_n": jn(500_000_000), "prefer_pure_change": rng.chance(1, 4), "no_burn": rng.chance(1, 4)});
    let nu = 1 + rng.below(5);
    let mut utxo = vec![];
    let one_tx = rng.chance(1, 5);
    for u in 1..=nu {
        let kind = *rng.pick(&["ent", "ent", "base", "byron", "ptr"]);
        let many = rng.chance(1, 8);
        let na = if rng.chance(1, 3) { 1 + rng.below(if many { 40 } else { 4 }) } else { 0 };
        let wc = width_coin(rng);
        // owners overlap: a few key ids shared between UTxOs
        let mut e = json!({"u": u, "ix": rng.below(3), "addr": {"kind": kind, "k": 1 + rng.below(4)}, "value": rvalue(rng, wc, na)});
        if one_tx { e["tx"] = json!(9); e["ix"] = json!([256u64, 1, 65535, 255, 257, 0][u as usize % 6]); }
        utxo.push(e);
    }
    let mut ops = vec![];
    // inputs: all explicit / all by selection / mixed (some explicit, then selection over ALL of them, which may re-offer spent ones)
    let mode = rng.below(4);
    let select = mode >= 2;
    if mode < 2 { for u in 1..=nu { ops.push(json!({"op": "AddInput", "u": u})); } }
    if mode == 3 { for u in 1..=nu { if rng.chance(1, 2) { ops.push(json!({"op": "AddInput", "u": u})); } } }
    // the older kind-specific entry points (add_key_input / add_bootstrap_input, on the inputs builder or on the transaction builder)
    if rng.chance(1, 5) { for o in ops.iter_mut() { if rng.chance(1, 2) { o["via"] = json!(*rng.pick(&["tb", "ib"])); } } }
    let no = rng.below(3);
    for _ in 0..no {
        // mostly small pure-ADA outputs; sometimes asset bundles (also large ones) and coins of every width
        let heavy = rng.chance(1, 6);
        let oc = if heavy { width_coin(rng) } else { 1_000_000 + rng.below(2_000_000) };
        let ona = if heavy { match rng.below(3) { 0 => 1 + rng.below(4), 1 => 20 + rng.below(40), _ => 0 } } else { 0 };
        let mut o = json!({"op": "AddOutput", "to": {"kind": *rng.pick(&["ent", "base", "byron"]), "k": 10 + rng.below(3)},
                           "value": rvalue(rng, oc, ona)});
        // what the output asks for is available: the first UTxO holds the same assets (and the coin)
        if heavy {
            let extra = o["value"]["assets"].as_array().cloned().unwrap_or_default();
            utxo[0]["value"]["assets"].as_array_mut().unwrap().extend(extra);
            let c0 = u64_of(&utxo[0]["value"]["coin_n"]);
            utxo[0]["value"]["coin_n"] = jn(c0.saturating_add(oc));
        }
        match rng.below(5) { 0 => { o["datum"] = json!({"hash": rng.below(100)}); } 1 => { o["datum"] = json!({"inline": rng.below(100000)}); } _ => {} }
        ops.push(o);
    }
    if rng.chance(1, 3) {
        let nc = 1 + rng.below(3);
        let certs: Vec<J> = (0..nc).map(|i| { let k = *rng.pick(&[0u64, 1, 2, 3, 4, 7, 8, 9, 10, 11, 12, 13, 14, 15, 16, 17, 18]);
            json!({"k": k, "g": true, "cred": {"k": 5 + rng.below(3)}, "cred2": {"k": 8}, "pool": 20 + i, "coin_n": jn(*rng.pick(&[0u64, 2_000_000, 500_000, 1 << 32]))}) }).collect();
        ops.push(json!({"op": "SetCerts", "certs": certs}));
    }
    if rng.chance(1, 4) {
        let nw = 1 + rng.below(2);
        ops.push(json!({"op": "SetWithdrawals", "wds": (0..nw).map(|i| json!({"k": 6 + i, "amt_n": jn(*rng.pick(&[0u64, 1, 700_000, 1 << 32]))})).collect::<Vec<_>>()}));
    }
    if rng.chance(1, 4) {
        let burn = rng.chance(1, 3);
        // burning needs the asset among the inputs: give the first UTxO some of it
        if burn { utxo[0]["value"]["assets"].as_array_mut().unwrap().push(json!({"mp": 9, "n": [66], "q_n": jn(50)})); }
        let amt = 1 + rng.below(50);
        let mut mints = vec![json!({"mp": 9, "n": [66], "amt": {"neg": burn, "mag_n": jn(amt)}})];
        // several additions for one asset under one witness: accumulating, or cancelling to zero (which must never be emitted)
        match rng.below(6) { 0 => mints.push(json!({"mp": 9, "n": [66], "amt": {"neg": !burn, "mag_n": jn(amt)}})), 1 => mints.push(json!({"mp": 9, "n": [66], "amt": {"neg": burn, "mag_n": jn(1 + rng.below(9))}})),
                             2 => mints.push(json!({"mp": 9, "n": [67, 68], "amt": {"neg": false, "mag_n": jn(3)}})),
                             // further policies (also compound native scripts) whose asset names differ from the first one's
                             3 => { mints.push(json!({"mp": *rng.pick(&[10u64, 11, 21, 23]), "n": [70], "amt": {"neg": false, "mag_n": jn(20)}}));
                                    if rng.chance(1, 2) { mints.push(json!({"mp": *rng.pick(&[12u64, 22, 24]), "n": jbytes(&rng.bytes(3)), "amt": {"neg": false, "mag_n": jn(1 + rng.below(1 << 33))}})); } }
                             _ => {} }
        // (a mint builder that was set but holds nothing: no mint field may be emitted for it)
        if rng.chance(1, 10) { mints.clear(); }
        ops.push(json!({"op": "SetMint", "mints": mints}));
    }
    if rng.chance(1, 6) {
        // the older mint entry points: one asset at a time, a policy's assets replaced, the whole mint replaced, mint with an output
        // that receives the minted asset (coin given, or the minimum the builder computes); also on top of an earlier SetMint
        let k = 9 + rng.below(3);
        let amt = 1 + rng.below(50);
        let nm: Vec<u8> = match rng.below(3) { 0 => vec![66], 1 => vec![], _ => vec![9; 32] };
        for _ in 0..1 + rng.below(3) {
            match rng.below(7) {
                0 => ops.push(json!({"op": "AddMintAsset", "mp": k, "n": jbytes(&nm), "amt": {"neg": false, "mag_n": jn(amt)}})),
                1 => { // burn: the asset must be among the inputs
                    utxo[0]["value"]["assets"].as_array_mut().unwrap().push(json!({"mp": k, "n": jbytes(&nm), "q_n": jn(amt + rng.below(3))}));
                    ops.push(json!({"op": "AddMintAsset", "mp": k, "n": jbytes(&nm), "amt": {"neg": true, "mag_n": jn(amt)}})); }
                2 => ops.push(json!({"op": "SetMintAsset", "mp": k, "assets": [{"n": jbytes(&nm), "amt": {"neg": false, "mag_n": jn(amt)}}, {"n": [1, 2], "amt": {"neg": false, "mag_n": jn(*rng.pick(&[1u64, 1 << 32, u64::MAX >> 1]))}}]})),
                3 => ops.push(json!({"op": "SetMintLegacy", "mints": [{"mp": k, "n": jbytes(&nm), "amt": {"neg": false, "mag_n": jn(amt)}}, {"mp": 9 + (k + 1) % 3, "n": [5], "amt": {"neg": false, "mag_n": jn(7)}}]})),
                4 => { let mut o = json!({"op": "AddMintAssetAndOutput", "mp": k, "n": jbytes(&nm), "amt": {"neg": false, "mag_n": jn(*rng.pick(&[1u64, amt, 1 << 32, u64::MAX >> 2]))}, "to": {"kind": *rng.pick(&["ent", "base", "byron"]), "k": 10 + rng.below(3)},
                                      "coin_n": jn(*rng.pick(&[1_000_000u64, 1_200_000, 2_000_000, 900_000, 5_000_000_000]))});
                       match rng.below(4) { 0 => { o["datum"] = json!({"hash": rng.below(100)}); } 1 => { o["datum"] = json!({"inline": rng.below(100000)}); } _ => {} }
                       ops.push(o); }
                5 => { let mut o = json!({"op": "AddMintAssetAndOutput", "mp": k, "n": jbytes(&nm), "amt": {"neg": false, "mag_n": jn(*rng.pick(&[1u64, amt, 255, 65536, 1 << 32, u64::MAX >> 2]))}, "to": {"kind": *rng.pick(&["ent", "base", "byron", "ptr"]), "k": 10 + rng.below(3)}});
                       match rng.below(5) { 0 => { o["datum"] = json!({"hash": rng.below(100)}); } 1 => { o["datum"] = json!({"inline": rng.below(100000)}); } 2 => { o["ref_script"] = json!(1 + rng.below(12)); } _ => {} }
                       ops.push(o); }
                _ => ops.push(json!({"op": "RemoveMint"})),
            }
        }
    }
    if rng.chance(1, 5) {
        let np = 1 + rng.below(2);
        let mut props: Vec<J> = (0..np).map(|i| json!({"dep_n": jn(*rng.pick(&[0u64, 1_000_000, 100_000_000])), "cred": {"k": 7 + i}, "act": rng.below(8), "add": [3, 1, 2], "rm": [4, 6, 5]})).collect();
        match rng.below(6) {
            // the same proposal twice; two proposals that differ only in the ORDER in which set members were handed over
            0 => { let p = props[0].clone(); props.push(p); }
            1 => { let mut p = props[0].clone(); p["act"] = json!(4); props[0] = p.clone(); p["rm"] = json!([6, 4, 5]); props.push(p); }
            2 => { let mut p = props[0].clone(); p["act"] = json!(4); props[0] = p.clone(); p["add"] = json!([1, 2, 3]); props.push(p); }
            _ => {}
        }
        ops.push(json!({"op": "SetProposals", "props": props}));
    }
    if rng.chance(1, 6) { ops.push(json!({"op": "SetDonation", "n": jn(1 + rng.below(3_000_000))})); ops.push(json!({"op": "SetTreasury", "n": jn(1_000_000_000)})); }
    if rng.chance(1, 5) { ops.push(json!({"op": "AddRequiredSigner", "k": 1 + rng.below(12)})); }
    if rng.chance(1, 4) {
        let (label, len, alonzo) = (rng.below(1000), 1 + rng.below(60), rng.chance(1, 2));
        ops.push(json!({"op": "SetAux", "label_n": jn(label), "len": len, "alonzo": alonzo}));
        // set again: the same content in the other layout, or other content
        match rng.below(6) { 0 => ops.push(json!({"op": "SetAux", "label_n": jn(label), "len": len, "alonzo": !alonzo})), 1 => ops.push(json!({"op": "SetAux", "label_n": jn(label + 1), "len": len, "alonzo": alonzo})),
                             // auxiliary data / metadata that is present but holds nothing (instead of, or after, the filled one)
                             2 => { if rng.chance(1, 2) { ops.pop(); } ops.push(json!({"op": "SetAux", "empty": *rng.pick(&["metadata", "aux", "aux_alonzo"])})); } _ => {} }
    }
    if rng.chance(1, 6) {
        // metadata one entry at a time (typed, or from JSON under each schema), on top of whatever auxiliary data is there; scripts
        // inside the auxiliary data; auxiliary data removed again
        for _ in 0..1 + rng.below(3) {
            let label = *rng.pick(&[0u64, 1, 721, 1 << 32, u64::MAX]);
            match rng.below(8) {
                0 => ops.push(json!({"op": "AddMetadatum", "label_n": jn(label), "how": "text", "len": 1 + rng.below(64)})),
                1 => ops.push(json!({"op": "AddMetadatum", "label_n": jn(label), "how": "int", "v_n": jn(rng.edge_u64())})),
                2 => ops.push(json!({"op": "AddMetadatum", "label_n": jn(label), "how": "json", "json": *rng.pick(&["{\"a\":[1,2,{\"b\":\"c\"}]}", "\"0x00ff\"", "[]", "{\"5\":-7}"])})),
                3 => ops.push(json!({"op": "AddMetadatum", "label_n": jn(label), "how": "json_basic", "json": *rng.pick(&["{\"0xab\":\"0xcd\",\"7\":[1]}", "\"0x00ff\"", "{\"5\":-7}"])})),
                4 => ops.push(json!({"op": "AddMetadatum", "label_n": jn(label), "how": "json_detailed", "json": *rng.pick(&["{\"map\":[{\"k\":{\"int\":1},\"v\":{\"bytes\":\"00ff\"}}]}", "{\"list\":[{\"string\":\"s\"},{\"int\":-5}]}"])})),
                5 => ops.push(json!({"op": "SetAuxScripts", "native": [1 + rng.below(12)], "plutus": if rng.chance(1, 2) { vec![1 + rng.below(6)] } else { vec![] }})),
                6 => ops.push(if rng.chance(1, 2) { json!({"op": "RemoveAux"}) } else { json!({"op": "SetAux", "empty": *rng.pick(&["metadata", "aux", "aux_alonzo"])}) }),
                _ => ops.push(json!({"op": "SetAux", "label_n": jn(label), "len": 1 + rng.below(60), "alonzo": rng.chance(1, 2)})),
            }
        }
    }
    if rng.chance(1, 5) { ops.push(json!({"op": "SetTtl", "n": jn(rng.edge_u64())})); }
    if rng.chance(1, 8) {
        match rng.below(5) { 0 => ops.push(json!({"op": "SetTtl32", "v": *rng.pick(&[0u64, 23, 24, 65535, 65536, u32::MAX as u64])})), 1 => ops.push(json!({"op": "SetValidityStart32", "v": *rng.pick(&[0u64, 255, 256, u32::MAX as u64])})),
                             2 => ops.push(json!({"op": "SetValidityStart", "n": jn(rng.edge_u64())})), 3 => ops.push(json!({"op": "RemoveTtl"})), _ => ops.push(json!({"op": "RemoveValidityStart"})) }
    }
    if rng.chance(1, 12) && ops.iter().any(|o| o["op"] == "SetCerts") { ops.push(json!({"op": "RemoveCerts"})); }
    if rng.chance(1, 12) && ops.iter().any(|o| o["op"] == "SetWithdrawals") { ops.push(json!({"op": "RemoveWithdrawals"})); }
    if rng.chance(1, 8) { ops.push(json!({"op": "SetMinFee", "n": jn(150_000 + rng.below(400_000))})); }
    // collateral: inputs (pure ADA or asset-carrying), then one of the three helpers (before or after balancing)
    let mut col_after: Vec<J> = vec![];
    let col = rng.chance(1, 3);
    let mut col_pct: Option<u64> = None;
    if col {
        // one to three collateral inputs; their values add up (the same asset may sit in several of them)
        let mut cus: Vec<u64> = vec![1 + rng.below(nu)];
        if rng.chance(1, 3) { for _ in 0..1 + rng.below(2) { let c = 1 + rng.below(nu); if !cus.contains(&c) { cus.push(c); } } }
        let mut ccoin = 0u64;
        let mut merged: Vec<J> = vec![];
        for cu in cus.iter() {
            ops.push(json!({"op": "AddCollateral", "u": cu}));
            let cv = &utxo[(*cu - 1) as usize]["value"];
            ccoin = ccoin.saturating_add(u64_of(&cv["coin_n"]));
            for a in cv["assets"].as_array().cloned().unwrap_or_default() {
                if let Some(m) = merged.iter_mut().find(|m| m["p"] == a["p"] && m["n"] == a["n"]) { m["q_n"] = jn(u64_of(&m["q_n"]).saturating_add(u64_of(&a["q_n"]))); } else { merged.push(a); }
            }
        }
        let cassets = J::Array(merged);
        let to = json!({"kind": *rng.pick(&["ent", "base"]), "k": 16});
        let h = match rng.below(6) {
            0 | 1 => { // explicit return: assets equal / fewer / more / different than the inputs'
                let tot = match rng.below(3) { 0 => 1 + rng.below(ccoin.max(2) - 1), 1 => ccoin / 2, _ => 200_000 + rng.below(2_000_000) }.min(ccoin);
                let mut assets = cassets.clone();
                match rng.below(5) { 0 => { if let Some(a) = assets.as_array_mut() { a.pop(); } } 1 => { assets.as_array_mut().unwrap().push(json!({"p": [3], "n": [1], "q_n": jn(5)})); }
                    2 => { if let Some(a) = assets.as_array_mut() { if !a.is_empty() { a[0]["q_n"] = jn(1); } } } _ => {} }
                let mut o = json!({"op": "SetCollateralReturnAndTotal", "to": to, "value": {"coin_n": jn(ccoin - tot), "assets": assets}});
                match rng.below(4) { 0 => { o["datum"] = json!({"inline_bytes": 1 + rng.below(64)}); } 1 => { o["datum"] = json!({"hash": 5}); } _ => {} }
                // half of the time aim the return coin at the min-ADA boundary of this very output (the library's own figure is
                // used for aiming only; the verdict is the validator's)
                if rng.chance(1, 2) {
                    if let Ok(full) = output_of(&o) {
                        let dc = csl::DataCost::new_coins_per_byte(&csl::BigNum::from(pp["cpb"].as_u64().unwrap()));
                        let hi: u64 = csl::min_ada_for_output(&full, &dc).map(|x| x.into()).unwrap_or(1_000_000);
                        let lo: u64 = csl::min_ada_for_output(&csl::TransactionOutput::new(&full.address(), &full.amount()), &dc).map(|x| x.into()).unwrap_or(hi);
                        let c = lo.saturating_sub(3000) + rng.below(hi.saturating_sub(lo) + 6000);
                        if c <= ccoin { o["value"]["coin_n"] = jn(c); }
                    }
                }
                o
            }
            2 | 3 => json!({"op": "SetTotalCollateralAndReturn", "to": to, "n": jn(match rng.below(4) { 0 => ccoin, 1 => ccoin.saturating_sub(900_000 + rng.below(400_000)), 2 => 300_000 + rng.below(1_000_000), _ => ccoin + 1 })}),
            // (also percentages for which fee x percentage no longer fits 64 bits: the helper has to refuse, not wrap)
            _ => { col_pct = Some(*rng.pick(&[150u64, 100, 1, 1000, 150, 10_000_000_000_000_000, u64::MAX / 3, u64::MAX])); J::Null }
        };
        if !h.is_null() {
            // sometimes a helper (or a raw setter) has already run with other figures: the later helper call replaces BOTH fields
            if rng.chance(1, 4) {
                let first = match rng.below(3) { 0 => json!({"op": "SetTotalCollateral", "n": jn(1 + rng.below(ccoin.max(2)))}),
                    1 => json!({"op": "SetTotalCollateralAndReturn", "to": to, "n": jn(ccoin.saturating_sub(1_000_000 + rng.below(500_000)).max(1))}),
                    _ => json!({"op": "SetCollateralReturnAndTotal", "to": to, "value": {"coin_n": jn(ccoin.saturating_sub(1_500_000 + rng.below(500_000)).max(1_000_000)), "assets": cassets.clone()}}) };
                if rng.chance(1, 2) { ops.push(first); ops.push(h); } else { col_after.push(first); col_after.push(h); }
            } else if rng.chance(1, 2) { ops.push(h); } else { col_after.push(h); } }
    }
    // shuffle the non-balancing operations: the order of issuing them must not matter
    for i in (1..ops.len()).rev() { let j = rng.below(i as u64 + 1) as usize; ops.swap(i, j); }
    let to = json!({"kind": *rng.pick(&["ent", "base", "byron"]), "k": 15});
    if let Some(pct) = col_pct {
        // usually everything is offered; sometimes so little that the balancing step of the helper has to fail
        let us: Vec<u64> = if rng.chance(1, 5) { vec![1 + rng.below(nu)] } else { (1..=nu).collect() };
        ops.retain(|o| o["op"] != "AddCollateral");
        let cu = 1 + rng.below(nu);
        ops.insert(0, json!({"op": "AddCollateral", "u": cu}));
        if rng.chance(1, 3) { let c2 = 1 + rng.below(nu); if c2 != cu { ops.insert(1, json!({"op": "AddCollateral", "u": c2})); } }
        ops.push(json!({"op": "AddInputsFromAndChangeWithCollateralReturn", "strat": *rng.pick(&["LargestFirstMultiAsset", "RandomImproveMultiAsset"]), "us": us, "to": to, "seed": rng.below(1000), "pct_n": jn(pct)}));
    } else if select {
        let us: Vec<u64> = (1..=nu).collect();
        // (the two lovelace-only strategies as well: they refuse asset-carrying requests, and are judged like the others when they accept)
        ops.push(json!({"op": "AddInputsFromAndChange", "strat": *rng.pick(&["LargestFirstMultiAsset", "RandomImproveMultiAsset", "LargestFirstMultiAsset", "RandomImproveMultiAsset", "LargestFirst", "RandomImprove"]), "us": us, "to": to, "seed": rng.below(1000)}));
    } else if rng.chance(1, 10) {
        ops.push(json!({"op": "SetFee", "n": jn(200_000 + rng.below(300_000))}));
    } else {
        if rng.chance(1, 8) { ops.push(json!({"op": "AddChangeWithDatum", "to": to, "datum": if rng.chance(1, 2) { json!({"hash": rng.below(100)}) } else { json!({"inline": rng.below(1 << 31)}) }})); }
        else { ops.push(json!({"op": "AddChange", "to": to})); }
        // the caller keeps working on the builder after balancing succeeded: whatever a validating build still produces must obey the rules
        if rng.chance(1, 7) {
            match rng.below(6) {
                0 => ops.push(json!({"op": "SetCerts", "certs": []})),
                1 => ops.push(json!({"op": "SetCerts", "certs": [{"k": 0, "g": true, "cred": {"k": 6}, "cred2": {"k": 8}, "pool": 21, "coin_n": jn(2_000_000)}]})),
                2 => ops.push(json!({"op": "SetWithdrawals", "wds": [{"k": 6, "amt_n": jn(1 + rng.below(900_000))}]})),
                3 => ops.push(json!({"op": "AddOutput", "to": {"kind": "ent", "k": 12}, "value": {"coin_n": jn(1_200_000), "assets": []}})),
                4 => ops.push(json!({"op": "SetFee", "n": jn(150_000 + rng.below(200_000))})),
                _ => ops.push(json!({"op": "AddInput", "u": 1 + rng.below(nu)})),
            }
        }
    }
    ops.extend(col_after);
    if col && rng.chance(1, 10) { ops.push(json!({"op": *rng.pick(&["RemoveCollateralReturn", "RemoveTotalCollateral"])})); }
    ops.push(json!({"op": "Build"}));
    if rng.chance(1, 4) { ops.push(json!({"op": "BuildAgain"})); }
    let mut scn = json!({"pp": pp, "utxo": utxo, "ops": ops});
    if col_pct.is_some() && rng.chance(1, 3) { scn["rerun"] = json!({"col_exact": *rng.pick(&[0i64, 0, 0, 1, -1])}); return scn; }
    if col_pct.is_some() && rng.chance(1, 3) { scn["rerun"] = json!({"pct_edge": *rng.pick(&[0u64, 1, 2, 50, 100_000, 1 << 40])}); return scn; }
    if !select && col_pct.is_none() && rng.chance(1, 8) { scn["rerun"] = json!({"exact_edge": *rng.pick(&[0i64, 0, 0, 1, -1, 2, 200])}); return scn; }
    match rng.below(12) { 0 => { scn["rerun"] = json!({"max_tx": rng.below(3)}); } 1 => { scn["rerun"] = json!({"fixed_fee": rng.below(1001)}); } 2 => { scn["rerun"] = json!({"max_val": rng.below(4)}); } 3 | 4 => { scn["rerun"] = json!({"change_edge": rng.below(8000) as i64 - 2000}); } 5 | 6 => { scn["rerun"] = json!({"width_edge": rng.below(700) as i64 - 100}); } _ => {} }
    scn
}

/// Plutus / native-script scenarios: script-locked inputs, Plutus mints, script certificates / withdrawals / votes, reference
/// inputs holding scripts or datums, extra datums, in a random order of issuing; every script use carries a unique redeemer id
pub fn gen_plutus(rng: &mut Rng) -> J {
    let mut utxo = vec![];
    let mut ops: Vec<J> = vec![];
    let mut next_u = 1u64;
    let mut rid = 100u64;
    // a third of the scenarios: every output comes from ONE transaction, with indices on both sides of the byte boundaries (the
    // ledger orders outpoints by transaction id, then NUMERICALLY by index)
    let one_tx = rng.chance(1, 3);
    const WIDE_IX: [u64; 14] = [3, 256, 1, 65534, 255, 7, 257, 65535, 2, 4096, 0, 300, 512, 258];   // (the ledger's index is 16 bits wide)
    let mut new_u = |utxo: &mut Vec<J>, mut e: J, rng: &mut Rng| -> u64 { let u = next_u; next_u += 1; e["u"] = json!(u);
        if one_tx { e["tx"] = json!(5); e["ix"] = json!(if (u as usize) < WIDE_IX.len() { WIDE_IX[u as usize] } else { 1000 + u }); }
        else { e["tx"] = json!((u * 7) % 41 + 1); e["ix"] = json!(rng.below(4)); }
        utxo.push(e); u };
    let ex = |rng: &mut Rng| json!([rng.below(2_000_000), rng.below(500_000_000)]);
    // funding and collateral
    // sometimes the spent funding output itself holds a reference script: the caller declares it (with its size) as a script
    // reference input and lets the builder drop the duplicate from the reference inputs
    let spent_holds_script = rng.chance(1, 4);
    let mut f1e = json!({"addr": {"kind": "ent", "k": 1}, "value": {"coin_n": jn(50_000_000 + rng.below(1 << 33)), "assets": []}});
    if spent_holds_script { f1e["ref_script"] = if rng.chance(1, 2) { json!({"plutus": 6}) } else { json!({"native": 11}) }; }
    // half of the script-holding funding outputs are handed to the builder as a whole UTxO (any owner kind) instead of being declared
    let as_utxo = spent_holds_script && rng.chance(1, 2);
    if as_utxo { f1e["addr"] = json!({"kind": *rng.pick(&["ent", "base", "byron", "ptr"]), "k": 1 + rng.below(2)}); }
    let f1 = new_u(&mut utxo, f1e.clone(), rng);
    if spent_holds_script && !as_utxo {
        let size = script_ref_of(&f1e["ref_script"]).to_unwrapped_bytes().len();
        ops.push(json!({"op": "AddRefInput", "u": f1, "size": size}));
    }
    let col = new_u(&mut utxo, json!({"addr": {"kind": *rng.pick(&["ent", "byron"]), "k": 2}, "value": {"coin_n": jn(6_000_000), "assets": []}}), rng);
    // a quarter of the scenarios leave the funding to coin selection at the end (inputs chosen by the builder join the script inputs)
    let select = !as_utxo && rng.chance(1, 4);
    let mut pool: Vec<u64> = vec![f1];
    if select { for _ in 0..2 { pool.push(new_u(&mut utxo, json!({"addr": {"kind": *rng.pick(&["ent", "base"]), "k": 1 + rng.below(2)}, "value": {"coin_n": jn(3_000_000 + rng.below(6_000_000)), "assets": []}}), rng)); } }
    else { ops.push(json!({"op": "AddInput", "u": f1, "utxo": as_utxo})); }
    // script sources: each Plutus script id is consistently provided by witness or by one reference UTxO
    let mut src: std::collections::BTreeMap<u64, J> = std::collections::BTreeMap::new();
    for sid in 1..=5u64 {
        if rng.chance(1, 2) { let r = new_u(&mut utxo, json!({"addr": {"kind": "ent", "k": 9}, "value": {"coin_n": jn(20_000_000), "assets": []}, "ref_script": {"plutus": sid}}), rng); src.insert(sid, json!({"ref": r})); }
        else { src.insert(sid, json!("wit")); }
    }
    let datum_ref = new_u(&mut utxo, json!({"addr": {"kind": "ent", "k": 9}, "value": {"coin_n": jn(3_000_000), "assets": []}, "datum": {"inline": 777}}), rng);
    let nsp = rng.below(4);
    for _ in 0..nsp {
        let sid = 1 + rng.below(4);
        let dn = *rng.pick(&[500u64, 501, 502, 3_000_000_500, 3_000_000_501]);
        let dk = rng.below(3);
        let mut e = json!({"addr": {"kind": "plutus_ent", "s": sid}, "value": {"coin_n": jn(2_000_000 + rng.below(5_000_000)), "assets": []}});
        let datum = match dk { 0 => { e["datum"] = json!({"hash": dn}); json!("wit") } 1 => { e["datum"] = json!({"inline": dn}); json!("none") } _ => { e["datum"] = json!({"hash": 777}); json!({"ref": datum_ref}) } };
        let u = new_u(&mut utxo, e, rng);
        rid += 1;
        let mut w = json!({"s": sid, "rid": rid, "script": src[&sid], "datum": datum, "dn": dn, "ex": ex(rng)});
        if rng.chance(1, 4) { w["req"] = json!(17 + rng.below(3)); }
        ops.push(json!({"op": "AddPlutusInput", "u": u, "w": w}));
    }
    let mut fixups: Vec<J> = vec![];
    if rng.chance(1, 6) {
        // a key-owned output first registered as a Plutus input by mistake, then registered again as a regular input
        let u = new_u(&mut utxo, json!({"addr": {"kind": "ent", "k": 3}, "value": {"coin_n": jn(4_000_000), "assets": []}}), rng);
        rid += 1;
        let sid = 1 + rng.below(4);
        ops.push(json!({"op": "AddPlutusInput", "u": u, "w": {"s": sid, "rid": rid, "script": src[&sid], "datum": "wit", "dn": 503, "ex": ex(rng)}}));
        fixups.push(json!({"op": "AddInput", "u": u}));
    }
    if rng.chance(1, 3) {
        // (ids above 20: compound scripts - nested all / any / n-of-k with time locks around the signature leaves)
        let k = if rng.chance(1, 3) { 21 + rng.below(4) } else { 3 + rng.below(3) };
        let u = new_u(&mut utxo, json!({"addr": {"kind": "script_ent", "k": k}, "value": {"coin_n": jn(3_000_000), "assets": []}}), rng);
        let script = if rng.chance(1, 3) { let r = new_u(&mut utxo, json!({"addr": {"kind": "ent", "k": 9}, "value": {"coin_n": jn(20_000_000), "assets": []}, "ref_script": {"native": k}}), rng); json!({"ref": r}) } else { json!("wit") };
        ops.push(json!({"op": "AddNativeInput", "u": u, "script": script, "utxo": rng.chance(1, 4)}));
    }
    if rng.chance(1, 5) {
        // two outputs locked by the same any-of script, spent with different declared signers
        let k = 13;
        for signer in [k, k + 1] {
            let u = new_u(&mut utxo, json!({"addr": {"kind": "any2_ent", "k": k}, "value": {"coin_n": jn(2_500_000), "assets": []}}), rng);
            ops.push(json!({"op": "AddAny2Input", "u": u, "signer": signer}));
        }
    }
    if rng.chance(1, 2) {
        let n = 1 + rng.below(3);
        let mut sids: Vec<u64> = vec![1, 2, 3, 4, 5];
        let mut mints = vec![];
        for _ in 0..n {
            if rng.chance(1, 3) { mints.push(json!({"mp": 9 + rng.below(4), "n": [66], "amt": {"neg": false, "mag_n": jn(5)}})); continue; }   // native policies of several keys: some sort below, some above the Plutus ones
            let sid = sids.remove(rng.below(sids.len() as u64) as usize);
            rid += 1;
            let mag = 1 + rng.below(9);
            let pw = json!({"s": sid, "rid": rid, "script": src[&sid], "ex": ex(rng)});
            mints.push(json!({"n": [65], "amt": {"neg": false, "mag_n": jn(mag)}, "pw": pw}));
            // a second addition under the same witness that cancels the first (a zero entry must never be emitted, and the other
            // policies' pointers must not be counted against a policy that is not in the mint field)
            if rng.chance(1, 6) { mints.push(json!({"n": [65], "amt": {"neg": true, "mag_n": jn(mag)}, "pw": pw})); }
        }
        ops.push(json!({"op": "SetMint", "mints": mints}));
    }
    if rng.chance(1, 2) {
        let n = 1 + rng.below(3);
        let mut certs = vec![];
        for i in 0..n {
            let kind = *rng.pick(&[1u64, 2, 7, 8, 9, 14, 15, 16, 17, 18, 1, 2, 7, 8, 9, 0]);   // 0: legacy registration, needs no witness - a script witness offered for it must be refused
            if rng.chance(1, 10) { certs.push(json!({"k": kind, "g": true, "pool": 20 + i, "coin_n": jn(2_000_000), "cred2": {"k": 8}, "plain_script": 1 + rng.below(5)})); continue; }
            match rng.below(3) {
                0 => { let sid = 1 + rng.below(5); rid += 1; certs.push(json!({"k": kind, "g": true, "pool": 20 + i, "coin_n": jn(2_000_000), "pw": {"s": sid, "rid": rid, "script": src[&sid], "datum": "none", "ex": ex(rng)}})); }
                1 => certs.push(json!({"k": kind, "g": true, "pool": 20 + i, "coin_n": jn(2_000_000), "nw": if rng.chance(1, 3) { 21 + (i + rng.below(4)) % 4 } else { 6 + i }})),
                _ => certs.push(json!({"k": kind, "g": true, "pool": 20 + i, "coin_n": jn(2_000_000), "cred": {"k": 5 + i}})),
            }
        }
        ops.push(json!({"op": "SetCerts", "certs": certs}));
    }
    if rng.chance(1, 2) {
        let n = 1 + rng.below(3);
        let mut sids: Vec<u64> = vec![1, 2, 3, 4, 5];
        let mut wds = vec![];
        for i in 0..n {
            if rng.chance(1, 3) { wds.push(json!({"k": 6 + i, "amt_n": jn(100 + i)})); continue; }
            if rng.chance(1, 3) { wds.push(json!({"nw": if rng.chance(1, 3) { 21 + rng.below(4) } else { 1 + rng.below(12) }, "amt_n": jn(200 + i)})); continue; }
            let sid = sids.remove(rng.below(sids.len() as u64) as usize);
            rid += 1;
            wds.push(json!({"amt_n": jn(1000 + i), "pw": {"s": sid, "rid": rid, "script": src[&sid], "datum": "none", "ex": ex(rng)}}));
        }
        ops.push(json!({"op": "SetWithdrawals", "wds": wds}));
    }
    if rng.chance(1, 4) {
        // one to three key voters of any kind and up to two script voters (committee / DRep), in any order of the calls
        let mut votes = vec![];
        let mut used = BTreeSet::new();
        for _ in 0..1 + rng.below(3) { let kind = *rng.pick(&["drep_key", "cc_key", "spo"]); let k = 7 + rng.below(3); if used.insert((kind, k)) { votes.push(json!({"kind": kind, "k": k, "act": 1})); } }
        let mut sids = BTreeSet::new();
        for _ in 0..rng.below(3) { let sid = 1 + rng.below(5); let kind = *rng.pick(&["drep_script", "cc_script"]); if sids.insert((kind, sid)) { rid += 1; votes.push(json!({"kind": kind, "act": 2, "w": {"s": sid, "rid": rid, "script": src[&sid], "datum": "none", "ex": ex(rng)}})); } }
        for i in (1..votes.len()).rev() { let j = rng.below(i as u64 + 1) as usize; votes.swap(i, j); }
        ops.push(json!({"op": "SetVotes", "votes": votes}));
    }
    if rng.chance(1, 5) {
        // proposals: plain ones and ones guarded by the proposal policy script, in any order of the calls
        let mut props = vec![];
        for i in 0..1 + rng.below(3) {
            let dep = *rng.pick(&[0u64, 1_000_000, 2_000_000]);
            if rng.chance(1, 2) { let sid = 1 + rng.below(5); rid += 1; props.push(json!({"dep_n": jn(dep + i), "cred": {"k": 7 + i}, "pc": rng.chance(1, 3), "w": {"s": sid, "rid": rid, "script": src[&sid], "datum": "none", "ex": ex(rng)}})); }
            else { props.push(json!({"dep_n": jn(dep + i), "cred": {"k": 7 + i}})); }
        }
        ops.push(json!({"op": "SetProposals", "props": props}));
    }
    if rng.chance(1, 3) { ops.push(json!({"op": "AddExtraDatum", "n": *rng.pick(&[500u64, 501, 900])})); }
    if rng.chance(1, 5) { ops.push(json!({"op": "AddExtraDatum", "n": 900})); }
    if rng.chance(1, 4) { ops.push(json!({"op": "AddRequiredSigner", "k": 1 + rng.below(4)})); }
    if rng.chance(1, 4) { ops.push(json!({"op": "AddRefInput", "u": datum_ref})); }
    // an extra datum equal in value to a datum already in play, in another encoding
    if rng.chance(1, 5) { ops.push(json!({"op": "AddExtraDatum", "n": *rng.pick(&[500u64, 501, 502, 900]), "alt": true})); }
    // a key-locked output (every address kind) offered as a script input
    if rng.chance(1, 6) {
        let ku = new_u(&mut utxo, json!({"addr": {"kind": *rng.pick(&["ent", "base", "ptr"]), "k": 1 + rng.below(3)}, "value": {"coin_n": jn(2_500_000), "assets": []}}), rng);
        let sid = 1 + rng.below(4);
        ops.push(json!({"op": "OfferKeyUtxoAsPlutus", "u": ku, "w": {"s": sid, "rid": 199, "script": src[&sid], "datum": "wit", "dn": 504, "ex": ex(rng)}}));
    }
    if rng.chance(1, 3) { ops.push(json!({"op": "AddOutput", "to": {"kind": "ent", "k": 11}, "value": {"coin_n": jn(1_500_000), "assets": []}})); }
    for i in (1..ops.len()).rev() { let j = rng.below(i as u64 + 1) as usize; ops.swap(i, j); }
    ops.extend(fixups);
    ops.push(json!({"op": "AddCollateral", "u": col}));
    // an output that is referenced for the script it holds may serve as collateral too (only SPENT inputs must differ from reference inputs)
    if rng.chance(1, 5) { if let Some(r) = src.values().find_map(|v| v.get("ref").and_then(|x| x.as_u64())) { ops.push(json!({"op": "AddCollateral", "u": r})); } }
    // the hash is computed after the last operation that adds an input: with coin selection that is after the selecting call
    // cost models are usually supplied for all three languages; sometimes only for some (a language in use without its cost model
    // makes the call fail - it must not produce a hash that leaves that language out)
    let langs = match rng.below(10) { 0 => json!([1]), 1 => json!([2]), 2 => json!([3]), 3 => json!([1, 2]), 4 => json!([2, 3]), _ => json!([1, 2, 3]) };
    if !select { ops.push(json!({"op": "CalcScriptDataHash", "langs": langs})); }
    let to = json!({"kind": "ent", "k": 15});
    if rng.chance(1, 3) { ops.push(json!({"op": "SetTotalCollateralAndReturn", "to": to, "n": jn(1_000_000 + rng.below(3_000_000))})); }
    // mostly balanced by the builder; sometimes the caller fixes the fee somewhere between the linear part and a generous total
    // (selection, then the hash, then change: add_inputs_from_and_change would leave no place for the hash between the two)
    if select { ops.push(json!({"op": "AddInputsFrom", "strat": *rng.pick(&["LargestFirst", "RandomImprove", "LargestFirstMultiAsset", "RandomImproveMultiAsset"]), "us": pool, "seed": rng.below(1000)}));
                ops.push(json!({"op": "CalcScriptDataHash", "langs": langs}));
                ops.push(json!({"op": "AddChange", "to": to})); }
    else if rng.chance(1, 7) { ops.push(json!({"op": "SetFee", "n": jn(155_381 + 44 * (400 + rng.below(1200)) + rng.below(150_000))})); }
    else { ops.push(json!({"op": "AddChange", "to": to})); }
    ops.push(json!({"op": "Build"}));
    if rng.chance(1, 3) { ops.push(json!({"op": "BuildAgain"})); }
    let pp = json!({"a": 44, "b": 155381, "cpb": 4310, "maxval": 5000, "maxtx": *rng.pick(&[16384u64, 16384, 16384, 3000, 2000, 1400, 1000]), "kd_n": jn(2_000_000), "pd_n": jn(500_000_000),
                    "ex": [577, 10000, 721, 10000000], "ref": [*rng.pick(&[15u64, 15, 0, 44]), 1], "dedup": spent_holds_script || rng.chance(1, 3)});
    let mut scn = json!({"pp": pp, "utxo": utxo, "ops": ops});
    match rng.below(8) { 0 => { scn["rerun"] = json!({"max_tx": rng.below(3)}); } 1 | 2 => { scn["rerun"] = json!({"fixed_fee": rng.below(1001)}); } _ => {} }
    scn
}

pub fn main(a: &Args) {
    let plutus_only = a.flags.iter().any(|f| f == "--plutus");
    if plutus_only { return drive(a, |rng, _| gen_plutus(rng), |out, sc, s| run_one(out, sc, s)); }
    let minada_only = a.flags.iter().any(|f| f == "--minada");
    drive(a, |rng, i| if minada_only || i % 8 == 7 { gen_minada(rng) } else { gen(rng) }, |out, sc, s| run_one(out, sc, s));
}
